"""C16 — forward-model operators obey energy, adjoint and projection identities.

Shape L (configuration lattice) with the linearity argument of DESIGN §1: Fourier translation, Fresnel propagation and
patch gather/scatter are linear in the data, so for every ROI shape the operator is applied to the FULL DELTA BASIS and
the identities are checked as matrix equalities (U^H U = I, U_a U_b = U_{a+b}, U_int = roll permutation, S = G^T) —
which decides them for every array of that shape. The remaining quantifiers (shift vectors, thicknesses, tilts,
energies, index geometries, slice/mode counts, amplitude patterns) run over stated grids. The two non-linear
statements (pure-phase intensity conservation through the whole forward chain, Fourier-magnitude projection) run over
seeded complex stacks. Every point executes the real quantem code; operators that need a reconstruction object are
driven through a tiny real Ptychography instance built with the public API.
"""
from __future__ import annotations

import functools
import itertools
import math
import warnings

import numpy as np

from mc.harness import Broken, Tally

LEVEL = "exploration"
TECHNIQUE = "exhaustive configuration lattice (ROI shapes x shift grid x shift pairs x thicknesses x tilts x energies x index geometries x slices x modes x amplitude kinds); full delta basis per shape so that unitarity, additivity and adjointness are matrix equalities"
CLAIM = (
    "For every ROI shape of the alphabet (odd/even, non-square) and every point of the stated grids: fourier_shift_expand is unitary on the "
    "whole space (U^H U = I on the full delta basis), additive in the shift vector, and equal to a circular roll for integer shifts (torch and "
    "NumPy variants); the propagators read from Ptychography.propagators are unit-modulus, the propagation they induce is unitary on the full "
    "basis, additive in the distance and inverted by the negative distance; sum_patches is exactly the transpose of patch extraction for index "
    "sets with wrap-around and repeats (matrix equality on both bases; exact hit counts and inner products for index sets of 2^12..2^17 patch pixels around block boundaries; at the size corners "
    "1 patch as a 2-D or 3-D index array / 2 / 3 patches x object axes shorter than, equal to and longer than the ROI on each axis separately (one patch wrapping onto itself) x real and complex patches, "
    "sum_patches, sum_patches_base and the analytic object gradient agree with the transposed extraction matrix, with np.add.at and conserve the total weight); for pure-phase and potential objects the summed predicted intensity of "
    "every pattern equals the probe's total intensity for 1..4 slices and 1..3 modes; fourier_projection returns a wave whose detector "
    "amplitude equals the measured amplitudes and is idempotent, single and mixed state, for signal scales 1e-4..30; and for every ordered pair "
    "(thorough: triple) of calls from an alphabet built to collide on coarse cache keys, the last call still obeys its identities, agrees with the same call "
    "executed alone, and the propagators equal the closed-form Fresnel kernel of their own sampling; every accepted spelling of the shift and data arguments (dtype, container, shape, "
    "layout; four shifting entry points) gives the answer of the canonical float32 spelling, a roll for integer values, and composes with a fractional shift; the propagators are unit-modulus, "
    "invertible and intensity-preserving over the whole range 0.5 keV..1 MeV x 0.05..3 A sampling x 1e-3..1e5 A thickness x tilts up to 150 mrad, including wavelength*k_max >= 1. Exhaustive lattice exploration with the linearity "
    "argument is the right level: the data quantifier is closed by the basis, the defects live in shape parity, axis order and index handling."
)
NOTE = (
    "Trusted: linearity of the three linear operators (itself checked on seeded stacks against the basis matrices); grids stand for the continuous "
    "parameters (shifts on a 1/4-pixel grid, five thicknesses, two tilts, two energies). Tolerance 1e-5 for the linear-operator identities (phase ramps and propagators are built in "
    "complex64 even for complex128 input; worst observed 4e-7), 3e-5 for the complex64 forward chain (observed 8e-7), 2e-5 for the projection (4e-7). Negative slice thicknesses are rejected by the public setters, so the "
    "inverse-distance identity uses the internal seam ProbeBase._compute_propagator_arrays when present. Overlap arrays whose Fourier transform "
    "vanishes somewhere (zero, constant, hard-aperture waves) are in the projection alphabet for one mode and outside it for mixed states (no mode direction is defined there). In the lattice parts the closed-form Fresnel "
    "kernel is compared for information only (stat max_fresnel_kernel_dev): the property states group identities, not kernel values; in the call-history part it is judged (1e-4) because it is the "
    "only witness of a propagator built with another model's sampling. Call histories are bounded at two (thorough: three) calls of a 27-call alphabet; module state is reset by restoring the "
    "containers and lru_caches found by introspection, so state kept elsewhere (closures, C extensions) is not reset."
)
RULE = (
    "Cartesian product of the alphabets named in coverage.alphabet. A shift point is non-trivial when the shift is not zero, a pair when both are; a "
    "propagation point when the distance is not zero; an adjoint point when the index set has wrap-around or repeated indices or more than one patch (size-corner points: patch count x object axis lengths {1,2,n-1,n,n+1,2n+1} per axis x origin sets, non-trivial by the same rule); a "
    "forward point always (object and probe are seeded, never uniform); a projection point when the measured amplitudes differ from the current ones; a call history when it has more than one call; a spelling when the library accepts it. "
    "distinct = distinct point descriptors."
)

ROIS = [(6, 6), (7, 10), (8, 5), (9, 9)]
ROIS_EXTRA = [(5, 8), (10, 10)]  # thorough tier, for everything but the (cubic-cost) shift-pair lattice
THICK = [0.5, -0.5, 3.0, -3.0, 20.0]
TILTS = [(0.0, 0.0), (3.0, -2.0)]
ENERGIES = [80e3, 300e3]
SAMPLING = (0.3, 0.25)
# Tolerances. The linear-operator identities are judged at 1e-5 (absolute on matrices whose entries are O(1), relative to the input
# scale elsewhere); the two float32 end-to-end statements get 3e-5 / 2e-5.  Worst observed on the current tree over seeds
# {0,1,2,7,12345}, both tiers:
#   shift: unitary 6.8e-8, additive 4.1e-7, roll 2.9e-7, complex64 stacks vs basis 2.2e-7          -> TOL      = 1e-5 (>= 24x)
#   propagation: |K|-1 1.4e-7, unitary 9.9e-8, additive 2.1e-7, inverse 4.5e-8                     -> TOL
#   adjoint: matrices exact (0), complex128 inner products 2.1e-15                                  -> exact / 1e-10
#   pure-phase intensity conservation (whole chain in complex64, up to 4 slices): 7.7e-7            -> TOL_FWD  = 3e-5 (39x)
#   projection: amplitude 3.8e-7, idempotence 3.0e-7 (complex64)                                    -> TOL_PROJ = 2e-5 (52x)
# Smallest mutant effect: 2.45e-3 (propagator damped by 1e-3 of its phase) = 245x TOL; projection and forward-chain mutants >= 0.4.
TOL = 1e-5
TOL_FWD = 3e-5
TOL_PROJ = 2e-5
# Weak exit waves, mixed state: the library regularises every Fourier coefficient with eps = 1e-9 (sqrt(sum |F + eps|^2)), i.e. a relative
# perturbation eps/|F| that grows as the signal shrinks. Measured on the unchanged tree (seeds {0,1,2,7,12345}, 4 ROI shapes, 6 stacks each,
# error relative to the signal scale): scale 1e-2: 9.3e-7, 1e-3: 7.8e-6, 1e-4: 7.7e-5 (= 7.7e-9/scale); single mode (no eps): 3.7e-7 at
# every scale. Tolerance for M >= 2: max(TOL_PROJ, 2e-7/scale) = 2e-5, 2e-4, 2e-3 -> margin 21x, 26x, 26x. An amplitude FLOOR of
# sqrt(1e-9) = 3.2e-5 instead of the per-coefficient eps gives 2-6e-2 at 1e-3 and > 0.5 at 1e-4 (>= 100x the tolerance).
WEAK_SCALES = [1e-2, 1e-3, 1e-4]


def proj_tol(M, scale):
    return TOL_PROJ if M == 1 else max(TOL_PROJ, 2e-7 / scale)

def all_shifts(quick=True):
    """quick: every integer pair in [-3,3]^2 and the 1/4-pixel grid in [-1,1]^2 (121 vectors, the DESIGN alphabet);
    thorough: integer pairs in [-4,4]^2 and a 1/8-pixel grid in [-1,1]^2 (361 vectors). Simplest first."""
    n, d = (3, 4) if quick else (4, 8)
    ints = [(float(a), float(b)) for a in range(-n, n + 1) for b in range(-n, n + 1)]
    g = [k / float(d) for k in range(-d, d + 1)]
    return sorted(set(ints) | {(a, b) for a in g for b in g}, key=lambda v: (abs(v[0]) + abs(v[1]), v))


def partner_shifts(quick=True):
    """Second shift of an additivity pair. quick: the half-pixel grid in [-1,1]^2 plus six quarter-pixel / larger integer vectors
    (31 partners for each of the 121 first shifts); thorough: every vector of the quick shift alphabet (121 partners for each of
    the 361 first shifts, which contains all ordered pairs of the DESIGN alphabet)."""
    if not quick:
        return all_shifts(True)
    h = [-1.0, -0.5, 0.0, 0.5, 1.0]
    return [(a, b) for a in h for b in h] + [(0.25, -0.75), (-0.25, 0.25), (0.75, 0.25), (2.0, -3.0), (-3.0, 1.0), (3.0, 3.0)]


def _torch():
    import torch

    return torch


class LibraryRaised(Exception):
    """quantem raised on a valid lattice point: that is an observation about the operator, not a crash of the checker."""

    def __init__(self, stage, exc):
        super().__init__(f"{stage}: {type(exc).__name__}: {exc}")
        self.stage, self.name, self.text = stage, type(exc).__name__, str(exc)[:300]


class library:
    """`with library("stage"):` around calls into quantem turns an exception raised there into LibraryRaised."""

    def __init__(self, stage):
        self.stage = stage

    def __enter__(self):
        return self

    def __exit__(self, et, ev, tb):
        if et is not None and issubclass(et, Exception) and not issubclass(et, (LibraryRaised, Broken)):
            raise LibraryRaised(self.stage, ev) from ev
        return False


def guarded(fn):
    @functools.wraps(fn)
    def wrapper(item, **kw):
        try:
            return fn(item, **kw)
        except LibraryRaised as e:
            t = Tally()
            case = {"kind": "raises", "worker": fn.__name__, "item": item, "kw": {k: v for k, v in kw.items() if k != "seed"}}
            t.case(key=case, nontrivial=True, outcome=["raised", e.stage, e.name])
            t.fail({"relation": "library_raises", "stage": e.stage, "exception": e.name}, case, f"{fn.__name__}{tuple(item)}: {e.stage} raised {e.name}: {e.text}")
            return t

    return wrapper


# ----------------------------------------------------------------------------- A. Fourier translation
def shift_apply(impl, arr, pos, pos_dtype="float64", expand_dim=True):
    """Call the real fourier_shift_expand. arr: ndarray (...,R,C); pos: (B,2) list. Returns ndarray."""
    from quantem.diffractive_imaging.ptycho_utils import fourier_shift_expand

    with library("fourier_shift_expand"):
        if impl == "torch":
            torch = _torch()
            out = fourier_shift_expand(torch.tensor(arr), torch.tensor(np.asarray(pos, float), dtype=getattr(torch, pos_dtype)), expand_dim)
            return out.numpy()
        return np.asarray(fourier_shift_expand(np.asarray(arr), np.asarray(pos, dtype=pos_dtype), expand_dim))


def shift_matrix(impl, roi, s, pos_dtype, cache=None):
    key = (round(s[0] * 8), round(s[1] * 8))
    if cache is not None and key in cache:
        return cache[key]
    R, C = roi
    N = R * C
    E = np.eye(N, dtype=np.complex128).reshape(N, R, C)
    out = shift_apply(impl, E, [list(s)], pos_dtype)  # (1, N, R, C)
    U = np.ascontiguousarray(out[0].reshape(N, N).T)  # U[:, k] = vec(shift(e_k))
    if cache is not None:
        cache[key] = U
    return U


def roll_matrix(roi, s):
    R, C = roi
    N = R * C
    E = np.eye(N).reshape(N, R, C)
    return np.roll(E, (int(s[0]), int(s[1])), axis=(1, 2)).reshape(N, N).T


def judge_shift(t, roi, impl, pos_dtype, a, partners, seed, cache=None):
    R, C = roi
    N = R * C
    Ua = shift_matrix(impl, roi, a, pos_dtype, cache)
    base = {"kind": "shift", "roi": list(roi), "impl": impl, "pos_dtype": pos_dtype, "a": list(a)}
    cls0 = {"impl": impl, "square": R == C}
    integer = float(a[0]).is_integer() and float(a[1]).is_integer()
    nz = a != (0.0, 0.0)
    t.case(key=base, nontrivial=nz, outcome=[list(roi), list(a), round(float(np.abs(Ua).max()), 5)])
    where = f"fourier_shift_expand[{impl},{pos_dtype}] roi={roi} shift={a}"
    if Ua.shape != (N, N) or not np.isfinite(Ua).all():
        t.fail({"relation": "shift_output_shape_finite", **cls0}, base, f"{where}: output shape/finite check failed")
        return
    e = float(np.abs(Ua.conj().T @ Ua - np.eye(N)).max())
    t.stat("shift_unitary_dev", e)
    if e > TOL:
        k = int(np.argmax(np.abs(np.sum(np.abs(Ua) ** 2, axis=0) - 1)))
        t.fail({"relation": "shift_preserves_intensity", **cls0, "integer": integer}, base, f"{where}: U^H U differs from I by {e:.3g} on the full delta basis (e.g. ||shift(e_{k})||^2 = {float(np.sum(np.abs(Ua[:, k]) ** 2)):.6g})")
    if integer:
        e = float(np.abs(Ua - roll_matrix(roi, a)).max())
        t.stat("shift_roll_dev", e)
        if e > TOL:
            t.fail({"relation": "integer_shift_is_roll", **cls0}, base, f"{where}: differs from np.roll by {e:.3g} on the delta basis")
    for b in partners:
        Ub = shift_matrix(impl, roi, b, pos_dtype, cache)
        ab = (a[0] + b[0], a[1] + b[1])
        Uab = shift_matrix(impl, roi, ab, pos_dtype, cache)
        case = dict(base, b=list(b))
        t.case(key=case, nontrivial=nz and b != (0.0, 0.0))
        e = float(np.abs(Ua @ Ub - Uab).max())
        t.stat("shift_additive_dev", e)
        if e > TOL:
            t.fail({"relation": "shift_additive", **cls0}, case, f"{where}: shift(a) o shift(b) differs from shift(a+b) by {e:.3g} for b={b}")


def judge_shift_stack(t, roi, impl, pos_dtype, dtype, seed):
    """Seeded stacks: batching over positions, mode stacks, expand_dim=False; all against the basis matrices."""
    R, C = roi
    N = R * C
    rng = np.random.default_rng([seed, 16, 1, R, C])
    M = 3
    x = (rng.normal(size=(M, R, C)) + 1j * rng.normal(size=(M, R, C))).astype(dtype)
    pos = [(0.0, 0.0), (1.0, -2.0), (0.25, 0.75), (-0.5, 0.5), (2.75, -1.25)]
    case = {"kind": "shift_stack", "roi": list(roi), "impl": impl, "pos_dtype": pos_dtype, "dtype": dtype}
    t.case(key=case, nontrivial=True)
    out = shift_apply(impl, x, [list(p) for p in pos], pos_dtype)  # (B, M, R, C)
    scale = float(np.abs(x).max())
    tol = TOL  # complex64 FFT round-off observed 2.2e-7 of the input maximum
    worst = 0.0
    for bi, p in enumerate(pos):
        U = shift_matrix(impl, roi, p, pos_dtype)
        for m in range(M):
            ref = (U @ x[m].astype(np.complex128).reshape(N)).reshape(R, C)
            worst = max(worst, float(np.abs(out[bi, m] - ref).max()) / scale)
    t.stat("shift_stack_vs_basis_dev_" + dtype, worst)
    if out.shape != (len(pos), M, R, C) or worst > tol:
        t.fail({"relation": "shift_stack_matches_basis_operator", "impl": impl, "dtype": dtype}, case, f"fourier_shift_expand[{impl}] roi={roi} {dtype}: batched stack differs from the basis operator by {worst:.3g}")
    en = np.sum(np.abs(out.astype(np.complex128)) ** 2, axis=(1, 2, 3)) / np.sum(np.abs(x.astype(np.complex128)) ** 2)
    e = float(np.abs(en - 1).max())
    t.stat("shift_stack_energy_dev", e)
    if e > tol:
        t.fail({"relation": "shift_preserves_intensity", "impl": impl, "square": R == C, "integer": False}, case, f"fourier_shift_expand[{impl}] roi={roi} {dtype}: total intensity ratio deviates by {e:.3g} over positions {pos}")
    # one shift per mode (expand_dim=False)
    out2 = shift_apply(impl, x, [list(p) for p in pos[1 : M + 1]], pos_dtype, expand_dim=False)
    worst = 0.0
    for m in range(M):
        U = shift_matrix(impl, roi, pos[1 + m], pos_dtype)
        worst = max(worst, float(np.abs(out2[m] - (U @ x[m].astype(np.complex128).reshape(N)).reshape(R, C)).max()) / scale)
    if out2.shape != x.shape or worst > tol:
        t.fail({"relation": "shift_per_mode_matches_basis_operator", "impl": impl}, case, f"fourier_shift_expand[{impl}] roi={roi} expand_dim=False: differs from the basis operator by {worst:.3g}")
    # real-valued input is outside the quantifier ("for all complex arrays"; every library caller passes complex probes): only observed.
    # On the current tree the phase ramp is cast to the real dtype of the array, so a real input is not translated correctly.
    xr = rng.normal(size=(R, C))
    o3 = shift_apply(impl, xr, [[2.0, -3.0]], pos_dtype)
    if float(np.abs(o3[0] - np.roll(xr, (2, -3), axis=(0, 1))).max()) > TOL * max(1.0, float(np.abs(xr).max())):
        t.extra["observed_real_input_integer_shift_is_not_a_roll"] += 1


@guarded
def w_shift(item, seed=0, quick=True):
    roi, impl, pos_dtype, ai = item
    roi = tuple(roi)
    t = Tally()
    S = all_shifts(quick)
    partners = partner_shifts(quick)
    cache = {}
    judge_shift(t, roi, impl, pos_dtype, S[ai], partners, seed, cache)
    if ai == 0:
        for dtype in ("complex128", "complex64"):
            judge_shift_stack(t, roi, impl, pos_dtype, dtype, seed)
        t.sample({"kind": "shift", "roi": list(roi), "impl": impl, "basis_vectors": roi[0] * roi[1], "shifts": len(S), "partners_per_shift": len(partners)}, cap=1)
    return t


# ----------------------------------------------------------------------------- B. gather / scatter adjoint
def fft_order(n):
    return np.fft.fftfreq(n, 1.0 / n).round().astype(int)


def raster_indices(objshape, roi, origins):
    H, W = objshape
    o = np.asarray(origins, int)
    rows = (o[:, 0][:, None] + fft_order(roi[0])[None]) % H
    cols = (o[:, 1][:, None] + fft_order(roi[1])[None]) % W
    return (rows[:, :, None] * W + cols[:, None, :]).astype(np.int64)


def geometries(roi):
    R, C = roi
    big = (R + 4, C + 3)
    return {
        "single_interior": (big, [(R // 2 + 1, C // 2 + 1)]),
        "raster_interior": (big, [(R // 2 + i, C // 2 + j) for i in (0, 2) for j in (0, 2)]),
        "raster_wrap": (big, [(0, 0), (0, C // 2 + 1), (big[0] - 1, big[1] - 1), (R // 2, big[1] - 2)]),
        "repeated_patch": (big, [(R // 2, C // 2), (R // 2, C // 2), (R // 2 + 1, C // 2)]),
        "tight_object": ((R, C), [(0, 0), (1, 2), (R - 1, C - 1)]),
        "object_smaller_than_roi": ((R - 2, C - 1), [(0, 0), (1, 1)]),
    }


def gather_matrix(idx, objshape, seed):
    """Patch extraction on the full delta basis through the public ObjectPixelated.forward: slice k of the object is e_k."""
    torch = _torch()
    from quantem.diffractive_imaging.object_models import ObjectPixelated

    H, W = objshape
    N = H * W
    E = np.eye(N, dtype=np.complex64).reshape(N, H, W)
    with library("ObjectPixelated.forward"), torch.no_grad():
        om = ObjectPixelated.from_array(E, slice_thicknesses=1.0, obj_type="complex", rng=int(seed) + 5)
        om.reset()
        G = om.forward(torch.tensor(idx, dtype=torch.int32))  # (N, J, R, C)
    P = int(np.prod(idx.shape))
    return G.numpy().reshape(N, P).T  # (P, N)


def scatter_matrix(idx, objshape, dtype):
    torch = _torch()
    from quantem.diffractive_imaging.ptycho_utils import sum_patches

    H, W = objshape
    N = H * W
    P = int(np.prod(idx.shape))
    ti = torch.tensor(idx, dtype=torch.int32)
    S = np.zeros((N, P), dtype=np.complex128)
    coef = (1.0 + 2.0j) if dtype == "complex128" else 1.0
    for p in range(P):
        y = torch.zeros(P, dtype=getattr(torch, dtype))
        y[p] = coef
        with library("sum_patches"):
            S[:, p] = sum_patches(y.reshape(idx.shape), ti, (H, W)).numpy().reshape(N) / coef
    return S


def judge_adjoint(t, roi, gname, idx, objshape, seed):
    H, W = objshape
    N = H * W
    P = int(np.prod(idx.shape))
    flat = idx.reshape(-1)
    repeats = bool(len(np.unique(flat)) < len(flat))
    case = {"kind": "adjoint", "roi": list(roi), "geometry": gname, "objshape": list(objshape)}
    t.case(key=case, nontrivial=repeats or idx.shape[0] > 1, outcome=[gname, list(objshape), int(len(np.unique(flat)))])
    cls = {"repeated_indices": repeats}
    want = np.zeros((P, N))
    want[np.arange(P), flat] = 1.0  # the indicator matrix of the index set
    G = gather_matrix(idx, objshape, seed)
    where = f"roi={roi} geometry={gname} object={objshape} patches={idx.shape[0]}"
    if not np.array_equal(G, want.astype(G.dtype)):
        t.fail({"relation": "patch_extraction_is_indexing", **cls}, case, f"{where}: ObjectPixelated.forward on the delta basis differs from plain indexing in {int((G != want).sum())} entries")
    for dtype in ("complex128", "float64"):
        S = scatter_matrix(idx, objshape, dtype)
        d = np.abs(S - G.T.conj())
        t.stat("adjoint_matrix_dev", float(d.max()))
        if float(d.max()) > 1e-12:
            k, p = np.unravel_index(int(np.argmax(d)), d.shape)
            t.fail({"relation": "sum_patches_is_adjoint_of_extraction", **cls, "dtype": dtype}, case, f"{where} {dtype}: sum_patches matrix differs from the transpose of the extraction matrix, e.g. object pixel {int(k)} <- patch entry {int(p)}: {S[k, p]:.3g} vs {G[p, k]:.3g} ({int((d > 1e-12).sum())} entries)")
    # seeded complex128 multi-slice stacks through the internal extraction helper, if it is there
    torch = _torch()
    from quantem.diffractive_imaging.object_models import ObjectPixelated
    from quantem.diffractive_imaging.ptycho_utils import sum_patches

    om = ObjectPixelated.from_uniform(num_slices=2, slice_thicknesses=1.0, obj_type="complex", rng=int(seed) + 6)
    fn = getattr(om, "_get_obj_patches", None)
    if fn is None:
        t.extra["seam_missing__get_obj_patches"] += 1
        return
    rng = np.random.default_rng([seed, 16, 2, H, W, P])
    x = torch.tensor(rng.normal(size=(2, H, W)) + 1j * rng.normal(size=(2, H, W)))
    y = torch.tensor(rng.normal(size=(2, *idx.shape)) + 1j * rng.normal(size=(2, *idx.shape)))
    ti = torch.tensor(idx, dtype=torch.int32)
    with library("_get_obj_patches/sum_patches"):
        g = fn(x, ti)
        lhs = complex((g.conj() * y).sum())
        rhs = complex(sum((x[s].conj() * sum_patches(y[s], ti, (H, W))).sum() for s in range(2)))
    e = abs(lhs - rhs) / max(abs(lhs), 1e-30)
    t.stat("adjoint_inner_product_rel_dev", e)
    if e > 1e-10:
        t.fail({"relation": "adjoint_inner_product", **cls}, case, f"{where}: <gather(x), y> = {lhs:.8g} but <x, sum_patches(y)> = {rhs:.8g}")


@guarded
def w_adjoint(item, seed=0):
    roi, gname = item
    roi = tuple(roi)
    t = Tally()
    if gname == "library_raster":
        pt = build(roi, 1, 1, "complex", 80e3, (0.0, 0.0), seed)
        with library("patch_indices"):
            idx = pt.dset.patch_indices.detach().numpy().astype(np.int64)
            objshape = tuple(int(v) for v in pt.obj_model.shape[-2:])
    else:
        objshape, origins = geometries(roi)[gname]
        idx = raster_indices(objshape, roi, origins)
    judge_adjoint(t, roi, gname, idx, objshape, seed)
    t.sample({"kind": "adjoint", "roi": list(roi), "geometry": gname, "objshape": list(objshape), "object_basis": objshape[0] * objshape[1], "patch_basis": int(np.prod(idx.shape))}, cap=2)
    return t


# ----------------------------------------------------------------------------- B2. gather / scatter at sizes around block boundaries
# A size threshold inside the scatter (blocked index_add, int32 offsets, ...) is invisible to small index sets, so the SIZE of the index
# set is a lattice dimension of its own: total patch-pixel counts just below, exactly at and just above 2**12, 2**14, 2**16 and 2**17,
# as flat index vectors (2**k - 1, 2**k, 2**k + 1: a single dropped pixel is visible) and as raster sets of large patches with
# wrap-around and repeated patches. No delta basis here (the small geometries above have it): exact hit counts + inner products.
def large_specs():
    specs = []
    for k in (12, 14, 16, 17):
        for d in (-1, 0, 1):
            specs.append({"name": f"flat_2^{k}{d:+d}", "flat": 2**k + d, "objshape": [64, 61]})
    for J, R, C in [(1, 64, 64), (1, 63, 65), (1, 64, 65), (4, 64, 64), (4, 64, 63), (5, 64, 64), (3, 73, 75), (15, 64, 68), (16, 64, 64), (16, 64, 65), (17, 64, 64), (21, 64, 64), (40, 48, 50), (5, 128, 128), (8, 128, 128), (9, 128, 128), (33, 64, 64)]:
        specs.append({"name": f"raster_{J}x{R}x{C}", "patches": J, "roi": [R, C], "objshape": [R + 6, C + 9]})
    return specs


def large_indices(spec):
    H, W = spec["objshape"]
    N = H * W
    if "flat" in spec:
        p = np.arange(spec["flat"], dtype=np.int64)
        return ((p * 7 + p // N + (p % 5) * 11) % N).reshape(-1)  # every object pixel hit several times, unevenly
    J, (R, C) = spec["patches"], spec["roi"]
    # origins walk over the whole object incl. its edges (wrap-around); every fourth patch repeats its predecessor
    origins = [((3 * (j - (j % 4 == 3))) * 5 % H, (7 * (j - (j % 4 == 3))) * 3 % W) for j in range(J)]
    return raster_indices((H, W), (R, C), origins)


def judge_adjoint_large(t, spec, seed):
    torch = _torch()
    from quantem.diffractive_imaging.object_models import ObjectPixelated
    from quantem.diffractive_imaging.ptycho_utils import sum_patches

    H, W = spec["objshape"]
    N = H * W
    idx = large_indices(spec)
    P = int(idx.size)
    case = {"kind": "adjoint_large", "spec": spec}
    where = f"index set {spec['name']} ({P} patch pixels = 2^{math.log2(P):.3f}) on object {H}x{W}"
    hist = np.bincount(idx.reshape(-1), minlength=N).reshape(H, W)
    t.case(key=case, nontrivial=True, outcome=[spec["name"], P, int(hist.max())])
    cls = {"patch_pixels_above_2^16": P > 2**16, "patch_pixels_above_2^12": P > 2**12}
    ti = torch.tensor(idx, dtype=torch.int32)
    for dtype, coef in (("float64", 1.0), ("float32", 1.0), ("complex128", 1.0 + 2.0j), ("complex64", 1.0 - 0.5j)):
        with library("sum_patches"):
            got = sum_patches(torch.full(idx.shape, coef, dtype=getattr(torch, dtype)), ti, (H, W)).numpy()
        d = np.abs(got - coef * hist)
        if got.shape != (H, W) or float(d.max()) != 0.0:  # small integers times an exactly representable coefficient: exact in every dtype
            k = np.unravel_index(int(np.argmax(d)), d.shape)
            t.fail({"relation": "sum_patches_hit_count", "dtype": dtype, **cls}, case, f"{where} {dtype}: sum_patches(const) differs from the histogram of the indices in {int((d > 0).sum())} object pixels (total {abs(got.sum() / coef):.0f} of {P} patch pixels scattered; pixel {tuple(int(v) for v in k)}: {got[k]} vs {coef * hist[k]})")
    rng = np.random.default_rng([seed, 16, 6, P, H, W])
    x = torch.tensor(rng.normal(size=(2, H, W)) + 1j * rng.normal(size=(2, H, W)))
    y = torch.tensor(rng.normal(size=(2, *idx.shape)) + 1j * rng.normal(size=(2, *idx.shape)))
    om = ObjectPixelated.from_uniform(num_slices=2, slice_thicknesses=1.0, obj_type="complex", rng=int(seed) + 7)
    fn = getattr(om, "_get_obj_patches", None)
    with library("_get_obj_patches/sum_patches"):
        if fn is not None:
            g = fn(x, ti)
        else:  # extraction is plain indexing (relation patch_extraction_is_indexing, decided on the full basis above)
            t.extra["seam_missing__get_obj_patches"] += 1
            g = x.reshape(2, -1)[:, torch.tensor(idx)]
        lhs = complex((g.conj() * y).sum())
        rhs = complex(sum((x[s].conj() * sum_patches(y[s], ti, (H, W))).sum() for s in range(2)))
    e = abs(lhs - rhs) / max(abs(lhs), 1e-30)
    t.stat("adjoint_large_inner_product_rel_dev", e)
    if e > 1e-10:
        t.fail({"relation": "adjoint_inner_product", "repeated_indices": True, **cls}, case, f"{where}: <gather(x), y> = {lhs:.10g} but <x, sum_patches(y)> = {rhs:.10g} (relative difference {e:.3g})")


@guarded
def w_adjoint_large(item, seed=0):
    t = Tally()
    judge_adjoint_large(t, item, seed)
    t.sample({"kind": "adjoint_large", "spec": item, "patch_pixels": int(large_indices(item).size)}, cap=2)
    return t


# ----------------------------------------------------------------------------- B3. gather / scatter at the size CORNERS of the index set
# A special case for "just one patch" (or for an object axis shorter than the ROI) is invisible unless the SIZE corners are crossed with
# each other: the number of patches in {1 as a 2-D index array, 1 as a 3-D array with a leading 1 (what a batch of one / a remainder
# batch of one hands over), 2, 3} x object axis lengths {1, 2, n-1, n, n+1, 2n+1} for ROI length n, on EACH axis separately (shorter
# axis: the patch wraps onto itself and one patch has repeated indices) x patch origins {(0,0), (1,2), (H-1,W-1)} (sets of two: two
# different origins / the same origin twice) x real and complex patches x every entry point that scatters patches back (sum_patches,
# sum_patches_base, and the analytic object gradient ObjectPixelated.backward). Oracles: the full delta basis (scatter matrix == transpose of
# the extraction matrix, exact), exact hit counts and conservation of total weight for constant float32/complex64 patches, an independent
# np.add.at reference and the inner-product identity on seeded complex128 data.
CORNER_ROIS = [(4, 4), (3, 5)]
CORNER_ROIS_EXTRA = [(5, 4), (2, 7)]  # thorough tier
CORNER_PATCH_KINDS = ["1_as_2d_array", "1_as_3d_array", "2", "3"]
CORNER_ENTRIES = ["sum_patches", "sum_patches_base", "ObjectPixelated.backward"]


def corner_axis_lengths(n):
    return sorted({1, 2, max(1, n - 1), n, n + 1, 2 * n + 1})


def corner_objects(roi):
    return [(h, w) for h in corner_axis_lengths(roi[0]) for w in corner_axis_lengths(roi[1])]


def corner_index_sets(objshape):
    """[(patch kind, origins)] — the same list for every object, origins reduced modulo the object by raster_indices."""
    H, W = objshape
    o = [(0, 0), (1, 2), (H - 1, W - 1)]
    sets = [(kind, [list(p)]) for kind in CORNER_PATCH_KINDS[:2] for p in o]
    sets += [("2", [list(o[0]), list(o[1])]), ("2", [list(o[2]), list(o[2])]), ("3", [list(p) for p in o])]
    return sets


def corner_indices(roi, objshape, kind, origins):
    idx = raster_indices(tuple(objshape), tuple(roi), [tuple(p) for p in origins])
    if kind == "1_as_2d_array":
        idx = idx[0]
    want_shape = {"1_as_2d_array": tuple(roi), "1_as_3d_array": (1, *roi), "2": (2, *roi), "3": (3, *roi)}[kind]
    if tuple(idx.shape) != tuple(want_shape):
        raise Broken(f"corner index set built with shape {idx.shape}, wanted {want_shape}")
    return idx


def judge_adjoint_corner(t, roi, objshape, kind, origins, seed, om=None):
    torch = _torch()
    import quantem.diffractive_imaging.ptycho_utils as pu
    from quantem.diffractive_imaging.object_models import ObjectPixelated

    roi, objshape = tuple(roi), tuple(objshape)
    H, W = objshape
    N = H * W
    idx = corner_indices(roi, objshape, kind, origins)
    P = int(idx.size)
    flat = idx.reshape(-1)
    hist = np.bincount(flat, minlength=N)
    repeats = bool(hist.max() > 1)
    self_overlap = bool(H < roi[0] or W < roi[1])
    case = {"kind": "adjoint_corner", "roi": list(roi), "objshape": list(objshape), "patches": kind, "origins": [list(p) for p in origins]}
    t.case(key=case, nontrivial=repeats or kind in ("2", "3"), outcome=[list(roi), list(objshape), kind, int(hist.max()), int((hist > 0).sum())])
    t.extra["corner_sets_single_patch_with_repeated_indices"] += int(repeats and kind.startswith("1"))
    cls = {"repeated_indices": repeats, "single_patch": kind.startswith("1"), "object_axis_shorter_than_roi": self_overlap}
    where = f"roi={roi} object={objshape} patches={kind} (index array {tuple(idx.shape)}) origins={[tuple(p) for p in origins]} max hits per object pixel={int(hist.max())}"
    ti = torch.tensor(idx, dtype=torch.int32)
    want = np.zeros((P, N))
    want[np.arange(P), flat] = 1.0
    # extraction on the full delta basis through the public ObjectPixelated.forward
    with library("ObjectPixelated.forward"), torch.no_grad():
        if om is None:
            om = ObjectPixelated.from_array(np.eye(N, dtype=np.complex64).reshape(N, H, W), slice_thicknesses=1.0, obj_type="complex", rng=int(seed) + 5)
            om.reset()
        G = om.forward(ti).numpy().reshape(N, P).T
    if not np.array_equal(G, want.astype(G.dtype)):
        t.fail({"relation": "patch_extraction_is_indexing", **cls}, case, f"{where}: ObjectPixelated.forward on the delta basis differs from plain indexing in {int((G != want).sum())} entries")
    rng = np.random.default_rng([seed, 16, 9, H, W, P, idx.ndim])
    x = rng.normal(size=N) + 1j * rng.normal(size=N)
    y = rng.normal(size=idx.shape) + 1j * rng.normal(size=idx.shape)
    for ename in CORNER_ENTRIES[:2]:
        fn = getattr(pu, ename, None)
        if fn is None:
            t.extra["seam_missing_" + ename] += 1
            continue
        ecls = dict(cls, entry=ename)
        for dtype, coef in (("float64", 1.0), ("complex128", 1.0 + 2.0j)):
            S = np.zeros((N, P), dtype=np.complex128)
            for p in range(P):
                d = torch.zeros(P, dtype=getattr(torch, dtype))
                d[p] = coef
                with library(ename):
                    S[:, p] = fn(d.reshape(idx.shape), ti, (H, W)).numpy().reshape(N) / coef
            d = np.abs(S - want.T)
            if float(d.max()) > 1e-12:
                k, p = np.unravel_index(int(np.argmax(d)), d.shape)
                lost = [int(q) for q in np.nonzero(np.abs(S.sum(axis=0) - 1) > 1e-12)[0][:6]]
                t.fail({"relation": "sum_patches_is_adjoint_of_extraction", **ecls, "dtype": dtype}, case, f"{where} {dtype}: the matrix of {ename} on the delta basis differs from the transpose of the extraction matrix in {int((d > 1e-12).sum())} entries, e.g. object pixel {int(k)} <- patch entry {int(p)}: {S[k, p]:.3g} vs {want[p, k]:.3g}; patch entries whose weight is not conserved: {lost}")
        # constant patches: exact hit counts and conservation of the total weight, single precision
        for dtype, coef in (("float32", 1.0), ("complex64", 1.0 - 0.5j)):
            with library(ename):
                got = fn(torch.full(idx.shape, coef, dtype=getattr(torch, dtype)), ti, (H, W)).numpy()
            if got.shape != (H, W) or not np.array_equal(got.reshape(-1), (coef * hist).astype(got.dtype)):
                t.fail({"relation": "sum_patches_hit_count", **ecls, "dtype": dtype}, case, f"{where} {dtype}: {ename}(const) differs from the histogram of the indices; total weight {abs(complex(got.sum()) / coef):.6g} of {P} patch pixels scattered")
        # seeded complex128 data: independent np.add.at reference and the inner-product identity
        ref = np.zeros(N, dtype=np.complex128)
        np.add.at(ref, flat, y.reshape(-1))
        with library(ename):
            got = fn(torch.tensor(y), ti, (H, W)).numpy().reshape(-1)
        e = float(np.abs(got - ref).max()) / float(np.abs(y).max())
        t.stat("corner_scatter_vs_numpy_add_at_dev", e)
        lhs, rhs = complex(np.vdot(x[flat], y.reshape(-1))), complex(np.vdot(x, got))
        e2 = abs(lhs - rhs) / max(abs(lhs), 1e-30)
        if e > 1e-12 or e2 > 1e-10:  # worst observed on the unchanged tree 0 / 4e-16; a lost contribution is O(1)
            t.fail({"relation": "adjoint_inner_product", **ecls}, case, f"{where}: {ename} differs from np.add.at by {e:.3g} of the largest patch value; <gather(x), y> = {lhs:.8g} but <x, {ename}(y)> = {rhs:.8g}; total weight {complex(got.sum()):.8g} vs {complex(y.sum()):.8g}")
    # the analytic object gradient scatters conj(probe) * gradient back into the object grid and divides by ONE number (the largest probe
    # weight per object pixel): with a unit probe the map gradient -> -obj.grad must be a multiple of the adjoint of extraction.
    # Only that proportionality is demanded (the normalisation is C07's subject, here it is counted).
    bw = getattr(ObjectPixelated, "backward", None)
    if bw is None:
        t.extra["seam_missing_ObjectPixelated.backward"] += 1
        return
    g = y.astype(np.complex64)
    ref = np.zeros(N, dtype=np.complex128)
    np.add.at(ref, flat, g.astype(np.complex128).reshape(-1))
    with library("ObjectPixelated.backward"):
        om1 = ObjectPixelated.from_array(np.ones((1, H, W), dtype=np.complex64), obj_type="complex", rng=int(seed) + 8)
        om1.reset()
        ones = torch.ones((1, *idx.shape), dtype=torch.complex64)
        om1.backward(torch.tensor(g)[None].clone(), ones, ones[None], None, ti)
        got = -om1._obj.grad.detach().numpy().astype(np.complex128).reshape(-1)
    c = complex(np.vdot(ref, got) / max(float(np.vdot(ref, ref).real), 1e-30))
    e = float(np.abs(got - c * ref).max()) / max(float(np.abs(got).max()), 1e-30)
    t.stat("corner_backward_proportionality_dev", e)
    if abs(c * hist.max() - 1) > 1e-4:
        t.extra["observed_backward_normalisation_is_not_the_largest_hit_count"] += 1
    if not np.isfinite(got).all() or abs(c) < 1e-6 or e > TOL:  # complex64: worst observed 2.5e-7 over seeds {0,1,2,7}, all four ROIs; a lost contribution is >= 0.05
        t.fail({"relation": "object_gradient_is_adjoint_of_extraction", **cls, "entry": "ObjectPixelated.backward"}, case, f"{where}: -obj.grad of ObjectPixelated.backward (unit probe) is not a multiple of the scatter-add of the gradient patches: best multiple {c:.5g}, residual {e:.3g} of the largest entry")


@guarded
def w_adjoint_corner(item, seed=0):
    torch = _torch()
    from quantem.diffractive_imaging.object_models import ObjectPixelated

    roi, objshape = tuple(item[0]), tuple(item[1])
    H, W = objshape
    N = H * W
    t = Tally()
    with library("ObjectPixelated.forward"), torch.no_grad():
        om = ObjectPixelated.from_array(np.eye(N, dtype=np.complex64).reshape(N, H, W), slice_thicknesses=1.0, obj_type="complex", rng=int(seed) + 5)
        om.reset()
    for kind, origins in corner_index_sets(objshape):
        judge_adjoint_corner(t, roi, objshape, kind, origins, seed, om)
    t.sample({"kind": "adjoint_corner", "roi": list(roi), "objshape": list(objshape), "index_sets": len(corner_index_sets(objshape))}, cap=2)
    return t


# ----------------------------------------------------------------------------- tiny real reconstruction objects
def wavelength(energy):
    h, m0, e, c = 6.62607015e-34, 9.1093837015e-31, 1.602176634e-19, 299792458.0
    return h / math.sqrt(2 * m0 * e * energy * (1 + e * energy / (2 * m0 * c * c))) * 1e10


def build(roi, S, M, obj_type, energy, tilt, seed, thick=None, scan=(3, 2), sampling=None):
    with library("building a Ptychography instance"):
        return _build(roi, S, M, obj_type, energy, tilt, seed, thick, scan, sampling or SAMPLING)


def _build(roi, S, M, obj_type, energy, tilt, seed, thick=None, scan=(3, 2), SAMPLING=SAMPLING):
    """A tiny real Ptychography instance, everything seeded, public API only."""
    warnings.simplefilter("ignore")
    from quantem.core.datastructures.dataset4dstem import Dataset4dstem
    from quantem.diffractive_imaging.dataset_models import PtychographyDatasetRaster
    from quantem.diffractive_imaging.detector_models import DetectorPixelated
    from quantem.diffractive_imaging.object_models import ObjectPixelated
    from quantem.diffractive_imaging.probe_models import ProbePixelated
    from quantem.diffractive_imaging.ptychography import Ptychography

    R, C = roi
    rng = np.random.default_rng([seed, 16, 3, R, C, S, M])
    dq = (1.0 / (R * SAMPLING[0]), 1.0 / (C * SAMPLING[1]))
    step = (1.3 * SAMPLING[0], 1.7 * SAMPLING[1])
    inten = (rng.random((*scan, R, C)) + 0.1).astype(np.float32)
    ds = Dataset4dstem.from_array(inten, sampling=(step[0], step[1], dq[0], dq[1]), units=("A", "A", "A^-1", "A^-1"))
    pd = PtychographyDatasetRaster.from_dataset4dstem(ds, verbose=0, learn_descan=False, learn_scan_positions=False)
    pd.preprocess(com_fit_function="no_shift", force_com_rotation=0, force_com_transpose=False, plot_rotation=False, plot_com=False, probe_energy=energy)
    if thick is None:
        thick = [0.5, 3.0, 20.0][: S - 1]
    om = ObjectPixelated.from_uniform(num_slices=S, obj_type=obj_type, slice_thicknesses=list(thick) if S > 1 else None, rng=int(seed) + 11)
    prb = (rng.normal(size=(M, R, C)) + 1j * rng.normal(size=(M, R, C))).astype(np.complex64)
    pm = ProbePixelated.from_array(prb, probe_params={"energy": energy}, probe_tilt=tuple(tilt), rng=int(seed) + 12)
    pt = Ptychography.from_models(dset=pd, obj_model=om, probe_model=pm, detector_model=DetectorPixelated(), rng=int(seed) + 13, verbose=0)
    pt.preprocess(obj_padding_px=(4, 4), plot_rotation=False, plot_com=False)
    return pt


# ----------------------------------------------------------------------------- C. propagation
def prop_chain(pt, roi):
    """Apply the propagators currently installed in pt to the full delta basis through the public overlap_projection
    with unit object patches. Returns [U_1, U_2 U_1, U_3 U_2 U_1] as (N,N) matrices."""
    torch = _torch()
    R, C = roi
    N = R * C
    S = pt.num_slices
    x = torch.eye(N, dtype=torch.complex128).reshape(1, N, R, C)
    ones = torch.ones(S, 1, R, C, dtype=torch.complex128)
    with library("overlap_projection"), torch.no_grad():
        pp, _ = pt.overlap_projection(ones, x)
        return [pp[s, 0].numpy().reshape(N, N).T for s in range(1, S)]


def fresnel(roi, energy, tilt, dz, sampling=SAMPLING):
    kr = np.fft.fftfreq(roi[0], sampling[0])[:, None]
    kc = np.fft.fftfreq(roi[1], sampling[1])[None, :]
    lam = wavelength(energy)
    return np.exp(-1j * np.pi * lam * dz * (kr**2 + kc**2)) * np.exp(-2j * np.pi * dz * (kr * math.tan(tilt[0] * 1e-3) + kc * math.tan(tilt[1] * 1e-3)))


@guarded
def w_prop(item, seed=0):
    torch = _torch()
    roi, energy, tilt = item
    roi, tilt = tuple(roi), tuple(tilt)
    R, C = roi
    N = R * C
    I = np.eye(N)
    t = Tally()
    base = {"kind": "prop", "roi": list(roi), "energy": energy, "tilt": list(tilt)}
    cls0 = {"tilted": tilt != (0.0, 0.0), "square": R == C}
    where0 = f"roi={roi} energy={energy:g} eV tilt={tilt} mrad"
    # --- public part: positive distances through the slice_thicknesses / propagators properties
    pos_triples = [(0.5, 3.0), (3.0, 20.0), (0.5, 20.0), (3.0, 3.0), (0.5, 0.5)]
    pt = build(roi, 4, 1, "complex", energy, tilt, seed, thick=[1.0, 1.0, 1.0])
    for a, b in pos_triples:
        case = dict(base, part="public", a=a, b=b)
        t.case(key=case, nontrivial=True)
        with library("compute_propagator_arrays/propagators"):
            pt.slice_thicknesses = [a, b, a + b]
            pt.compute_propagator_arrays()
            K = pt.propagators.detach().numpy().astype(np.complex128)
        where = f"{where0} distances a={a} b={b}"
        if K.shape != (3, R, C) or not np.isfinite(K).all():
            t.fail({"relation": "propagator_shape_finite", **cls0}, case, f"{where}: propagators has shape {K.shape}")
            continue
        e = float(np.abs(np.abs(K) - 1).max())
        t.stat("propagator_modulus_dev", e)
        if e > TOL:
            t.fail({"relation": "propagator_unit_modulus", **cls0}, case, f"{where}: | |propagator| - 1 | = {e:.3g}")
        for i, dz in enumerate((a, b, a + b)):
            t.stat("fresnel_kernel_dev", float(np.abs(K[i] - fresnel(roi, energy, tilt, dz)).max()))
        U = prop_chain(pt, roi)  # U_a, U_b U_a, U_{a+b} U_b U_a
        for name, Um in (("a", U[0]), ("b o a", U[1]), ("(a+b) o b o a", U[2])):
            e = float(np.abs(Um.conj().T @ Um - I).max())
            t.stat("propagation_unitary_dev", e)
            if e > TOL:
                t.fail({"relation": "propagation_preserves_intensity", **cls0}, case, f"{where}: U^H U differs from I by {e:.3g} on the full delta basis for the chain {name}")
        with library("compute_propagator_arrays/propagators"):
            pt.slice_thicknesses = [a + b, a, b]
            pt.compute_propagator_arrays()
        V = prop_chain(pt, roi)  # U_{a+b}, ...
        e = float(np.abs(U[1] - V[0]).max())
        t.stat("propagation_additive_dev", e)
        if e > TOL:
            t.fail({"relation": "propagation_additive", **cls0}, case, f"{where}: prop(b) o prop(a) differs from prop(a+b) by {e:.3g} on the full delta basis")
        # the object model's own propagation helper (used by the analytic gradients), if present
        fn = getattr(pt.obj_model, "_propagate_array", None)
        if fn is not None:
            x = torch.eye(N, dtype=torch.complex128).reshape(N, R, C)
            with library("ObjectBase._propagate_array"):
                W = fn(x, pt.propagators[0]).numpy().reshape(N, N).T
            e = float(np.abs(W - V[0]).max())
            if e > TOL:
                t.fail({"relation": "object_model_propagation_matches", **cls0}, case, f"{where}: ObjectBase._propagate_array differs from the forward-model propagation by {e:.3g}")
    # --- seam part: signed distances (the public setters reject non-positive thicknesses)
    gen = getattr(pt.probe_model, "_compute_propagator_arrays", None)
    if gen is None:
        t.extra["seam_missing__compute_propagator_arrays"] += 1
        return t

    def kern(dz):
        with library("_compute_propagator_arrays"):
            return gen(pt.sampling, 2, np.array([dz]))[0]

    for z1, z2 in itertools.product(THICK, THICK):
        case = dict(base, part="signed", a=z1, b=z2)
        t.case(key=case, nontrivial=True)
        where = f"{where0} distances a={z1} b={z2}"
        K1, K2, K12, Kn = kern(z1), kern(z2), kern(z1 + z2), kern(-z1)
        e = max(float((k.abs() - 1).abs().max()) for k in (K1, K2, K12, Kn))
        t.stat("propagator_modulus_dev", e)
        if e > TOL:
            t.fail({"relation": "propagator_unit_modulus", **cls0}, case, f"{where}: | |propagator| - 1 | = {e:.3g}")
        t.stat("fresnel_kernel_dev", float(np.abs(K1.numpy() - fresnel(roi, energy, tilt, z1)).max()))
        with library("propagators setter"):
            pt.propagators = torch.stack([K1, K2, Kn])  # public setter
        U = prop_chain(pt, roi)  # U_1, U_2 U_1, U_{-1} U_2 U_1
        with library("propagators setter"):
            pt.propagators = torch.stack([K12, K1, Kn])
        V = prop_chain(pt, roi)  # U_12, U_1 U_12, U_{-1} U_1 U_12
        e = float(np.abs(U[0].conj().T @ U[0] - I).max())
        t.stat("propagation_unitary_dev", e)
        if e > TOL:
            t.fail({"relation": "propagation_preserves_intensity", **cls0}, case, f"{where}: U^H U differs from I by {e:.3g} on the full delta basis (distance {z1})")
        e = float(np.abs(U[1] - V[0]).max())
        t.stat("propagation_additive_dev", e)
        if e > TOL:
            t.fail({"relation": "propagation_additive", **cls0}, case, f"{where}: prop(b) o prop(a) differs from prop(a+b) by {e:.3g} on the full delta basis")
        e = float(np.abs(V[2] - V[0]).max())  # prop(-a) o prop(a) o X == X
        t.stat("propagation_inverse_dev", e)
        if e > TOL:
            t.fail({"relation": "propagation_inverse", **cls0}, case, f"{where}: prop(-a) o prop(a) differs from the identity by {e:.3g} on the full delta basis")
    t.sample(dict(base, basis_vectors=N, public_triples=len(pos_triples), signed_pairs=len(THICK) ** 2), cap=1)
    return t


# ----------------------------------------------------------------------------- D. pure-phase intensity conservation
def forward_totals(pt, roi, S, M, obj_type, seed):
    """Seed the raw object parameters and the probe, run the public forward chain, return (sum |probe|^2, max | |obj| - 1 |,
    [(batch indices, per-pattern summed predicted intensity, shape of the prediction)])."""
    torch = _torch()
    rng = np.random.default_rng([seed, 16, 4, roi[0], roi[1], S, M])
    with library("forward chain"), torch.no_grad():
        par = pt.obj_model.params  # raw parameters "wherever the optimiser has driven them"
        shp = tuple(int(v) for v in par.shape)
        if obj_type == "potential":
            raw = torch.tensor(rng.normal(size=shp) * 1.5 + 0.5, dtype=par.dtype)
        else:
            raw = torch.tensor(rng.random(shp) * 3.0 * np.exp(1j * rng.uniform(-np.pi, np.pi, shp)), dtype=par.dtype)
        par.copy_(raw)
        scales = np.array([1.0, 0.4, 2.5])[:M, None, None]
        pt.probe_model.probe = ((rng.normal(size=(M, *roi)) + 1j * rng.normal(size=(M, *roi))) * scales).astype(np.complex64)
        J = int(pt.dset.num_gpts)
        want = float((pt.probe_model.probe.abs() ** 2).sum())
        amp_dev = float((pt.obj_model.obj.abs() - 1).abs().max()) if obj_type != "potential" else 0.0
        out = []
        for idx in (np.arange(J), np.array([J - 1]), np.array([1, 0])):
            pi, _pos, pf, dsc = pt.dset.forward(idx, pt.obj_padding_px)
            sp = pt.probe_model.forward(pf)
            op = pt.obj_model.forward(pi)
            _, ov = pt.forward_operator(op, sp, dsc)
            pred = pt.detector_model.forward(ov)
            out.append((idx, pred.sum(dim=(-2, -1)).numpy().astype(float), tuple(pred.shape)))
    return want, amp_dev, out


@guarded
def w_forward(item, seed=0):
    roi, S, M, obj_type, energy, tilt = item
    roi, tilt = tuple(roi), tuple(tilt)
    t = Tally()
    case = {"kind": "forward", "roi": list(roi), "S": S, "M": M, "obj_type": obj_type, "energy": energy, "tilt": list(tilt)}
    pt = build(roi, S, M, obj_type, energy, tilt, seed)
    want, amp_dev, out = forward_totals(pt, roi, S, M, obj_type, seed)
    worst = 0.0
    t.case(key=case, nontrivial=True, outcome=[S, M, obj_type, round(want, 3)])
    for idx, tot, shape in out:
        if shape != (len(idx), *roi) or not np.isfinite(tot).all():
            t.fail({"relation": "predicted_intensity_shape_finite"}, case, f"roi={roi} S={S} M={M} {obj_type}: predicted intensities have shape {shape} / non-finite sums")
            return t
        worst = max(worst, float(np.abs(tot / want - 1).max()))
    t.stat("forward_energy_rel_dev", worst)
    if amp_dev > TOL:
        t.extra["forward_points_with_non_unit_object"] += 1  # would be a C10 matter; the identity below presupposes |obj| = 1
    elif worst > TOL_FWD:
        t.fail({"relation": "pure_phase_conserves_intensity", "multislice": S > 1, "mixed": M > 1, "tilted": tilt != (0.0, 0.0)}, case, f"roi={roi} S={S} M={M} {obj_type} energy={energy:g} tilt={tilt}: summed predicted intensity / sum |probe|^2 deviates from 1 by {worst:.3g} (sum |probe|^2 = {want:.6g})")
    t.sample(case, cap=1)
    return t


# ----------------------------------------------------------------------------- E. Fourier-magnitude projection
AMP_KINDS = ["positive", "with_zeros", "all_zero"]
# Exit waves whose spectrum vanishes (exactly, or up to FFT round-off) where the data do not: vacuum scan with a hard aperture, an empty
# pattern in the batch, a plane wave. Single-mode only: there the kept phase is angle(0) = 0 / the round-off phase and the result is exact.
OVERLAP_KINDS_DEGENERATE = ["zero", "constant", "aperture_disc", "mixed_batch"]


def make_overlap(okind, M, B, roi, scale, rng):
    R, C = roi
    dense = (rng.normal(size=(M, B, R, C)) + 1j * rng.normal(size=(M, B, R, C))) * scale
    if okind == "dense":
        return dense
    if okind == "zero":
        return np.zeros_like(dense)
    const = np.array([0.7 - 0.4j, -1.1 + 0.2j, 0.3j])[:B].reshape(1, B, 1, 1) * scale * np.ones((M, B, R, C))
    if okind == "constant":
        return const
    kr = np.fft.fftfreq(R)[:, None]
    kc = np.fft.fftfreq(C)[None, :]
    disc = (kr**2 + kc**2) <= 0.3**2  # hard aperture: exact zeros outside
    spec = disc * np.exp(1j * rng.uniform(-np.pi, np.pi, (M, B, R, C))) * scale * np.sqrt(R * C / disc.sum())
    aperture = np.fft.ifft2(spec, norm="ortho")
    if okind == "aperture_disc":
        return aperture
    if okind == "mixed_batch":  # an empty pattern, a dense one and a plane wave in one batch
        out = dense.copy()
        out[:, 0] = 0.0
        out[:, B - 1] = const[:, B - 1]
        return out
    raise ValueError(okind)


def judge_projection(t, pt, roi, M, akind, scale, dtype, k, seed, okind="dense"):
    torch = _torch()
    R, C = roi
    B = 3
    rng = np.random.default_rng([seed, 16, 5, R, C, M, AMP_KINDS.index(akind), k])
    A = (rng.random((B, R, C)) + 0.1) * scale
    if akind == "with_zeros":
        A[:, ::2, ::3] = 0.0
        A[1, R // 2, C // 2] = 0.0
    elif akind == "all_zero":
        A[:] = 0.0
    x = make_overlap(okind, M, B, roi, scale, rng)
    case = {"kind": "projection", "roi": list(roi), "M": M, "amplitudes": akind, "scale": scale, "dtype": dtype, "k": k, "overlap": okind}
    cls = {"roi_odd_axis": bool(R % 2 or C % 2), "modes": "single" if M == 1 else "mixed", "spectrum_has_zeros": okind != "dense", "weak_signal": scale < 1.0}
    where = f"fourier_projection roi={roi} modes={M} overlap={okind} amplitudes={akind} scale={scale} {dtype} k={k}"
    At = torch.tensor(A, dtype=torch.float32 if dtype == "complex64" else torch.float64)
    xt = torch.tensor(x, dtype=getattr(torch, dtype))
    with library("fourier_projection"), torch.no_grad():
        P = pt.fourier_projection(At, xt)
        got = torch.sqrt(pt.detector_model.forward(P)).numpy().astype(float)  # detector-centred amplitude of the projected wave
        P2 = pt.fourier_projection(At, P)
    t.case(key=case, nontrivial=True, outcome=[akind, M, round(float(got.max()), 3)])
    if tuple(P.shape) != x.shape or not bool(torch.isfinite(P.abs()).all()):
        t.fail({"relation": "projection_shape_finite", **cls}, case, f"{where}: result has shape {tuple(P.shape)} / non-finite values")
        return
    Aq = At.numpy().astype(float)
    e = float(np.abs(got - Aq).max()) / scale
    weak = scale < 1.0
    t.stat("projection_amplitude_dev" + (f"_scale_{scale:g}_{cls['modes']}" if weak else ""), e)
    if e > proj_tol(M, scale):
        j = np.unravel_index(int(np.argmax(np.abs(got - Aq))), got.shape)
        t.fail({"relation": "projection_yields_measured_amplitudes", **cls}, case, f"{where}: detector amplitude of the projected wave differs from the measured amplitude by {e:.3g} (at {tuple(int(v) for v in j)}: {got[j]:.6g} vs {Aq[j]:.6g})")
    e = float((P2 - P).abs().max()) / scale
    t.stat("projection_idempotence_dev" + (f"_scale_{scale:g}_{cls['modes']}" if weak else ""), e)
    if e > proj_tol(M, scale):
        t.fail({"relation": "projection_idempotent", **cls}, case, f"{where}: projecting twice changes the wave by {e:.3g}")


@guarded
def w_proj(item, seed=0, nseeded=2):
    roi, M = item
    roi = tuple(roi)
    t = Tally()
    pt = build(roi, 1, M, "complex", 80e3, (0.0, 0.0), seed)
    if pt.num_probes != M:
        raise Broken("builder did not produce the requested number of probe modes")
    for akind, scale, dtype, k in itertools.product(AMP_KINDS, [1.0, 30.0], ["complex64", "complex128"], range(nseeded)):
        judge_projection(t, pt, roi, M, akind, scale, dtype, k, seed)
    for akind, scale, dtype, k in itertools.product(["positive", "with_zeros"], WEAK_SCALES, ["complex64", "complex128"], range(nseeded)):
        judge_projection(t, pt, roi, M, akind, scale, dtype, k, seed)  # weak exit waves with measured amplitudes of the same scale
    if M == 1:
        for okind, akind, scale, dtype in itertools.product(OVERLAP_KINDS_DEGENERATE, ["positive", "with_zeros"], [1.0, 30.0], ["complex64", "complex128"]):
            judge_projection(t, pt, roi, M, akind, scale, dtype, 0, seed, okind)
    t.sample({"kind": "projection", "roi": list(roi), "M": M, "amplitude_kinds": AMP_KINDS}, cap=1)
    return t


# ----------------------------------------------------------------------------- F. call histories: a result must not depend on earlier calls
# The parts above run as independent lattice points, so state shared BETWEEN calls (a memo keyed too coarsely, a module-level buffer) shows
# only by accident of worker scheduling. Here the enumerated object is a history of calls from an alphabet built to COLLIDE on coarse keys:
# equal axis lengths with different samplings, equal shapes with different data, equal index-set sizes with different contents. Every ordered
# pair (thorough: triple) is executed from the start-up module state; the LAST call is judged by its usual identities, by agreement with the
# same call executed alone, and - for the propagators - by the closed-form Fresnel kernel (a kernel built with another model's sampling still
# obeys every group identity). Inputs must come back bitwise unmodified.
HIST_ROIS = [(6, 6), (7, 10), (8, 5)]
HIST_SAMPLINGS = [(0.3, 0.25), (0.5, 0.4)]
TOL_KERNEL = 1e-4  # closed-form Fresnel kernel vs complex64 library kernel: worst observed 3.5e-6 (thicknesses up to 23 A); a wrong sampling gives O(1)
_STATE = None  # start-up snapshot of module/class-level mutable state, taken in the parent before any call; inherited through fork


def call_alphabet():
    calls = []
    for impl in ("torch", "numpy"):
        for roi in HIST_ROIS:
            calls.append(["shift", impl, list(roi), [1.0, -2.0]])
            calls.append(["shift", impl, list(roi), [0.3, 0.7]])
    for roi in HIST_ROIS:
        for si in range(len(HIST_SAMPLINGS)):
            calls.append(["prop", list(roi), si])
    calls += [["scatter", v] for v in range(3)]
    calls += [["proj", M, k] for M in (1, 2) for k in (0, 1)]
    calls += [["forward", si] for si in range(len(HIST_SAMPLINGS))]
    return calls


def snapshot_module_state():
    """Shallow copies of every module-level and class-level dict/list/set of the loaded quantem modules, and their lru_caches."""
    global _STATE
    if _STATE is not None:
        return _STATE
    import sys

    import quantem.diffractive_imaging.ptychography  # noqa: F401  (pulls in the model modules)
    import quantem.tomography.object_models  # noqa: F401

    containers, caches = [], []
    for name, mod in sorted(sys.modules.items()):
        if not name.startswith("quantem") or mod is None:
            continue
        owners = [(name, mod)]
        owners += [(name + "." + k, v) for k, v in sorted(vars(mod).items()) if isinstance(v, type) and getattr(v, "__module__", None) == name]
        for oname, owner in owners:
            for k, v in sorted(vars(owner).items()):
                if k.startswith("__"):
                    continue
                if isinstance(v, (dict, list, set)):
                    containers.append((oname + "." + k, v, type(v)(v)))
                f = getattr(v, "__func__", v)
                if callable(getattr(f, "cache_clear", None)):
                    caches.append((oname + "." + k, f))
    _STATE = {"containers": containers, "caches": caches, "modules": sorted(n for n in sys.modules if n.startswith("quantem"))}
    return _STATE


def restore_module_state():
    """Start-up contents back in place; containers that appeared since (a memo created lazily) are emptied."""
    import sys

    if _STATE is None:
        raise Broken("start-up snapshot of the module state is missing")
    known = set()
    for _name, obj, copy in _STATE["containers"]:
        known.add(id(obj))
        if isinstance(obj, dict):
            obj.clear()
            obj.update(copy)
        elif isinstance(obj, list):
            obj[:] = copy
        else:
            obj.clear()
            obj.update(copy)
    for _name, f in _STATE["caches"]:
        f.cache_clear()
    for name, mod in list(sys.modules.items()):
        if not name.startswith("quantem") or mod is None:
            continue
        for k, v in list(vars(mod).items()):
            if k.startswith("__") or id(v) in known:
                continue
            if isinstance(v, (dict, list, set)) and name not in _STATE["modules"]:
                v.clear()  # module imported after the snapshot: its containers start empty by construction
            f = getattr(v, "__func__", v)
            if callable(getattr(f, "cache_clear", None)):
                f.cache_clear()


def do_call(call, seed, check=True):
    """Execute one call of the alphabet on the real code. Returns (problems, output array or None): problems = [(identity, message)]."""
    torch = _torch()
    kind = call[0]
    probs = []
    if kind == "shift":
        _, impl, roi, s = call
        roi, s = tuple(roi), tuple(s)
        R, C = roi
        rng = np.random.default_rng([seed, 16, 7, R, C])
        x = rng.normal(size=(2, R, C)) + 1j * rng.normal(size=(2, R, C))
        x0 = x.copy()
        pd = "float32" if impl == "torch" else "float64"
        out = shift_apply(impl, x, [list(s)], pd)[0]
        if not check:
            return probs, None
        sc = float(np.abs(x).max())
        e = abs(float(np.sum(np.abs(out) ** 2) / np.sum(np.abs(x) ** 2)) - 1)
        if e > TOL:
            probs.append(("shift_preserves_intensity", f"total intensity changes by {e:.3g}"))
        if float(s[0]).is_integer() and float(s[1]).is_integer():
            e = float(np.abs(out - np.roll(x, (int(s[0]), int(s[1])), axis=(1, 2))).max()) / sc
            if e > TOL:
                probs.append(("integer_shift_is_roll", f"differs from np.roll by {e:.3g}"))
        else:
            back = shift_apply(impl, out, [[1.0 - s[0], 1.0 - s[1]]], pd)[0]
            e = float(np.abs(back - np.roll(x, (1, 1), axis=(1, 2))).max()) / sc
            if e > TOL:
                probs.append(("shift_additive", f"shift{s} followed by shift{(round(1.0 - s[0], 6), round(1.0 - s[1], 6))} differs from roll(1,1) by {e:.3g}"))
        if not np.array_equal(x, x0):
            probs.append(("inputs_unmodified", "the input stack was modified"))
        return probs, out
    if kind == "prop":
        _, roi, si = call
        roi, samp = tuple(roi), HIST_SAMPLINGS[si]
        thick = [0.5, 3.0, 3.5]
        pt = build(roi, 4, 1, "complex", 80e3, (0.0, 0.0), seed, thick=thick, sampling=samp)
        with library("propagators"):
            K = pt.propagators.detach().numpy().astype(np.complex128)
        if not check:
            return probs, None
        e = float(np.abs(np.abs(K) - 1).max())
        if e > TOL:
            probs.append(("propagator_unit_modulus", f"| |K| - 1 | = {e:.3g}"))
        e = float(np.abs(K[0] * K[1] - K[2]).max())
        if e > TOL:
            probs.append(("propagation_additive", f"K(0.5) K(3) differs from K(3.5) by {e:.3g}"))
        e = max(float(np.abs(K[i] - fresnel(roi, 80e3, (0.0, 0.0), dz, samp)).max()) for i, dz in enumerate(thick))
        if e > TOL_KERNEL:
            probs.append(("propagator_is_fresnel_kernel", f"kernel differs from exp(-i pi lambda dz k^2) at sampling {samp} A by {e:.3g}"))
        U = prop_chain(pt, roi)
        e = float(np.abs(U[2].conj().T @ U[2] - np.eye(roi[0] * roi[1])).max())
        if e > TOL:
            probs.append(("propagation_preserves_intensity", f"U^H U differs from I by {e:.3g}"))
        return probs, K
    if kind == "scatter":
        from quantem.diffractive_imaging.ptycho_utils import sum_patches

        v = call[1]
        objshape, roi = (10, 9), (6, 6)
        origins = [[(0, 0), (3, 4), (9, 8), (5, 2)], [(3, 3), (3, 3), (4, 3), (8, 1)], [(1, 7), (6, 0), (2, 2), (2, 2)]][v]
        idx = raster_indices(objshape, roi, origins)  # 4 x 6 x 6 = 144 indices in every variant, different contents
        rng = np.random.default_rng([seed, 16, 8, v])
        y = rng.normal(size=idx.shape) + 1j * rng.normal(size=idx.shape)
        yt, ti = torch.tensor(y), torch.tensor(idx, dtype=torch.int32)
        y0, i0 = yt.clone(), ti.clone()
        with library("sum_patches"):
            got = sum_patches(yt, ti, objshape).numpy()
            ones = sum_patches(torch.ones(idx.shape, dtype=torch.float64), ti, objshape).numpy()
        if not check:
            return probs, None
        want = np.zeros(objshape[0] * objshape[1], dtype=np.complex128)
        np.add.at(want, idx.reshape(-1), y.reshape(-1))
        e = float(np.abs(got.reshape(-1) - want).max())
        if e > 1e-12:
            probs.append(("sum_patches_is_adjoint_of_extraction", f"differs from the scatter-add of the same patches by {e:.3g}"))
        if not np.array_equal(ones.reshape(-1), np.bincount(idx.reshape(-1), minlength=want.size)):
            probs.append(("sum_patches_hit_count", "sum_patches(ones) differs from the histogram of the indices"))
        if not (torch.equal(yt, y0) and torch.equal(ti, i0)):
            probs.append(("inputs_unmodified", "patches or indices were modified"))
        return probs, got
    if kind == "proj":
        _, M, k = call
        roi = (8, 5)
        pt = build(roi, 1, M, "complex", 80e3, (0.0, 0.0), seed)
        tt = Tally()
        judge_projection(tt, pt, roi, M, "with_zeros", 1.0, "complex64", k, seed)
        judge_projection(tt, pt, roi, M, "positive", 1e-3, "complex128", k, seed)
        return [(f["cls"]["relation"], f["msg"]) for f in tt.fails], None
    if kind == "forward":
        roi, S, M = (7, 10), 2, 2
        pt = build(roi, S, M, "pure_phase", 300e3, (3.0, -2.0), seed, sampling=HIST_SAMPLINGS[call[1]])
        want, amp_dev, out = forward_totals(pt, roi, S, M, "pure_phase", seed)
        worst = max(float(np.abs(tot / want - 1).max()) for _i, tot, _s in out)
        if check and worst > TOL_FWD:
            probs.append(("pure_phase_conserves_intensity", f"summed predicted intensity / sum |probe|^2 deviates from 1 by {worst:.3g}"))
        return probs, None
    raise ValueError(call)


def run_call_history(t, hist, seed, alone=None, alone_failed=()):
    """Returns (output of the last call, identities it failed). `alone` / `alone_failed`: the same for the last call executed alone;
    an identity that already fails alone is reported once, for the one-call history, not again for every longer history."""
    restore_module_state()
    case = {"kind": "call_history", "history": [list(c) for c in hist]}
    last = hist[-1]
    for c in hist[:-1]:
        do_call(c, seed, check=False)
    probs, out = do_call(last, seed, check=True)
    restore_module_state()
    t.case(key=case, nontrivial=len(hist) > 1, outcome=[last[0], len(probs)])
    earlier = [list(c) for c in hist[:-1]]
    for ident, msg in probs:
        if earlier and ident in alone_failed:
            continue
        if earlier:
            t.fail({"relation": "result_independent_of_earlier_calls", "last_call": last[0], "identity": ident}, case, f"after the calls {earlier} the call {list(last)} fails {ident}: {msg} (alone it holds)")
        else:
            t.fail({"relation": ident, "part": "call alone"}, case, f"call {list(last)}: {msg}")
    if alone is not None and out is not None:
        d = float(np.abs(out - alone).max()) / max(float(np.abs(alone).max()), 1e-30) if out.shape == alone.shape else float("inf")
        t.stat("history_vs_alone_rel_dev", d)
        if d > TOL and not probs and not alone_failed:
            t.fail({"relation": "result_independent_of_earlier_calls", "last_call": last[0], "identity": "equals_the_call_alone"}, case, f"after the calls {earlier} the result of {list(last)} differs from the same call executed alone by {d:.3g} of its maximum")
    return out, {ident for ident, _m in probs}


@guarded
def w_call_history(item, seed=0, depth=2):
    """item = index of the LAST call; every history of up to `depth` calls that ends with it is executed from the start-up module state."""
    t = Tally()
    calls = call_alphabet()
    last = calls[item]
    alone, failed = run_call_history(t, [last], seed)
    for c in calls:
        run_call_history(t, [c, last], seed, alone, failed)
    if depth >= 3:
        for a in calls:
            for m in calls[1::4]:  # middle call: every fourth call of the alphabet (one of each kind)
                run_call_history(t, [a, m, last], seed, alone, failed)
    t.sample({"kind": "call_history", "last_call": last, "depth": depth, "calls_in_alphabet": len(calls)}, cap=2)
    return t


# ----------------------------------------------------------------------------- G. spellings: one shift, every legal way of writing it
# The parts above always spell a shift as a contiguous float tensor/array of shape (N,2) and the data as a contiguous complex array. Here the
# SPELLING of the arguments is the lattice: dtype (int64/int32/int16/uint8/float16/float32/float64), container (tensor, ndarray, list, tuple,
# tensor data with ndarray positions and vice versa), shape ((N,2), (1,2), (2,)), layout (contiguous, transposed, strided, expanded,
# requires_grad) of the positions; dtype (complex64/128, float32/64) and layout (contiguous, transposed view, 2-D, 4-D) of the data; for every
# shifting entry point (fourier_shift_expand, fourier_translation_operator, ProbePixelated.forward, forward_operator with descan shifts).
# A spelling the library rejects is counted; an accepted spelling must give the answer of the canonical spelling (float32 (N,2) positions,
# complex128 data, same values) up to dtype round-off, a circular roll for integer values, the same total intensity, a unit-modulus ramp, and
# must compose with a fractional shift.
POS_DTYPES = ["int64", "int32", "int16", "uint8", "float16", "float32", "float64"]
VALUE_SETS = {
    "int": [[2, -3], [-1, 4], [0, 0]],
    "uint": [[2, 3], [1, 4], [0, 0]],
    "quarter": [[0.25, -0.5], [1.75, 0.5], [-2.25, 0.0]],  # exactly representable in float16
    "generic": [[0.3, 0.7], [-1.3, 2.6], [0.05, -0.95]],  # float16 rounds these: see TOL_F16
}
# float16 positions: the shift itself is rounded to 11 bits (relative 4.9e-4). Worst deviation from the float32 spelling on the unchanged tree
# (generic values, ROI shapes (6,6),(7,10),(8,5),(9,9), seeds {0,1,2,7,12345}): 1.75e-3 of the maximum -> TOL_F16 = 4e-2 (23x). Every other
# spelling: <= 9.3e-7 (float64 positions against the float32 canonical ramp) -> TOL_SPELL = 3e-5 (32x). The seeded frequency-grid change makes
# integer-dtype positions return the unshifted array (deviation O(1) = 25x TOL_F16, > 3e4 x TOL_SPELL) and float16 positions raise (counted).
TOL_F16 = 4e-2
TOL_SPELL = 3e-5


def spellings(impl, quick=True):
    """Every spelling descriptor for data of kind `impl` (torch tensor / NumPy array). JSON-able dicts."""
    native = "tensor" if impl == "torch" else "ndarray"
    out = []

    def add(**kw):
        d = {"impl": impl, "entry": "fourier_shift_expand", "container": native, "pos_dtype": "float32", "values": "quarter", "shape": "N2", "layout": "contiguous", "array_dtype": "complex128", "array_layout": "contiguous"}
        d.update(kw)
        out.append(d)

    for dt in POS_DTYPES:
        vsets = ["uint"] if dt == "uint8" else (["int"] if dt.startswith("int") else ["int", "quarter", "generic"])
        for vs in vsets:
            for shape in ("N2", "12", "2"):
                for layout in ("contiguous", "transposed", "strided", "expanded", "requires_grad"):
                    if layout == "requires_grad" and (impl != "torch" or not dt.startswith("float")):
                        continue
                    if shape == "2" and layout != "contiguous":
                        continue
                    add(pos_dtype=dt, values=vs, shape=shape, layout=layout)
            for entry in ("fourier_translation_operator",) + (("ProbePixelated.forward", "forward_operator descan") if impl == "torch" else ()):
                add(entry=entry, pos_dtype=dt, values=vs)
    for container, dts in (("list", ["int", "float"]), ("tuple", ["int", "float"]), ("cross", ["float32", "int64", "float64"])):
        for dt in dts:
            for shape in ("N2", "12", "2"):
                add(container=container, pos_dtype=dt, values="int" if dt.startswith("int") else "quarter", shape=shape)
    for adt in ("complex64", "complex128", "float32", "float64"):
        for alay in ("contiguous", "transposed_view", "2d", "4d"):
            for dt in ("float32", "int64", "float16"):
                for vs in ("int", "quarter") if dt != "int64" else ("int",):
                    if adt == "complex128" and alay == "contiguous":
                        continue  # the positions family above
                    add(array_dtype=adt, array_layout=alay, pos_dtype=dt, values=vs)
    return out


def spelling_key(sp):
    """Coarse class of a spelling (used for failure classes and for the per-spelling counters)."""
    if sp["array_dtype"].startswith("float"):
        return "array_real_dtype"
    if sp["container"] in ("list", "tuple"):
        return "positions_python_" + sp["container"]
    if sp["container"] == "cross":
        return "positions_other_array_library"
    if sp["shape"] == "2":
        return "positions_shape_(2,)"
    if sp["pos_dtype"].startswith(("int", "uint")):
        return "positions_integer_dtype"
    if sp["pos_dtype"] == "float16":
        return "positions_float16"
    if sp["layout"] != "contiguous":
        return "positions_" + sp["layout"]
    if sp["array_layout"] != "contiguous" or sp["array_dtype"] != "complex128":
        return "array_" + (sp["array_layout"] if sp["array_layout"] != "contiguous" else sp["array_dtype"])
    return "positions_" + sp["pos_dtype"]


def make_positions(sp, lib):
    """The shift vectors of a spelling as the object handed to the library; lib = "torch" | "numpy" decides tensor vs ndarray."""
    torch = _torch()
    vals = VALUE_SETS[sp["values"]]
    vals = vals if sp["shape"] == "N2" else vals[:1]
    if sp["layout"] == "expanded":
        vals = vals[:1]
    if sp["container"] in ("list", "tuple"):
        conv = (lambda v: int(v)) if sp["pos_dtype"] == "int" else (lambda v: float(v))
        rows = [[conv(a), conv(b)] for a, b in vals]
        obj = rows if sp["shape"] != "2" else rows[0]
        return obj if sp["container"] == "list" else (tuple(tuple(r) for r in obj) if sp["shape"] != "2" else tuple(obj))
    a = np.asarray(vals, dtype=np.float64)
    dt = sp["pos_dtype"]
    if sp["layout"] == "transposed":
        base = np.ascontiguousarray(a.T).astype(dt)
        obj = torch.tensor(base).T if lib == "torch" else base.T
    elif sp["layout"] == "strided":
        filler = np.full_like(a, 7.0)
        base = np.stack([a, filler], axis=1).reshape(-1, 2).astype(dt)
        obj = torch.tensor(base)[::2] if lib == "torch" else base[::2]
    elif sp["layout"] == "expanded":
        base = a.astype(dt)
        obj = torch.tensor(base).expand(3, 2) if lib == "torch" else np.broadcast_to(base, (3, 2))
    else:
        base = a.astype(dt)
        obj = torch.tensor(base) if lib == "torch" else base
        if sp["layout"] == "requires_grad":
            obj.requires_grad_(True)
    if sp["shape"] == "2":
        obj = obj[0]
    return obj


def spelled_values(sp):
    vals = VALUE_SETS[sp["values"]]
    vals = vals if sp["shape"] == "N2" else vals[:1]
    if sp["layout"] == "expanded":
        vals = vals[:1] * 3
    return [[float(a), float(b)] for a, b in vals]


def make_data(sp, roi, seed):
    """(object handed to the library, the same data as a contiguous complex128/float64 ndarray)."""
    torch = _torch()
    R, C = roi
    rng = np.random.default_rng([seed, 16, 9, R, C])
    x = rng.normal(size=(3, 2, R, C)) + 1j * rng.normal(size=(3, 2, R, C))
    x = {"contiguous": x[0], "transposed_view": x[0], "2d": x[0, 0], "4d": x}[sp["array_layout"]]
    x = (x if sp["array_dtype"].startswith("complex") else x.real).astype(sp["array_dtype"])
    if sp["array_layout"] == "transposed_view":
        xt = np.ascontiguousarray(np.swapaxes(x, -1, -2))
        obj = torch.tensor(xt).transpose(-1, -2) if sp["impl"] == "torch" else np.swapaxes(xt, -1, -2)
    else:
        obj = torch.tensor(x) if sp["impl"] == "torch" else x
    return obj, x.astype(np.complex128 if sp["array_dtype"].startswith("complex") else np.float64)


def _np(a):
    torch = _torch()
    return a.detach().numpy() if isinstance(a, torch.Tensor) else np.asarray(a)


_SPELL_MODELS = {}


def _spell_models(roi, seed):
    """One probe model and one single-slice reconstruction object per ROI shape and worker (public API, seeded)."""
    key = (tuple(roi), int(seed))
    if key not in _SPELL_MODELS:
        from quantem.diffractive_imaging.probe_models import ProbePixelated

        rng = np.random.default_rng([seed, 16, 10, roi[0], roi[1]])
        prb = (rng.normal(size=(2, *roi)) + 1j * rng.normal(size=(2, *roi))).astype(np.complex64)
        with library("ProbePixelated.from_array"):
            pm = ProbePixelated.from_array(prb, probe_params={"energy": 80e3}, rng=int(seed) + 21)
        _SPELL_MODELS[key] = (pm, build(tuple(roi), 1, 2, "complex", 80e3, (0.0, 0.0), seed))
    return _SPELL_MODELS[key]


def call_entry(sp, roi, data, pos, seed):
    """Run one shifting entry point with the given data / positions objects. Returns an ndarray."""
    torch = _torch()
    from quantem.diffractive_imaging.ptycho_utils import fourier_shift_expand, fourier_translation_operator

    e = sp["entry"]
    if e == "fourier_shift_expand":
        return _np(fourier_shift_expand(data, pos))
    if e == "fourier_translation_operator":
        return _np(fourier_translation_operator(pos, tuple(roi)))
    pm, pt = _spell_models(roi, seed)
    with torch.no_grad():
        if e == "ProbePixelated.forward":
            return _np(pm.forward(pos))
        n = len(pos)
        probes = torch.tensor(np.broadcast_to(_np(pm.probe)[:, None], (2, n, *roi)).copy())
        patches = torch.ones(1, n, *roi, dtype=torch.complex64)
        return _np(pt.forward_operator(patches, probes, pos)[1])


def judge_spelling(t, roi, sp, seed):
    torch = _torch()
    roi = tuple(roi)
    key = spelling_key(sp)
    case = {"kind": "spelling", "roi": list(roi), "spelling": sp}
    lib_pos = sp["impl"] if sp["container"] != "cross" else ("numpy" if sp["impl"] == "torch" else "torch")
    data, xref = make_data(sp, roi, seed)
    vals = spelled_values(sp)
    canon_sp = dict(sp, container="tensor" if sp["impl"] == "torch" else "ndarray", pos_dtype="float32", shape="N2" if sp["shape"] == "N2" else "12", layout="contiguous", array_dtype="complex128" if sp["array_dtype"].startswith("complex") else "complex128", array_layout=sp["array_layout"] if sp["array_layout"] != "transposed_view" else "contiguous")
    canon_sp["values"] = sp["values"]
    cdata = torch.tensor(xref.astype(np.complex128)) if sp["impl"] == "torch" else xref.astype(np.complex128)
    cpos_np = np.asarray(vals, dtype=np.float32)
    cpos = torch.tensor(cpos_np) if sp["impl"] == "torch" else cpos_np
    with library("canonical spelling"):
        ref = call_entry(canon_sp, roi, cdata, cpos, seed)
    if sp["array_dtype"].startswith("float") and sp["entry"] == "fourier_shift_expand":
        ref = ref.real  # a real array shifted = the real part of the complex result
    pos = make_positions(sp, lib_pos)
    pos_copy = None if not hasattr(pos, "shape") else _np(pos).copy()
    try:
        got = call_entry(sp, roi, data, pos, seed)
    except Exception as e:  # rejected spelling: counted per spelling class, never flagged
        t.extra["rejected_" + key] += 1
        t.extra["rejected_by_" + type(e).__name__] += 1
        t.case(key=case, nontrivial=False, outcome=["rejected", key, type(e).__name__])
        return
    t.extra["accepted_" + key] += 1
    t.case(key=case, nontrivial=True, outcome=["accepted", key])
    cls = {"spelling": key, "entry": sp["entry"]}
    where = f"{sp['entry']} roi={roi} data {sp['impl']} {sp['array_dtype']} {sp['array_layout']}, positions {sp['container']} {sp['pos_dtype']} {sp['layout']} shape {sp['shape']} values {vals}"
    if got.shape != ref.shape:
        if got.size != ref.size:
            t.fail({"relation": "shift_spelling_matches_canonical", **cls}, case, f"{where}: result has shape {got.shape}, the canonical spelling gives {ref.shape}")
            return
        got = got.reshape(ref.shape)
    sc = max(float(np.abs(ref).max()), 1e-30)
    tol = TOL_F16 if (sp["pos_dtype"] == "float16" and sp["values"] == "generic") else TOL_SPELL
    d = float(np.abs(got - ref).max()) / sc
    if key == "array_real_dtype":
        # real-valued data are outside the quantifier ("for all complex arrays/probe stacks"; every library caller passes complex probes): observed only.
        # On the unchanged tree the complex phase ramp is cast to the real dtype of the data, so a real array is not translated (deviation 0.8-0.9).
        t.stat("spelling_vs_canonical_dev_real_array_not_judged", d)
        if d > tol:
            t.extra["observed_real_array_differs_from_real_part_of_complex_result"] += 1
        return
    t.stat("spelling_vs_canonical_dev_" + ("float16_generic" if tol == TOL_F16 else "other"), d)
    if not np.isfinite(got).all() or d > tol:
        t.fail({"relation": "shift_spelling_matches_canonical", **cls}, case, f"{where}: differs from the canonical spelling (float32 (N,2) positions, complex128 data, same values) by {d:.3g} of the maximum (tol {tol:g})")
    if pos_copy is not None and not np.array_equal(_np(pos), pos_copy):
        t.fail({"relation": "inputs_unmodified", **cls}, case, f"{where}: the positions object was modified")
    if sp["entry"] == "fourier_translation_operator":
        e = float(np.abs(np.abs(got) - 1).max())
        if e > TOL:
            t.fail({"relation": "translation_ramp_unit_modulus", **cls}, case, f"{where}: | |ramp| - 1 | = {e:.3g}")
        return
    if sp["entry"] != "fourier_shift_expand":
        return
    integer = sp["values"] in ("int", "uint")
    x128 = xref.astype(np.complex128)
    for i, v in enumerate(vals):
        en = float(np.sum(np.abs(got[i]) ** 2) / np.sum(np.abs(x128) ** 2))
        if abs(en - 1) > tol:
            t.fail({"relation": "shift_preserves_intensity", **cls}, case, f"{where}: total intensity ratio {en:.6g} for shift {v}")
        if integer:
            e = float(np.abs(got[i] - np.roll(x128, (int(v[0]), int(v[1])), axis=(-2, -1))).max()) / sc
            if e > TOL_SPELL:
                t.fail({"relation": "integer_shift_is_roll", **cls}, case, f"{where}: shift {v} differs from np.roll by {e:.3g} of the maximum")
                break
    if integer and len(vals) >= 1 and sp["array_layout"] in ("contiguous", "transposed_view"):
        # composition: the spelled integer shift, then a canonical fractional shift, equals the canonical combined shift
        b = [0.25, 0.5]
        step = torch.tensor(got[0]) if sp["impl"] == "torch" else got[0]
        mk = (lambda v: torch.tensor(np.asarray([v], dtype=np.float32))) if sp["impl"] == "torch" else (lambda v: np.asarray([v], dtype=np.float32))
        with library("canonical spelling"):
            two = call_entry(canon_sp, roi, step, mk(b), seed)[0]
            one = call_entry(canon_sp, roi, cdata, mk([vals[0][0] + b[0], vals[0][1] + b[1]]), seed)[0]
        e = float(np.abs(two - one).max()) / sc
        if e > TOL_SPELL:
            t.fail({"relation": "shift_additive", **cls}, case, f"{where}: shift {vals[0]} followed by shift {b} differs from the combined shift by {e:.3g}")


@guarded
def w_spelling(item, seed=0, quick=True):
    roi, impl = item
    t = Tally()
    sps = spellings(impl, quick)
    for sp in sps:
        judge_spelling(t, tuple(roi), sp, seed)
    t.sample({"kind": "spelling", "roi": list(roi), "impl": impl, "spellings": len(sps)}, cap=2)
    return t


# ----------------------------------------------------------------------------- H. parameter range of the propagation identities
# The property quantifies over slice thicknesses, tilts and energies without bounds, so the propagation identities are also run over the
# whole physical RANGE, not only at ordinary TEM settings: energies 0.5 keV .. 1 MeV x real-space samplings 0.05 .. 3 A (isotropic and
# anisotropic) x thicknesses 1e-3 .. 1e5 A x tilts {0, small, large} - in particular the corner wavelength * k_max >= 1, where a band limit
# ("evanescent waves") would make the propagator vanish. Root-cause relation: |propagator| == 1 on the whole grid. Float32 precision: the
# kernel phase phi = pi*lambda*dz*k^2 (+ tilt term) is computed in complex64, so exp(i phi) carries an absolute phase error of about
# eps32 * |phi|. Unit modulus, +d/-d and intensity conservation do not depend on it (judged at 1e-5 everywhere); additivity K(a)K(b) = K(a+b)
# does, and is judged at 1e-5 + RANGE_ADD_C * eps32 * phi_max (measured on the unchanged tree, seeds {0,1,2,7,12345}, 7 ROI shapes: worst error /
# (eps32 * phi_max) = 1.2 -> RANGE_ADD_C = 25, 21x; |K|-1 1.9e-7, chain intensity 2.0e-7, +d/-d 4.2e-7, forward chain 8.5e-7); where that bound exceeds 0.5 the phase is beyond float32 resolution and additivity is not judged (counted).
RANGE_ENERGIES = [0.5e3, 1e3, 5e3, 20e3, 80e3, 300e3, 1000e3]
RANGE_SAMPLINGS = [(0.05, 0.05), (0.15, 0.15), (0.4, 0.4), (1.0, 1.0), (3.0, 3.0), (0.05, 0.4), (0.15, 1.0), (3.0, 0.4)]
RANGE_THICK = [1e-3, 1.0, 10.0, 1e3, 1e5]
RANGE_TILTS = [(0.0, 0.0), (3.0, -2.0), (150.0, -80.0)]
RANGE_ADD_C = 25.0
EPS32 = 1.1920929e-07


def phase_max(roi, energy, samp, tilt, dz):
    kr = np.abs(np.fft.fftfreq(roi[0], samp[0])).max()
    kc = np.abs(np.fft.fftfreq(roi[1], samp[1])).max()
    lam = wavelength(energy)
    return abs(dz) * (np.pi * lam * (kr**2 + kc**2) + 2 * np.pi * (kr * abs(math.tan(tilt[0] * 1e-3)) + kc * abs(math.tan(tilt[1] * 1e-3))))


@guarded
def w_range(item, seed=0):
    torch = _torch()
    roi, energy, samp = item
    roi, samp = tuple(roi), tuple(samp)
    R, C = roi
    t = Tally()
    lam = wavelength(energy)
    kmax = math.hypot(np.abs(np.fft.fftfreq(R, samp[0])).max(), np.abs(np.fft.fftfreq(C, samp[1])).max())
    corner = bool(lam * kmax >= 1.0)
    S = len(RANGE_THICK) + 1
    pt = build(roi, S, 2, "pure_phase", energy, (0.0, 0.0), seed, thick=RANGE_THICK, sampling=samp)
    gen = getattr(pt.probe_model, "_compute_propagator_arrays", None)
    rng = np.random.default_rng([seed, 16, 11, R, C])
    x = torch.tensor(rng.normal(size=(1, 3, R, C)) + 1j * rng.normal(size=(1, 3, R, C)))
    ones = torch.ones(S, 1, R, C, dtype=torch.complex128)
    sums = [RANGE_THICK[i] + RANGE_THICK[i + 1] for i in range(len(RANGE_THICK) - 1)] + [RANGE_THICK[0]]
    for tilt in RANGE_TILTS:
        base = {"kind": "range", "roi": list(roi), "energy": energy, "sampling": list(samp), "tilt": list(tilt)}
        cls0 = {"wavelength_times_kmax_at_least_one": corner, "tilted": tilt != (0.0, 0.0)}
        where = f"roi={roi} energy={energy:g} eV (wavelength {lam:.4g} A) sampling={samp} A (wavelength*k_max = {lam * kmax:.3g}) tilt={tilt} mrad"
        t.case(key=base, nontrivial=True, outcome=[corner, round(lam * kmax, 3)])
        with library("compute_propagator_arrays/propagators"):
            pt.probe_model.probe_tilt = tilt
            pt.slice_thicknesses = RANGE_THICK
            pt.compute_propagator_arrays()
            K = pt.propagators.detach().numpy().astype(np.complex128)
        if K.shape != (S - 1, R, C) or not np.isfinite(K).all():
            t.fail({"relation": "propagator_finite", **cls0}, base, f"{where}: propagators have shape {K.shape} / {int((~np.isfinite(K)).sum())} non-finite entries")
            continue
        dev = np.abs(np.abs(K) - 1).reshape(S - 1, -1).max(axis=1)
        t.stat("range_propagator_modulus_dev", float(dev.max()))
        if float(dev.max()) > TOL:
            i = int(np.argmax(dev))
            nz = int((np.abs(K[i]) < 0.5).sum())
            t.fail({"relation": "propagator_unit_modulus", **cls0}, dict(base, thickness=RANGE_THICK[i]), f"{where} thickness={RANGE_THICK[i]:g} A: | |propagator| - 1 | = {dev[i]:.3g} ({nz} of {R * C} Fourier pixels are below 0.5 in modulus)")
        # intensity through the chain of all five gaps, public overlap_projection with unit patches
        with library("overlap_projection"), torch.no_grad():
            pp, _ = pt.overlap_projection(ones, x)
        en = (pp.abs() ** 2).sum(dim=(-2, -1)).numpy()[:, 0]  # (S, 3)
        e = float(np.abs(en / en[0] - 1).max())
        t.stat("range_propagation_energy_dev", e)
        if e > TOL:
            t.fail({"relation": "propagation_preserves_intensity", **cls0}, base, f"{where}: total intensity along the slice chain {RANGE_THICK} A changes by {e:.3g} (ratios {(en[:, 0] / en[0, 0]).round(4).tolist()})")
        # additivity, public route: K(a) K(b) against K(a+b) from a second thickness list
        with library("compute_propagator_arrays/propagators"):
            pt.slice_thicknesses = sums
            pt.compute_propagator_arrays()
            Ks = pt.propagators.detach().numpy().astype(np.complex128)
        for i in range(len(RANGE_THICK) - 1):
            a, b = RANGE_THICK[i], RANGE_THICK[i + 1]
            phi = phase_max(roi, energy, samp, tilt, a + b)
            bound = TOL + RANGE_ADD_C * EPS32 * phi
            case = dict(base, a=a, b=b)
            t.case(key=case, nontrivial=True)
            if bound > 0.5:
                t.extra["range_additivity_not_judged_phase_beyond_float32"] += 1
                continue
            e = float(np.abs(K[i] * K[i + 1] - Ks[i]).max())
            t.stat("range_additivity_err_over_eps32_phi", e / max(EPS32 * phi, 1e-30) if phi * EPS32 > TOL else 0.0)
            t.stat("range_additivity_err_over_bound", e / bound)
            if e > bound:
                t.fail({"relation": "propagation_additive", **cls0}, case, f"{where}: K({a:g}) K({b:g}) differs from K({a + b:g}) by {e:.3g} (bound {bound:.3g} at phase {phi:.3g} rad)")
        # +d / -d, signed distances through the internal generator when present
        if gen is None:
            t.extra["seam_missing__compute_propagator_arrays"] += 1
        else:
            with library("_compute_propagator_arrays"):
                Kp = gen(pt.sampling, S, np.array(RANGE_THICK))
                Kn = gen(pt.sampling, S, -np.array(RANGE_THICK))
            e = float((Kp * Kn - 1).abs().max())
            t.stat("range_inverse_kernel_dev", e)
            if not bool(torch.isfinite((Kp * Kn).abs()).all()) or e > TOL:
                i = int(np.argmax((Kp * Kn - 1).abs().reshape(S - 1, -1).max(dim=1).values.numpy()))
                t.fail({"relation": "propagation_inverse", **cls0}, dict(base, thickness=RANGE_THICK[i]), f"{where}: K(+{RANGE_THICK[i]:g}) K(-{RANGE_THICK[i]:g}) differs from 1 by {e:.3g}")
            with library("propagators setter/overlap_projection"), torch.no_grad():
                pt.propagators = torch.stack([Kp[1], Kn[1], Kp[3], Kn[3], Kp[0]])
                pp, _ = pt.overlap_projection(ones, x)
            e = max(float((pp[2] - x).abs().max()), float((pp[4] - x).abs().max())) / float(x.abs().max())
            t.stat("range_inverse_operator_dev", e)
            if e > TOL:
                t.fail({"relation": "propagation_inverse", **cls0}, base, f"{where}: propagating by +d then -d (d = {RANGE_THICK[1]:g}, {RANGE_THICK[3]:g} A) changes the wave by {e:.3g} of its maximum")
        # pure-phase object: summed predicted intensity per pattern equals the probe intensity (6 slices, 2 modes)
        with library("compute_propagator_arrays/propagators"):
            pt.slice_thicknesses = RANGE_THICK
            pt.compute_propagator_arrays()
        want, amp_dev, out = forward_totals(pt, roi, S, 2, "pure_phase", seed)
        worst = max(float(np.abs(tot / want - 1).max()) if np.isfinite(tot).all() else float("inf") for _i, tot, _s in out)
        t.stat("range_forward_energy_rel_dev", worst)
        if amp_dev <= TOL and worst > TOL_FWD:
            t.fail({"relation": "pure_phase_conserves_intensity", **cls0, "multislice": True, "mixed": True}, base, f"{where}: summed predicted intensity / sum |probe|^2 deviates from 1 by {worst:.3g} (6 slices {RANGE_THICK} A, 2 modes)")
    t.sample({"kind": "range", "roi": list(roi), "energy": energy, "sampling": list(samp), "wavelength_times_kmax": round(lam * kmax, 4)}, cap=2)
    return t


# ----------------------------------------------------------------------------- I. histories on real Ptychography objects
# State can also hide in the reconstruction object and in class-level defaults: a flag computed once, a default dict handed out by reference.
# Alphabet of public steps on a real 2-slice pure-phase Ptychography instance (checks/_ptycho.py builder): reconstruct (0/1 iterations, reset
# False/True, constraints none / apply_fov_mask / identical_slices), `ptycho.constraints = ...`, change of the probe's mode count through
# every public route (num_probes setter + re-attaching the model; swapping in a fresh model), clone(), building a FRESH instance. After EVERY
# step the instance in force is judged by the operator identities: pure-phase summed predicted intensity == probe intensity (whenever no
# field-of-view mask is requested - a dict reference model tracks the requests, reset=True restores the object defaults), fourier_projection
# yields the measured amplitudes and is idempotent for the CURRENT mode count, patch scatter is the adjoint of patch extraction; a fresh
# instance built after any history predicts exactly what a fresh instance built first predicts; class/module-level containers are unchanged.
PT_PAYLOADS = {"afm": {"object": {"apply_fov_mask": True}}, "tie": {"object": {"identical_slices": True}}}


def pt_steps():
    st = [["recon", 0, r, p] for r in (False, True) for p in (None, "afm", "tie")]
    st += [["recon", 1, False, None], ["recon", 1, True, "afm"]]
    st += [["prop", "afm"], ["prop", "tie"]]
    st += [["modes", "reattach", 2], ["modes", "fresh_model", 2], ["modes", "fresh_model", 1], ["modes", "fresh_model", 3]]
    st += [["clone"], ["fresh"]]
    return st


def _pt_build(seed):
    from checks import _ptycho

    cfg = {"obj_type": "pure_phase", "slices": 2, "modes": 1, "roi": [8, 8], "scan": [2, 2], "pad": [4, 4]}
    P = _ptycho.build(cfg, np.random.default_rng([seed, 16, 12]))
    if P.degenerate or P.ptycho is None:
        raise Broken("pipeline builder returned a degenerate problem")
    return P.ptycho


def _pt_predict(pt):
    """Public forward chain on all patterns: (exit waves, predicted intensities, sum |probe|^2)."""
    torch = _torch()
    with torch.no_grad():
        idx = np.arange(int(pt.dset.num_gpts))
        pi, _pos, pf, dsc = pt.dset.forward(idx, pt.obj_padding_px)
        sp = pt.probe_model.forward(pf)
        op = pt.obj_model.forward(pi)
        _, ov = pt.forward_operator(op, sp, dsc)
        pred = pt.detector_model.forward(ov)
        want = float((pt.probe_model.probe.abs() ** 2).sum())
    return ov, pred, want


def _pt_apply(pt, step, seed):
    torch = _torch()
    k = step[0]
    if k == "recon":
        _, n, reset, p = step
        kw = {"num_iters": n, "reset": reset, "optimizer_params": {"object": {"type": "sgd", "lr": 0.05}, "probe": {"type": "sgd", "lr": 0.005}}}
        if p is not None:
            kw["constraints"] = {a: dict(b) for a, b in PT_PAYLOADS[p].items()}
        pt.reconstruct(**kw)
    elif k == "prop":
        pt.constraints = {a: dict(b) for a, b in PT_PAYLOADS[step[1]].items()}
    elif k == "modes":
        _, route, M = step
        if route == "reattach":  # grow the attached one-mode model through its public setters, then attach it again
            if int(pt.probe_model.probe.shape[0]) != 1:
                # Re-declaring the mode count of a model that already holds a multi-mode stack is not a supported route on the unchanged tree
                # (set_initial_probe tiles the existing stack: num_probes and the stack disagree, or a RuntimeError): counted, not judged.
                raise _RouteNotApplicable()
            pm = pt.probe_model
            pm.num_probes = M
            pm.initial_probe_weights = None
            pt.probe_model = pm
        else:
            from quantem.diffractive_imaging.probe_models import ProbePixelated

            rng = np.random.default_rng([seed, 16, 13, M])
            roi = tuple(int(v) for v in pt.roi_shape)
            prb = (rng.normal(size=(M, *roi)) + 1j * rng.normal(size=(M, *roi))).astype(np.complex64)
            pt.probe_model = ProbePixelated.from_array(prb, probe_params={"energy": 300e3}, rng=int(seed) + 61)
    elif k == "clone":
        return pt.clone()
    elif k == "fresh":
        return _pt_build(seed)
    return pt


class _RouteNotApplicable(Exception):
    pass


def _pt_expect(state, step, defaults):
    k = step[0]
    if k == "fresh":
        return dict(defaults)
    if k == "recon":
        if step[2]:
            state = dict(defaults)
        if step[3] is not None:
            state.update(PT_PAYLOADS[step[3]]["object"])
    elif k == "prop":
        state.update(PT_PAYLOADS[step[1]]["object"])
    return state


def _state_changes():
    """Names of the module/class-level containers whose contents differ from the start-up snapshot."""
    changed = []
    for name, obj, copy in _STATE["containers"]:
        try:
            same = repr(obj) == repr(copy)
        except Exception:
            same = True
        if not same:
            changed.append(name)
    return changed


def run_pt_history(t, steps, seed, fresh_ref=None):
    torch = _torch()
    from quantem.diffractive_imaging.ptycho_utils import sum_patches

    case = {"kind": "pt_history", "steps": [list(x) for x in steps]}
    where = "Ptychography history " + " ; ".join("/".join(str(v) for v in x) for x in steps)
    restore_module_state()
    try:
        pt = _pt_build(seed)
        defaults = dict(pt.constraints["object"])
        state = dict(defaults)
        nbad = 0
        for i, step in enumerate([["start"], *steps]):
            if i > 0:
                try:
                    pt = _pt_apply(pt, step, seed)
                except _RouteNotApplicable:
                    t.extra["pt_history_reattach_on_multimode_model_not_judged"] += 1
                    break
                state = _pt_expect(state, step, defaults)
            at = f"{where}: after step {i} ({'/'.join(str(v) for v in step)})"
            M = int(pt.num_probes)
            cls = {"last_step": step[0], "modes": M}
            ov, pred, want = _pt_predict(pt)
            if tuple(ov.shape[:1]) != (M,) or not bool(torch.isfinite(pred).all()):
                t.fail({"relation": "forward_chain_shape_finite", **cls}, case, f"{at} exit waves have shape {tuple(ov.shape)} for {M} mode(s) / non-finite prediction")
                break
            if step[0] in ("start", "fresh") and fresh_ref is not None:
                d = float((pred - fresh_ref).abs().max() / fresh_ref.abs().max())
                if d > 1e-6:
                    nbad += 1
                    t.fail({"relation": "fresh_instance_independent_of_history", "last_step": step[0]}, case, f"{at} a freshly built instance predicts intensities that differ from those of a fresh instance built first by {d:.3g} (object constraints {({k: v for k, v in pt.constraints['object'].items() if defaults.get(k) != v})})")
            if not state.get("apply_fov_mask") and not state.get("identical_slices"):  # both make |obj| != 1 by design (mask; mean of unit phasors)
                e = float((pred.sum(dim=(-2, -1)) / want - 1).abs().max())
                t.stat("pt_history_forward_energy_dev", e)
                if e > TOL_FWD:
                    nbad += 1
                    t.fail({"relation": "pure_phase_conserves_intensity", "multislice": True, "mixed": M > 1, "tilted": False, "in_history": True, "last_step": step[0]}, case, f"{at} summed predicted intensity / sum |probe|^2 deviates from 1 by {e:.3g} although no field-of-view mask is requested (object constraints in force: {({k: v for k, v in pt.constraints['object'].items() if defaults.get(k) != v})})")
            rng = np.random.default_rng([seed, 16, 14, i])
            A = torch.tensor(rng.random(tuple(ov.shape[1:])) + 0.1, dtype=torch.float32)
            A[:, ::2, ::3] = 0.0
            with torch.no_grad():
                x = ov * (1.0 / float(ov.abs().max()))
                P = pt.fourier_projection(A, x)
                got = torch.sqrt(pt.detector_model.forward(P))
                P2 = pt.fourier_projection(A, P)
            e1 = float((got - A).abs().max())
            e2 = float((P2 - P).abs().max())
            t.stat("pt_history_projection_dev", max(e1, e2))
            pc = {"roi_odd_axis": False, "modes": "single" if M == 1 else "mixed", "in_history": True, "last_step": step[0]}
            if e1 > TOL_PROJ * 5:  # exit waves of the real chain are complex64 and not unit-scaled per coefficient: observed 9e-7
                nbad += 1
                t.fail({"relation": "projection_yields_measured_amplitudes", **pc}, case, f"{at} with {M} probe mode(s): detector amplitude of the projected wave differs from the measured amplitude by {e1:.3g}")
            if e2 > TOL_PROJ * 5:
                nbad += 1
                t.fail({"relation": "projection_idempotent", **pc}, case, f"{at} with {M} probe mode(s): projecting twice changes the wave by {e2:.3g}")
            idx = pt.dset.patch_indices
            shape = tuple(int(v) for v in pt.obj_model.shape[-2:])
            xo = torch.tensor(rng.normal(size=shape) + 1j * rng.normal(size=shape))
            y = torch.tensor(rng.normal(size=tuple(idx.shape)) + 1j * rng.normal(size=tuple(idx.shape)))
            lhs = complex((xo.reshape(-1)[idx.long()].conj() * y).sum())
            rhs = complex((xo.conj() * sum_patches(y, idx, shape)).sum())
            if abs(lhs - rhs) / max(abs(lhs), 1e-30) > 1e-10:
                nbad += 1
                t.fail({"relation": "adjoint_inner_product", "repeated_indices": True, "in_history": True}, case, f"{at} <gather(x), y> = {lhs:.8g} but <x, sum_patches(y)> = {rhs:.8g}")
        changed = _state_changes()
        if changed:
            t.fail({"relation": "class_level_state_unchanged", "container": changed[0].split(".")[-1]}, case, f"{where}: class/module-level containers changed: {changed}")
    except Broken:
        raise
    except Exception as e:
        restore_module_state()
        t.case(key=case, nontrivial=True, outcome=["raised", type(e).__name__])
        t.fail({"relation": "library_raises", "stage": "Ptychography history", "exception": type(e).__name__}, case, f"{where}: {type(e).__name__}: {str(e)[:200]}")
        return
    restore_module_state()
    t.case(key=case, nontrivial=len(steps) > 0, outcome=[len(steps), nbad, int(pt.num_probes)])


def w_pt_history(item, seed=0, depth=3):
    torch = _torch()
    t = Tally()
    steps = pt_steps()
    restore_module_state()
    with library("building a Ptychography instance"):
        fresh_ref = _pt_predict(_pt_build(seed))[1].clone()
    if item < 0:
        run_pt_history(t, [], seed, fresh_ref)
        return t
    first = steps[item]
    run_pt_history(t, [first], seed, fresh_ref)
    for s2 in steps:
        run_pt_history(t, [first, s2], seed, fresh_ref)
    if depth >= 3:
        mids = steps[1::3] if depth == 3 else steps
        for s2 in mids:
            for s3 in steps:
                run_pt_history(t, [first, s2, s3], seed, fresh_ref)
    if depth >= 4:
        for s2 in steps[1::3]:
            for s3 in steps[2::5]:
                for s4 in steps:
                    run_pt_history(t, [first, s2, s3, s4], seed, fresh_ref)
    t.sample({"kind": "pt_history", "first_step": first, "depth": depth}, cap=2)
    return t


w_pt_history = guarded(w_pt_history)


# ----------------------------------------------------------------------------- driver
GEOMS = ["single_interior", "raster_interior", "raster_wrap", "repeated_patch", "tight_object", "object_smaller_than_roi", "library_raster"]


def run(ctx):
    warnings.simplefilter("ignore")
    q = ctx.quick
    snapshot_module_state()  # before this process has called anything in quantem
    ctx.assume(
        "Fourier translation, propagation and patch gather/scatter are linear in the data, so matrix identities on the full delta basis hold for every array of that shape (linearity itself is cross-checked on seeded stacks)",
        "continuous parameters stay on grids: integer shifts in [-3,3]^2 and a 1/4-pixel grid in [-1,1]^2 (thorough: [-4,4]^2 and 1/8 pixel); additivity pairs: every shift x the half-pixel grid plus six further vectors (thorough: every shift x the 121-vector quick alphabet); thicknesses {+-0.5, +-3, 20} A; tilts {0, (3,-2) mrad}; energies {80, 300 keV}",
        "non-positive slice thicknesses are rejected by the public setters; signed distances use the internal seam ProbeBase._compute_propagator_arrays (kernels installed through the public propagators setter) when it exists",
        "a size threshold inside an operator is only visible if the size alphabet straddles it: the scatter/gather pair is additionally run on index sets whose total patch-pixel count sits just below, at and just "
        "above 2^12, 2^14, 2^16 and 2^17 (flat index vectors 2^k-1, 2^k, 2^k+1 and raster sets of large patches with wrap-around and repeats), judged by exact hit counts and the inner-product identity, not by a delta basis; "
        "thresholds elsewhere (above 2^17 + 2^14 patch pixels, or in other operators) are not explored",
        "size corners of the index set: 1 patch (as a 2-D index array and as a 3-D array with a leading 1, which is what a batch or remainder batch of one hands over), 2 and 3 patches, on objects whose axes are shorter than, "
        "equal to and longer than the ROI independently per axis (ROI 4x4 and 3x5; thorough also 5x4 and 2x7); on a shorter axis one patch wraps onto itself and has repeated indices, which the property's quantifier includes "
        "(index sets with repeats and wrap-around). The analytic object gradient (ObjectPixelated.backward, unit probe, one slice) is only required to be a MULTIPLE of the scatter-add of the gradient patches; its normalisation is counted, not judged",
        "the measured amplitudes are detector-centred; the amplitude of the projected wave is read with the library's own DetectorPixelated.forward",
        "overlap arrays whose Fourier transform vanishes somewhere (zero, constant, hard-aperture waves) ARE in the single-mode projection alphabet: there the library keeps angle(0) = 0 (or the round-off phase) and the "
        "result has exactly the measured amplitudes. For two or more modes they stay outside: the direction in mode space that should carry the measured amplitude is undefined where every mode's coefficient "
        "vanishes, and the mixed-state formula measured/|F+eps|*F returns 0 (or round-off-dependent values) there on the unchanged tree, so no exact statement exists to demand",
        "pure-phase intensity conservation presupposes |obj| = 1, i.e. no field-of-view mask applied (C10 known finding)",
        "tolerances: 1e-5 for the linear-operator identities (phase ramps and propagators are complex64 even for complex128 data), 3e-5 for the complex64 forward chain, 2e-5 for the projection",
        "weak exit waves (scales 1e-2, 1e-3, 1e-4 with measured amplitudes of the same scale) are judged relative to the signal scale; for mixed states the tolerance is max(2e-5, 2e-7/scale) because the "
        "library perturbs every Fourier coefficient by eps = 1e-9 (measured on the unchanged tree: 7.7e-9/scale, so the margin is 21-26x at every scale); scales below 1e-4 are not explored",
        "call histories: the module-level and class-level containers and lru_caches of every loaded quantem module are put back to their start-up contents before each history (importlib.reload of the model "
        "modules would break isinstance relations between them); histories are bounded at two (thorough: three) calls of a 27-call alphabet built to collide on coarse cache keys (equal axis lengths with "
        "different samplings, equal shapes with different data); in the history part the propagator kernel IS judged against the closed-form Fresnel kernel (1e-4), because a propagator built with another "
        "model's sampling still satisfies every group identity",
        "argument spellings: the canonical spelling of a shift is a contiguous float32 (N,2) tensor/array with complex128 data; every other accepted spelling must agree with it within 3e-5 of the maximum "
        "(32x the 9.3e-7 measured on the unchanged tree; float16 positions holding values that float16 rounds: 4e-2, 23x the measured 1.75e-3); a spelling the library rejects (Python lists/tuples, positions of shape (2,), NumPy data with "
        "torch positions on the unchanged tree) is counted per spelling class (count_rejected_*), never flagged, so a change that turns an accepted spelling into an exception shows only in those counters",
        "real-valued data arrays (float32/float64) are outside the quantifier ('for all complex arrays/probe stacks'; every library caller passes complex probes): they are run and compared with the real part of the complex result, "
        "but only counted (count_observed_real_array_differs_from_real_part_of_complex_result). On the unchanged tree fourier_shift_expand casts the complex phase ramp to the real dtype of the data, so a real array comes back essentially untranslated (deviation 0.8-0.9 of the maximum)",
        "parameter range: energies 0.5 keV..1 MeV x samplings 0.05..3 A (isotropic and anisotropic) x thicknesses 1e-3..1e5 A x tilts {0, (3,-2), (150,-80) mrad} are all inside the quantifier; unit modulus, "
        "+d/-d, chain intensity and pure-phase intensity are judged at the ordinary tolerances everywhere (the unchanged tree meets them on the whole grid, no zero or NaN anywhere); additivity depends on the "
        "float32 phase and is judged at 1e-5 + 25*eps32*phase_max (21x the measured worst), not judged where that bound exceeds 0.5 (count_range_additivity_not_judged_phase_beyond_float32)",
        "histories on real Ptychography objects: a request for object constraints holds from the step that makes it; reconstruct(reset=True) restores the object defaults before the request of the same call; "
        "pure-phase intensity conservation is judged whenever that reference model says neither a field-of-view mask nor slice tying is requested (both make |obj| != 1 by design: C10 known finding / mean of unit phasors); "
        "re-declaring the mode count of a model that already holds a multi-mode stack (num_probes setter + re-attach) is not judged: on the unchanged tree num_probes and the stack then disagree or a RuntimeError is raised (counted); histories are bounded at 3 "
        "(thorough: 4) steps of an 18-step alphabet, longer ones with reduced middle alphabets; class/module-level containers are compared with their start-up contents by repr",
        "the closed-form Fresnel kernel is compared for information only (max_fresnel_kernel_dev), kernel values are the subject of C02",
    )

    def once():
        t = Tally()
        try:
            judge_shift(t, (7, 10), "torch", "float32", (0.25, -0.5), [(1.0, 2.0), (-0.75, 0.5)], ctx.seed)
        except LibraryRaised as e:  # judged (as a failure) by the guarded workers below, not here
            t.extra["selftest_library_raised_" + e.name] += 1
        t.merge(w_proj(((8, 5), 2), seed=ctx.seed, nseeded=1))
        t.merge(w_forward(((7, 10), 3, 2, "pure_phase", 80e3, (3.0, -2.0)), seed=ctx.seed))
        return (t.n, sorted(t.outcomes), t.nfails, sorted(t.maxima.items()), sorted(t.extra.items()))

    ctx.selftest(once)
    shifts = all_shifts(q)
    impls = [("torch", "float32"), ("torch", "float64"), ("numpy", "float64")]
    ctx.coverage["alphabet"] = {
        "roi": [list(r) for r in ROIS],
        "shifts": {"integer_pairs": "[-3,3]^2" if q else "[-4,4]^2", "sub_pixel_grid": "step 1/4 in [-1,1]^2" if q else "step 1/8 in [-1,1]^2", "count": len(shifts)},
        "shift_pairs": f"every shift x {len(partner_shifts(q))} partners" + ("" if q else " (contains all ordered pairs of the quick alphabet)"),
        "shift_implementations": [list(i) for i in impls],
        "thicknesses_A": THICK,
        "tilts_mrad": [list(x) for x in TILTS],
        "energies_eV": ENERGIES,
        "index_geometries": GEOMS,
        "slices": [1, 2, 3, 4],
        "modes": [1, 2, 3],
        "pure_phase_object_types": ["pure_phase", "potential"],
        "measured_amplitudes": AMP_KINDS,
        "projection_overlaps": {"all mode counts": ["dense seeded"], "single mode only": OVERLAP_KINDS_DEGENERATE},
    }
    items = [(roi, impl, pd, ai) for roi in ROIS for impl, pd in impls for ai in range(len(shifts))]
    ctx.pmap(w_shift, items, label="Fourier translation (full basis)", seed=ctx.seed, quick=q)
    rois2 = ROIS if q else ROIS + ROIS_EXTRA
    ctx.coverage["alphabet"]["roi_other_parts"] = [list(r) for r in rois2]
    ctx.pmap(w_adjoint, list(itertools.product(rois2, GEOMS)), chunk=1, label="gather/scatter adjoint (full bases)", seed=ctx.seed)
    specs = large_specs()
    ctx.coverage["alphabet"]["adjoint_size_dimension"] = [{"name": sp["name"], "patch_pixels": int(large_indices(sp).size), "objshape": sp["objshape"]} for sp in specs]
    ctx.pmap(w_adjoint_large, specs, chunk=1, label="gather/scatter adjoint (sizes around 2^12..2^17)", seed=ctx.seed)
    crois = CORNER_ROIS if q else CORNER_ROIS + CORNER_ROIS_EXTRA
    ctx.coverage["alphabet"]["adjoint_size_corners"] = {
        "roi": [list(r) for r in crois],
        "object_axis_lengths_for_roi_length_n": "{1, 2, n-1, n, n+1, 2n+1} on each axis separately",
        "objects_per_roi": {f"{r[0]}x{r[1]}": [list(o) for o in corner_objects(r)] for r in crois},
        "patches": CORNER_PATCH_KINDS,
        "origin_sets": "single patch at (0,0) / (1,2) / (H-1,W-1); two patches at two different origins / the same origin twice; three patches",
        "patch_dtypes": ["float64", "complex128", "float32", "complex64"],
        "entry_points": CORNER_ENTRIES,
    }
    before = ctx.tally.n
    ctx.pmap(w_adjoint_corner, [(r, o) for r in crois for o in corner_objects(r)], chunk=2, label="gather/scatter adjoint (size corners: patch count x object smaller/equal/larger than the ROI)", seed=ctx.seed)
    ctx.coverage["adjoint_size_corner_index_sets"] = ctx.tally.n - before
    if not ctx.tally.extra.get("corner_sets_single_patch_with_repeated_indices"):
        raise Broken("no single-patch index set with repeated indices was enumerated: the size-corner alphabet is degenerate")
    ctx.pmap(w_prop, list(itertools.product(rois2, ENERGIES, TILTS)), chunk=1, label="propagation (full basis)", seed=ctx.seed)
    et = list(itertools.product(ENERGIES, TILTS))
    ctx.coverage["alphabet"]["forward_energy_tilt"] = [[e, list(x)] for e, x in et]
    fitems = [(roi, S, M, ot, e, x) for roi in rois2 for S in (1, 2, 3, 4) for M in (1, 2, 3) for ot in ("pure_phase", "potential") for e, x in et]
    ctx.pmap(w_forward, fitems, chunk=2, label="pure-phase intensity conservation", seed=ctx.seed)
    ctx.pmap(w_proj, list(itertools.product(rois2, [1, 2, 3])), chunk=1, label="Fourier projection", seed=ctx.seed, nseeded=2 if q else 6)
    rg_rois = [(7, 10), (8, 8)] if q else ROIS + ROIS_EXTRA + [(12, 16)]
    ctx.coverage["alphabet"]["parameter_range"] = {
        "roi": [list(r) for r in rg_rois],
        "energies_eV": RANGE_ENERGIES,
        "samplings_A": [list(x) for x in RANGE_SAMPLINGS],
        "thicknesses_A": RANGE_THICK,
        "tilts_mrad": [list(x) for x in RANGE_TILTS],
        "additivity_bound": "1e-5 + 25 * eps32 * phase_max; not judged where it exceeds 0.5",
    }
    before = ctx.tally.n
    ctx.pmap(w_range, list(itertools.product(rg_rois, RANGE_ENERGIES, RANGE_SAMPLINGS)), chunk=2, label="propagation identities over the parameter range", seed=ctx.seed)
    ctx.coverage["parameter_range_points"] = ctx.tally.n - before
    sp_rois = [(7, 10), (6, 6)] if q else ROIS + ROIS_EXTRA
    ctx.coverage["alphabet"]["spellings"] = {
        "roi": [list(r) for r in sp_rois],
        "position_dtypes": POS_DTYPES,
        "position_containers": ["tensor", "ndarray", "list", "tuple", "other array library than the data"],
        "position_shapes": ["(N,2)", "(1,2)", "(2,)"],
        "position_layouts": ["contiguous", "transposed", "strided", "expanded", "requires_grad"],
        "array_dtypes": ["complex64", "complex128", "float32", "float64"],
        "array_layouts": ["contiguous", "transposed view", "2-D", "4-D"],
        "entry_points": ["fourier_shift_expand", "fourier_translation_operator", "ProbePixelated.forward", "forward_operator descan"],
        "value_sets": VALUE_SETS,
        "spellings_per_roi": {impl: len(spellings(impl, q)) for impl in ("torch", "numpy")},
    }
    before = ctx.tally.n
    ctx.pmap(w_spelling, list(itertools.product(sp_rois, ["torch", "numpy"])), chunk=1, label="argument spellings of the shifting entry points", seed=ctx.seed, quick=q)
    ctx.coverage["spellings"] = ctx.tally.n - before
    psteps = pt_steps()
    ctx.coverage["alphabet"]["ptychography_histories"] = {"steps": psteps, "depth": 3 if q else 4, "middle_steps_quick": psteps[1::3], "problem": "2-slice pure-phase, starts with 1 probe mode, roi 8x8, 2x2 scan (checks/_ptycho.py)"}
    before = ctx.tally.n
    ctx.pmap(w_pt_history, list(range(-1, len(psteps))), chunk=1, label="histories on real Ptychography objects", seed=ctx.seed, depth=3 if q else 4)
    ctx.coverage["ptychography_histories"] = ctx.tally.n - before
    calls = call_alphabet()
    ctx.coverage["alphabet"]["call_histories"] = {
        "calls": calls,
        "depth": 2 if q else 3,
        "middle_calls_of_triples": calls[1::4],
        "samplings_A": [list(x) for x in HIST_SAMPLINGS],
        "state_restored_before_each_history": [n for n, _o, _c in _STATE["containers"]] + [n for n, _f in _STATE["caches"]],
    }
    before = ctx.tally.n
    ctx.pmap(w_call_history, list(range(len(calls))), chunk=1, label="call histories (every ordered pair" + ("" if q else " and triple") + ")", seed=ctx.seed, depth=2 if q else 3)
    ctx.coverage["call_histories"] = ctx.tally.n - before
    ex = ctx.tally.extra
    for name in ("seam_missing__compute_propagator_arrays", "seam_missing__get_obj_patches"):
        if ex.get(name):
            ctx.seam_missing.append(name.replace("seam_missing_", ""))
    if ex.get("forward_points_with_non_unit_object"):
        raise Broken("forward-chain points were built with a non-unit object: the builder is wrong")
    if len(ctx.tally.outcomes) < 50:
        raise Broken("too few distinct outcomes: the lattice did not vary")


def replay(ctx, case):
    warnings.simplefilter("ignore")
    snapshot_module_state()
    t = Tally()
    k = case["kind"]
    seed = ctx.seed
    if k == "pt_history":
        fresh_ref = _pt_predict(_pt_build(seed))[1].clone()
        run_pt_history(t, [list(x) for x in case["steps"]], seed, fresh_ref)
    elif k == "range":
        t = w_range((case["roi"], case["energy"], case["sampling"]), seed=seed)
        keep = [f for f in t.fails if f["case"].get("tilt") == case.get("tilt")]
        t.fails = keep or t.fails
    elif k == "spelling":
        judge_spelling(t, tuple(case["roi"]), case["spelling"], seed)
    elif k == "call_history":
        hist = case["history"]
        alone, failed = run_call_history(Tally(), [hist[-1]], seed) if len(hist) > 1 else (None, ())
        run_call_history(t, hist, seed, alone, failed)
    elif k == "shift":
        judge_shift(t, tuple(case["roi"]), case["impl"], case["pos_dtype"], tuple(case["a"]), [tuple(case["b"])] if "b" in case else [], seed)
    elif k == "shift_stack":
        judge_shift_stack(t, tuple(case["roi"]), case["impl"], case["pos_dtype"], case["dtype"], seed)
    elif k == "adjoint":
        t = w_adjoint((case["roi"], case["geometry"]), seed=seed)
    elif k == "adjoint_large":
        judge_adjoint_large(t, case["spec"], seed)
    elif k == "adjoint_corner":
        judge_adjoint_corner(t, case["roi"], case["objshape"], case["patches"], case["origins"], seed)
    elif k == "prop":
        t = w_prop((case["roi"], case["energy"], case["tilt"]), seed=seed)
        keep = [f for f in t.fails if f["case"].get("a") == case.get("a") and f["case"].get("b") == case.get("b") and f["case"].get("part") == case.get("part")]
        t.fails = keep or t.fails
    elif k == "forward":
        t = w_forward((case["roi"], case["S"], case["M"], case["obj_type"], case["energy"], case["tilt"]), seed=seed)
    elif k == "raises":
        t = globals()[case["worker"]](case["item"], seed=seed, **case.get("kw", {}))
    elif k == "projection":
        roi = tuple(case["roi"])
        pt = build(roi, 1, case["M"], "complex", 80e3, (0.0, 0.0), seed)
        judge_projection(t, pt, roi, case["M"], case["amplitudes"], case["scale"], case["dtype"], case["k"], seed, case.get("overlap", "dense"))
    for f in t.fails:
        print("  ", f["msg"])
        ctx.fail(f["cls"], f["case"], f["msg"])
