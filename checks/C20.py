"""C20 — display normalisation is a monotone map into [0, 1] with invertible stretches.

Shape L (configuration lattice), level exploration: the full Cartesian product

    data alphabet  (dtype x contents x decoration x shape)
  x mode           (limits frozen from `data=` at construction | limits taken at call time)
  x interval       (quantile pairs on a grid | manual limits placed relative to the data range |
                    centred with/without half_range; limit arguments as Python float and as Python int)
  x stretch        (linear, power, logarithmic, asinh with their parameters)

plus EVERY named preset (through the library's own resolve function) on the whole data alphabet,
the other forms the resolve function accepts, the public `show_2d` path for every preset, the
stretch/inverse identities on a 101-point grid, and a call-HISTORY part: every sequence of 2 (thorough 3) arrays with
clearly different ranges pushed through ONE object per configuration, each call compared with a fresh object; and a
SIZE x PEDESTAL family: element counts straddling 2**16 / 2**20 / 2**22 with small-spread data on large offsets.

Every point runs the real `CustomNormalization(...)(data)`. Oracles (none of them re-implements a
stretch formula):
  * finite entries come back unmasked and inside [0, 1];
  * all ordered pairs of finite entries: a_i <= a_j  =>  out_i <= out_j;
  * the interval's limits (computed independently in exact rational arithmetic from the documented
    definition: data min/max, linear-interpolation quantiles, vcenter +- half range) are the limits the
    object reports, every entry <= lower limit maps to 0, every entry >= upper limit maps to 1, and the
    reported limits themselves map to 0 and 1;
  * with the linear stretch the output is the interval's affine map lo -> 0, hi -> 1, clipped (exact rationals);
  * NaN positions are masked;
  * stretch(inverse(y)) == y and inverse(stretch(y)) == y on linspace(0, 1, 101).

Quantifier: "at least two distinct finite values" is guaranteed by the data builder (Broken otherwise);
a configuration whose *defined* limits are not lower < upper (e.g. quantiles (0.5, 0.5) on two values,
vmin above the data maximum) has no "lower and upper limit"; such points are still executed and must
stay inside [0, 1] with NaNs masked, but monotonicity / limits are not demanded of them and they are
counted as trivial.
"""
from __future__ import annotations

import dataclasses
import itertools
import math
import warnings
from fractions import Fraction

import numpy as np

from mc.harness import Broken, Tally

LEVEL = "exploration"
TECHNIQUE = "full Cartesian lattice (data alphabet x limit mode x interval x stretch, every preset) on the real CustomNormalization, pairwise monotonicity and exact-rational limit oracles; all call histories up to depth 2/3 on one object against fresh objects"
CLAIM = (
    "For every point of the stated lattice (6 dtypes x 4 contents x NaN/inf decorations x 2 shapes x 2 limit modes x "
    "56 (quick) or 89 (thorough) interval configurations x 10 stretches, every named preset and every form the resolve function accepts, and every "
    "preset through the public show_2d) the real normalisation keeps finite data unmasked inside [0,1], is non-decreasing "
    "over all ordered pairs of finite entries, reports the limits the configuration defines and sends them to 0 and 1, "
    "and masks every NaN; every stretch composed with its declared inverse is the identity on a 101-point grid. "
    "Every history of 2 (quick) or 3 (thorough) calls of ONE object on arrays with different ranges returns, call by call, what a fresh object returns "
    "(limits taken at call time follow the array of the call, limits frozen from data= stay frozen, process-wide default instances included). "
    "Every numeric argument (limits, centre, half range, quantiles, stretch parameters) spelled as NumPy scalars of every integer width / float precision, 0-d arrays and torch scalars "
    "is either rejected or behaves like the Python number, through CustomNormalization with and without data= and through show_2d. "
    "The same image scaled by 2**-997 ... 2**997 (float64; representable subsets in float32 / float16), with and without a pedestal, gives the result of scale 1; "
    "the same numbers in masked arrays, matrices, lists, torch tensors and unusual layouts give the result of the plain ndarray with masks preserved. "
    "A size x pedestal family (element counts just below / at / just above 2**16, 2**20 and, thorough, 2**22; int32/int64/float64 data of small spread on "
    "pedestals up to 2**40 / 1e9) repeats the clauses on whole large arrays, so a behaviour that switches on the array size or loses the offset is seen. "
    "A data-CONTENT family (arrays holding exactly two distinct values for the pairs 0/1, 0/2, -1/1, 0/255, 1/2, 0/2**-100, alternating and as one pixel in a constant image; "
    "0/1 data with one NaN, inf or further value; integer values in float dtypes; sorted, reversed, repeated and constant rows; every int/float dtype of the lattice that holds the values) "
    "is crossed with every interval and stretch configuration of the lattice plus limits placed ON data values (vmin = minimum, vmax = maximum, centre +- half range = data range), "
    "both limit modes, every preset and resolve form and show_2d, so a shortcut that keys on what the numbers are and overrides the configured interval is seen; bool-dtype arrays are executed and counted only. "
    "Exploration is the right level: the property quantifies over configurations and data kinds, not over histories."
)
NOTE = (
    "Trusted: the exact-rational limit oracle in checks/C20.py (type-7 linear-interpolation quantiles, min/max, vcenter +- half range) "
    "and the pairwise order test. Data values are an alphabet (float ramps span +-1e3, not the float range); "
    "configurations whose defined limits are not lower < upper are executed but only range and masking are demanded."
)
RULE = (
    "Cartesian product of the data, mode, interval and stretch alphabets (simplest first) plus all presets; one evaluation = one "
    "CustomNormalization built and called on one array. A point is non-trivial when its defined limits satisfy lower < upper "
    "and the finite entries land on at least two distinct output values; distinct outcomes = distinct (output, mask) records. "
    "History part: every sequence of 2/3 arrays from a 5-member alphabet per configuration on one object; non-trivial when the sequence holds two different arrays. "
    "Content family: Cartesian product content member x dtype x mode x (lattice intervals + limits on data values) x stretch, judged and counted like lattice points; bool-dtype points are never non-trivial."
)

# ----------------------------------------------------------------------------- tolerances
# Worst deviations observed on the unchanged tree over seeds {0,1,2,7,12345}, both tiers (measured with `measure()` run
# serially over the whole lattice):
#   range      (finite output outside [0,1])      : 0.0 for every dtype
#   monotone   (out_i - out_j for a_i <= a_j)     : 0.0 for every dtype
#   limits     (reported vs exact, relative)      : 6.8e-16 float64 / ints, 1.7e-7 float32
#   limit->0/1 (|out - 0|, |out - 1|)             : 6.7e-16 float64 / ints, 1.8e-6 float32 data
#   stretch o inverse on the 101-grid             : 8.9e-16
# Smallest mutant effects: clip-before-subtract 2e-2, asinh inverse 0.17, nan_to_num: mask (exact), integer wrap-around 0.17,
# log divided by log(a+2) 1.4e-4 at a=1000 (0.37 at a=1).  Tolerances sit >= 20x above the former and <= 1/20 of the latter
# (the float32 tolerance is 1/3 of the a=1000 log mutant, whose a=1 twin is 4 orders larger and decides).
TOL64 = 1e-9
TOL32 = 5e-5
TOL_INV = 1e-9

# ----------------------------------------------------------------------------- alphabets
DTYPES = ["uint8", "int8", "int16", "int64", "float32", "float64"]
CONTENTS = ["two", "ramp", "dups", "seeded"]
DECOR = ["none", "nan", "+inf", "-inf", "all"]
SHAPES = [(5,), (3, 4)]
MODES = ["frozen", "lazy"]

Q_LOW = [0, 0.02, 0.25, 0.5]
Q_HIGH = [0.5, 0.75, 0.98, 1]
Q_LOW_T = [0, 0.01, 0.02, 0.1, 0.25, 0.4, 0.5]
Q_HIGH_T = [0.5, 0.6, 0.75, 0.9, 0.98, 0.99, 1]

STRETCHES = [
    ("linear", {}),
    ("power", {"power": 0.25}),
    ("power", {"power": 0.5}),
    ("power", {"power": 2.0}),
    ("power", {"power": 3.0}),
    ("logarithmic", {"logarithmic_index": 1.0}),
    ("logarithmic", {"logarithmic_index": 1000.0}),
    ("asinh", {"asinh_linear_range": 0.01}),
    ("asinh", {"asinh_linear_range": 0.1}),
    ("asinh", {"asinh_linear_range": 1.0}),
]


def interval_specs(quick):
    """Symbolic interval descriptors; positions are relative to the finite data range [m, M], S = M - m:
    below = m - S/4, q1 = m + S/4, mid = m + S/3, q3 = m + 3S/4, above = M + S/4."""
    out = []
    lows, highs = (Q_LOW, Q_HIGH) if quick else (Q_LOW_T, Q_HIGH_T)
    for lo, hi in itertools.product(lows, highs):
        out.append({"type": "quantile", "lower": lo, "upper": hi})
    out.append({"type": "quantile", "lower": 0.0, "upper": 1.0})  # float spelling of (0, 1)
    out.append({"type": "manual", "vmin": None, "vmax": None, "arg": "none"})
    for arg in ("float", "int"):
        for vmin, vmax in [
            ("below", None), ("q1", None), (None, "q3"), (None, "above"),
            ("q1", "q3"), ("below", "above"), ("below", "q3"), ("q1", "above"),
            ("above", None), ("q3", "q1"),  # the last two define no proper interval
        ]:
            out.append({"type": "manual", "vmin": vmin, "vmax": vmax, "arg": arg})
    for arg in ("float", "int"):
        for vc in ("zero", "mid", "above"):
            for hr in (None, "half", "double"):
                out.append({"type": "centered", "vcenter": vc, "half_range": hr, "arg": arg})
    return out


def data_descriptors(quick):
    out = []
    for dt in DTYPES:
        isf = dt.startswith("float")
        for content in CONTENTS:
            ks = [0] if (quick or content != "seeded") else [0, 1, 2, 3]
            for k in ks:
                for dec in DECOR if isf else ["none"]:
                    for shape in SHAPES:
                        out.append({"dtype": dt, "content": content, "decor": dec, "shape": list(shape), "k": k})
    return out


# ----------------------------------------------------------------------------- data builder
def build_data(d, seed):
    if d.get("family") == "content":
        return build_content(d)
    dt = np.dtype(d["dtype"])
    n = int(np.prod(d["shape"]))
    isf = dt.kind == "f"
    if not isf:
        info = np.iinfo(dt)
        lo, hi = int(info.min), int(info.max)
    c = d["content"]
    if c == "two":
        # integers: the two values are 3/4 of the dtype's range apart, i.e. further than the dtype's maximum for signed types
        v0, v1 = (-3.5, 7.25) if isf else (lo + (hi - lo) // 8, hi - (hi - lo) // 8)
        vals = [v0 if i % 2 == 0 else v1 for i in range(n)]
    elif c == "ramp":
        if isf:
            ramp = [float(x) for x in np.linspace(-1e3, 1e3, n)]
        else:  # exact integer arithmetic: the ramp really touches both ends of the dtype's range
            ramp = [lo + (k * (hi - lo)) // (n - 1) for k in range(n)]
        vals = [ramp[(i * 7) % n] for i in range(n)]  # 7 is coprime with 5 and 12: a fixed non-sorted order
    elif c == "dups":
        vals = [1, 1, 2, 2, 3, 50, 50, 7, 7, 7, 20, 20][:n]
    elif c == "seeded":
        rng = np.random.default_rng([seed, 20, DTYPES.index(d["dtype"]), n, int(d.get("k", 0))])
        if isf:
            vals = [float(x) for x in np.round(rng.standard_normal(n) * 100.0, 3)]
        else:
            vals = [int(x) for x in rng.integers(lo, hi, size=n, endpoint=True, dtype=np.int64)]
    else:
        raise ValueError(c)
    a = np.array(vals, dtype=dt)
    dec = d["decor"]
    if dec != "none":
        if not isf:
            raise ValueError("decorations are for float dtypes")
        if dec in ("nan", "all"):
            a[1] = np.nan
        if dec in ("+inf", "all"):
            a[2] = np.inf
        if dec in ("-inf", "all"):
            a[4] = -np.inf
    fin = a[np.isfinite(a)] if isf else a
    if len(set(fin.tolist())) < 2:
        if c == "seeded":  # cannot happen for the seeds in use; keep the quantifier honest for any seed
            idx = [i for i in range(n) if np.isfinite(a[i])] if isf else list(range(n))
            a[idx[0]] = a[idx[-1]] + 1
        else:
            raise Broken(f"data alphabet member {d} has fewer than two distinct finite values")
    return a.reshape(d["shape"])


def exact(x):
    if isinstance(x, (bool, np.bool_)):
        raise TypeError
    if isinstance(x, (int, np.integer)):
        return Fraction(int(x))
    return Fraction(float(x))


def finite_exact(a):
    """[(flat index, exact value)] of the finite entries."""
    flat = a.ravel()
    if flat.dtype.kind == "f":
        return [(i, Fraction(float(v))) for i, v in enumerate(flat.tolist()) if math.isfinite(v)]
    return [(i, Fraction(int(v))) for i, v in enumerate(flat.tolist())]


# ----------------------------------------------------------------------------- configuration -> concrete kwargs
def _position(name, m, M, arg):
    S = M - m
    p = {
        "below": m - S / 4,
        "q1": m + S / 4,
        "mid": m + S / 3,
        "q3": m + 3 * S / 4,
        "above": M + S / 4,
        "zero": Fraction(0),
        "half": S / 2,
        "double": 2 * S,
        "min": m,  # content family: configured limits that coincide with data values
        "max": M,
        "centre": m + S / 2,
    }[name]
    if arg == "int":
        return int(math.floor(p))
    return float(p)


def concrete_kwargs(spec, stretch, fin):
    """Keyword arguments for CustomNormalization from a symbolic interval spec and a stretch."""
    vals = [v for _, v in fin]
    m, M = min(vals), max(vals)
    t = spec["type"]
    kw = {"interval_type": t, "stretch_type": stretch[0]}
    kw.update(stretch[1])
    if t == "quantile":
        kw["lower_quantile"] = spec["lower"]
        kw["upper_quantile"] = spec["upper"]
    elif t == "manual":
        if spec["vmin"] is not None:
            kw["vmin"] = _position(spec["vmin"], m, M, spec["arg"])
        if spec["vmax"] is not None:
            kw["vmax"] = _position(spec["vmax"], m, M, spec["arg"])
    elif t == "centered":
        if spec["vcenter"] == "zero" and spec["arg"] == "float":
            pass  # the library default (0.0)
        else:
            kw["vcenter"] = _position(spec["vcenter"], m, M, spec["arg"])
        if spec["half_range"] is not None:
            kw["half_range"] = _position(spec["half_range"], m, M, spec["arg"])
    else:
        raise ValueError(t)
    return kw


def interval_label(kw):
    t = kw.get("interval_type", "quantile")
    if t == "manual":
        which = ("vmin" if kw.get("vmin") is not None else "") + ("vmax" if kw.get("vmax") is not None else "")
        return "manual:" + (which or "auto")
    if t == "centered":
        return "centered:" + ("half_range" if kw.get("half_range") is not None else "auto")
    return t


def arg_type(kw):
    """Python type of the limit-defining arguments of this interval type: 'int' if any is an int, 'float' if all
    given ones are floats, 'none' if the limits come from the data alone."""
    rel = {"manual": ("vmin", "vmax"), "centered": ("vcenter", "half_range"), "quantile": ("lower_quantile", "upper_quantile")}
    t = kw.get("interval_type", "quantile")
    ks = [kw[k] for k in rel.get(t, ()) if kw.get(k) is not None]
    if not ks:
        return "none"
    return "int" if any(isinstance(v, int) for v in ks) else "float"


# ----------------------------------------------------------------------------- the limit oracle (exact rationals)
def expected_limits(kw, fin):
    vals = sorted(v for _, v in fin)
    m, M = vals[0], vals[-1]
    t = kw.get("interval_type", "quantile")
    if t == "manual":
        lo = exact(kw["vmin"]) if kw.get("vmin") is not None else m
        hi = exact(kw["vmax"]) if kw.get("vmax") is not None else M
        return lo, hi
    if t == "centered":
        c = exact(kw.get("vcenter", 0.0))
        if kw.get("half_range") is not None:
            h = exact(kw["half_range"])
        else:
            h = max(abs(m - c), abs(M - c))
        return c - h, c + h
    if t == "quantile":
        n = len(vals)

        def q(p):
            pos = exact(p) * (n - 1)
            i = int(math.floor(pos))
            if i >= n - 1:
                return vals[n - 1]
            return vals[i] + (pos - i) * (vals[i + 1] - vals[i])

        return q(kw.get("lower_quantile", 0.02)), q(kw.get("upper_quantile", 0.98))
    raise ValueError(t)


# ----------------------------------------------------------------------------- one execution + measurements
def _lib():
    from quantem.core.visualization import custom_normalizations as cn

    return cn


def observe(a, mode, kw):
    """Run the real normalisation. Returns a dict of raw observations (no verdicts)."""
    cn = _lib()
    obs = {}
    with warnings.catch_warnings():
        warnings.simplefilter("ignore")
        try:
            with np.errstate(all="ignore"):
                norm = cn.CustomNormalization(data=a.copy() if mode == "frozen" else None, **kw)
                out = norm(a.copy())
                if mode == "frozen":
                    rep = (norm.vmin, norm.vmax)
                else:
                    itv = getattr(norm, "interval", None)
                    rep = itv.get_limits(a.copy()) if itv is not None and hasattr(itv, "get_limits") else None
                obs["rep"] = None if rep is None or rep[0] is None or rep[1] is None else (float(rep[0]), float(rep[1]))
                fixed = mode == "frozen" or (
                    kw.get("interval_type") == "manual" and kw.get("vmin") is not None and kw.get("vmax") is not None
                ) or (kw.get("interval_type") == "centered" and kw.get("half_range") is not None)
                if fixed and obs["rep"] is not None:
                    lim = norm(np.array(obs["rep"], dtype=np.float64))
                    obs["lim_out"] = [float(x) for x in np.ma.getdata(lim).ravel()]
                    obs["lim_mask"] = [bool(x) for x in np.ma.getmaskarray(lim).ravel()]
        except Exception as e:  # an exception on a legal configuration is an observation, judged below
            obs["exc"] = f"{type(e).__name__}: {e}"
            return obs
    obs["shape"] = tuple(np.shape(out))
    obs["data"] = np.ma.getdata(out).astype(np.float64).ravel()
    obs["mask"] = np.ma.getmaskarray(out).ravel().copy()
    obs["is_ma"] = isinstance(out, np.ma.MaskedArray)
    return obs


def measure(a, mode, kw, fin=None, obs=None, tol=None):
    """Observations + deviations from each relation. Returns (obs, dev, problems) where problems is a list of
    (relation, message) judged with the module tolerances. `obs` may be a ready-made observation (history part)."""
    fin = fin if fin is not None else finite_exact(a)
    tol = (TOL32 if a.dtype == np.float32 else TOL64) if tol is None else tol
    obs = observe(a, mode, kw) if obs is None else obs
    probs = []
    if "exc" in obs:
        probs.append(("raises", f"raised {obs['exc']}; a normalised array was expected"))
        return obs, {"proper": False}, probs
    lo_e, hi_e = expected_limits(kw, fin)
    proper = lo_e < hi_e
    dev = {"proper": proper}
    flat = a.ravel()
    n = flat.size
    if obs["shape"] != a.shape:
        probs.append(("shape", f"output shape {obs['shape']} != input shape {a.shape}"))
        return obs, dev, probs
    o, msk = obs["data"], obs["mask"]
    idx = [i for i, _ in fin]
    # --- NaN positions are masked
    if flat.dtype.kind == "f":
        nanpos = [i for i in range(n) if math.isnan(float(flat[i]))]
        bad = [i for i in nanpos if not msk[i]]
        if bad:
            probs.append(("nan_masked", f"NaN at flat index {bad[0]} came back unmasked with value {o[bad[0]]!r} (mask {msk.tolist()})"))
    # --- finite entries unmasked and inside [0,1]
    badm = [i for i in idx if msk[i]]
    if badm:
        probs.append(("finite_unmasked", f"finite entry {flat[badm[0]]!r} at flat index {badm[0]} came back masked"))
    of = np.array([o[i] for i in idx])
    okf = np.array([not msk[i] for i in idx])
    with np.errstate(all="ignore"):
        rdev = float(np.nanmax(np.maximum(-of, of - 1.0))) if len(of) else 0.0
    if np.isnan(of[okf]).any():
        rdev = float("inf")
    dev["range"] = max(rdev, 0.0)
    if not rdev <= tol:
        j = int(np.nanargmax(np.where(np.isnan(of), np.inf, np.maximum(-of, of - 1.0))))
        probs.append(("into_unit_interval", f"finite entry {flat[idx[j]]!r} maps to {of[j]!r}, outside [0, 1]"))
    if not proper:
        return obs, dev, probs
    # --- monotone over all ordered pairs of finite entries
    av = [v for _, v in fin]
    worst, wi, wj = 0.0, -1, -1
    for x in range(len(av)):
        for y in range(len(av)):
            if av[x] <= av[y]:
                dd = of[x] - of[y]
                if dd != dd:
                    dd = float("inf")
                if dd > worst:
                    worst, wi, wj = float(dd), x, y
    dev["mono"] = worst
    if worst > tol:
        probs.append((
            "monotone",
            f"entries {flat[idx[wi]]!r} <= {flat[idx[wj]]!r} map to {of[wi]!r} > {of[wj]!r}; output {np.round(o, 4).tolist()} for input {flat.tolist()}",
        ))
    # --- limits: reported == defined; entries at/beyond the limits map to 0 / 1; the limits themselves map to 0 / 1.
    # Entries are compared with the limits the object *reports* (those are checked against the exact definition right
    # here): a limit that is one rounding away from a data value (vcenter - |min - vcenter| != min in floating point) puts
    # that value 1 ulp inside the interval, and power 0.25 turns 1e-17 into 1e-4 — conditioning, not a defect.
    lo_f, hi_f = float(lo_e), float(hi_e)
    scale = max(abs(lo_f), abs(hi_f), hi_f - lo_f)
    lo_u, hi_u = lo_e, hi_e
    if obs.get("rep") is not None:
        ldev = max(abs(obs["rep"][0] - lo_f), abs(obs["rep"][1] - hi_f)) / scale
        dev["limits"] = ldev
        if not ldev <= tol:
            probs.append(("limits_match_definition", f"reported limits {obs['rep']} but the configuration defines ({lo_f!r}, {hi_f!r})"))
        else:
            lo_u, hi_u = Fraction(obs["rep"][0]), Fraction(obs["rep"][1])
    zdev = 0.0
    for x, v in enumerate(av):
        if v <= lo_u:
            d0 = abs(of[x])
            if not d0 <= tol:
                probs.append(("lower_limit_to_0", f"entry {flat[idx[x]]!r} <= lower limit {float(lo_u)!r} maps to {of[x]!r}, expected 0"))
                break
            zdev = max(zdev, d0)
    for x, v in enumerate(av):
        if v >= hi_u:
            d1 = abs(of[x] - 1.0)
            if not d1 <= tol:
                probs.append(("upper_limit_to_1", f"entry {flat[idx[x]]!r} >= upper limit {float(hi_u)!r} maps to {of[x]!r}, expected 1"))
                break
            zdev = max(zdev, d1)
    # --- with the linear stretch the normalisation *is* the interval's affine map lo -> 0, hi -> 1 (clipped)
    if kw.get("stretch_type", "linear") == "linear" and kw.get("power", 1.0) == 1.0:
        adev, ax_ = 0.0, -1
        for x, v in enumerate(av):
            want = float(min(max((v - lo_u) / (hi_u - lo_u), Fraction(0)), Fraction(1)))
            dd = abs(of[x] - want)
            if dd != dd:
                dd = float("inf")
            if dd > adev:
                adev, ax_ = float(dd), x
        dev["affine"] = adev
        if adev > tol:
            v = av[ax_]
            want = float(min(max((v - lo_u) / (hi_u - lo_u), Fraction(0)), Fraction(1)))
            probs.append(("linear_is_affine", f"linear stretch: entry {flat[idx[ax_]]!r} maps to {of[ax_]!r}, the affine map of the interval ({float(lo_u)!r}, {float(hi_u)!r}) gives {want!r}"))
    if "lim_out" in obs:
        l0, l1 = obs["lim_out"]
        dl = max(abs(l0), abs(l1 - 1.0))
        if dl != dl:
            dl = float("inf")
        zdev = max(zdev, dl)
        if not dl <= tol or any(obs["lim_mask"]):
            probs.append(("limits_to_0_and_1", f"the reported limits {obs['rep']} map to {obs['lim_out']} (mask {obs['lim_mask']}), expected [0, 1]"))
    dev["limit01"] = zdev
    return obs, dev, probs


RELATION_ORDER = [
    "raises", "shape", "nan_masked", "finite_unmasked", "into_unit_interval", "monotone",
    "limits_match_definition", "lower_limit_to_0", "upper_limit_to_1", "limits_to_0_and_1", "linear_is_affine",
]


def dtype_kind(dt):
    return {"u": "unsigned", "i": "signed", "f": "float"}[np.dtype(dt).kind]


def judge(t, a, d, mode, spec_name, spec, stretch, kw, fin):
    """Evaluate one lattice point into tally t."""
    obs, dev, probs = measure(a, mode, kw, fin)
    case = {"data": d, "mode": mode, "spec": spec, "stretch": [stretch[0], stretch[1]], "kwargs": kw, "array": a.ravel().tolist()}
    if probs:
        probs.sort(key=lambda p: RELATION_ORDER.index(p[0]))
        cls = {
            "relation": probs[0][0],
            "mode": mode,
            "interval": interval_label(kw),
            "dtype_kind": dtype_kind(a.dtype),
            "dtype": str(a.dtype),
            "arg_type": arg_type(kw),
        }
        if spec_name != cls["interval"]:
            cls["via"] = spec_name  # "preset:<name>" / "form:<label>"
        if d.get("family") == "content":
            cls["content"] = d["content"].split("/")[0]
        shown = {k: v for k, v in kw.items() if v is not None}
        more = f" [also: {', '.join(r for r, _ in probs[1:])}]" if len(probs) > 1 else ""
        t.fail(cls, case, f"{a.dtype} {d['content']}/{d['decor']}{tuple(d['shape'])} mode={mode} {shown}: {probs[0][1]}{more}")
    if "exc" in obs:
        t.case(key=None, nontrivial=False, outcome=("exc", obs["exc"][:40]))
        t.extra["raised"] += 1
        return obs
    o = np.round(obs["data"], 7)
    finidx = [i for i, _ in fin]
    distinct = len({float(o[i]) for i in finidx})
    nontrivial = bool(dev["proper"] and distinct >= 2)
    key = (d, mode, spec, stretch[0], sorted(stretch[1].items())) if nontrivial else None
    t.case(key=key, nontrivial=nontrivial, outcome=(o.tolist(), obs["mask"].tolist()))
    if not dev["proper"]:
        t.extra["improper_interval_points"] += 1
    if (a.dtype.kind == "f") and np.isnan(a).any():
        t.extra["points_with_nan"] += 1
    return obs


# ----------------------------------------------------------------------------- worker: the lattice
def lattice_item(item, seed=0, quick=True):
    d, mode = item
    a = build_data(d, seed)
    fin = finite_exact(a)
    t = Tally()
    specs = interval_specs(quick)
    for spec in specs:
        for st in STRETCHES:
            kw = concrete_kwargs(spec, st, fin)
            judge(t, a, d, mode, interval_label(kw), spec, st, kw, fin)
    if d["content"] == "ramp" and d["decor"] in ("none", "all") and mode == "frozen" and d["shape"] == [5]:
        kw = concrete_kwargs(specs[1], STRETCHES[3], fin)
        obs = observe(a, mode, kw)
        if "exc" not in obs:
            t.sample({"dtype": d["dtype"], "input": a.ravel().tolist(), "kwargs": kw, "output": np.round(obs["data"], 4).tolist(), "mask": obs["mask"].tolist()}, cap=1)
    return t


# ----------------------------------------------------------------------------- data CONTENT family
# The lattice's contents (two far-apart values, ramps, duplicates, noise) never hit a branch that keys on WHAT the numbers are. This
# family enumerates the special contents a data-dependent shortcut would test for — arrays holding exactly two distinct values for a
# list of value pairs (0/1 first: masks and sparse counting frames stored as int or float), 0/1 data with one NaN / inf / further
# value (which must not matter for anything but that entry), a constant image except one pixel, integer values in float dtypes,
# sorted / reversed / repeated / constant rows — in every dtype of the lattice's dtype alphabet that holds the values exactly, crossed
# with EVERY interval and stretch configuration of the lattice plus configurations whose limits coincide with data values (vmin = data
# minimum, vmax = data maximum, centre +- half range = data range), with and without data= at construction, every preset, resolve form
# and (a sub-alphabet) the show_2d path. Oracle: the lattice's own (measure()); same tolerances — worst deviations observed on HEAD (the family has no
# seeded member): range 0, monotone 0, limits 5.7e-16, limit->0/1 0 (float32 data 1.8e-7), affine 1.1e-16 (float32 data 7.9e-8); the effect looked
# for (configured limits replaced by other ones) moves the limits' images by >= 0.06.
# bool-dtype arrays: HEAD gives them the limits (0, 1) whatever the configuration says when data= is given; the property's quantifier
# speaks of int/float dtypes, so bool points are executed and COUNTED, not judged.
CONTENT_PAIRS = {"0|1": (0, 1), "0|2": (0, 2), "-1|1": (-1, 1), "0|255": (0, 255), "1|2": (1, 2), "0|2**-100": (0, 2.0 ** -100)}
CONTENT_PATTERNS = ["alternating", "single_high", "single_low"]
CONTENT_SPARSE_QUICK = ["0|1", "1|2"]  # quick: the one-pixel patterns for these pairs only (thorough: every pair)
CONTENT_OTHERS = ["01+nan", "01+inf", "01+2", "01+half", "integers", "sorted", "reversed", "equal_rows", "constant_rows"]
CONTENT_DTYPES = DTYPES + ["bool"]
CONTENT_DISPLAY = ["0|1/alternating", "0|1/single_high", "0|255/alternating", "01+nan", "sorted"]


def content_values(content, n, shape):
    """Python numbers (ints wherever the value is an integer) of one content member, flat, or None if the shape cannot show it."""
    name, _, pattern = content.partition("/")
    if name in CONTENT_PAIRS:
        lo, hi = CONTENT_PAIRS[name]
        if pattern == "alternating":
            return [lo if i % 2 == 0 else hi for i in range(n)]
        if pattern == "single_high":
            return [hi if i == n // 2 else lo for i in range(n)]
        if pattern == "single_low":
            return [lo if i == 1 else hi for i in range(n)]
        raise ValueError(content)
    base01 = [i % 2 for i in range(n)]
    if name == "01+nan":
        return [float("nan") if i == 1 else v for i, v in enumerate(base01)]
    if name == "01+inf":
        return [float("inf") if i == 2 else v for i, v in enumerate(base01)]
    if name == "01+2":
        return base01[:-1] + [2]
    if name == "01+half":
        return base01[:-1] + [0.5]
    if name == "integers":
        return [3, 1, 4, 1, 5, 9, 2, 6, 5, 3, 5, 8][:n]
    if name == "sorted":
        return list(range(n))
    if name == "reversed":
        return list(range(n - 1, -1, -1))
    cols = shape[-1] if len(shape) > 1 else 4
    if name == "equal_rows":  # every row is the same ramp
        return [1 + (i % cols) for i in range(n)]
    if name == "constant_rows":  # every row is one value
        return [i // cols if len(shape) > 1 else (i * 3) // n for i in range(n)]
    raise ValueError(content)


def build_content(d):
    """The array of a content descriptor; Broken if the dtype cannot hold the values exactly (descriptors are filtered beforehand)."""
    shape = tuple(d["shape"])
    n = int(np.prod(shape))
    vals = content_values(d["content"], n, shape)
    dt = np.dtype(d["dtype"])
    a = content_array(vals, dt)
    if a is None:
        raise Broken(f"content member {d} is not representable")
    return a.reshape(shape)


def content_array(vals, dt):
    special = [v for v in vals if isinstance(v, float) and not math.isfinite(v)]
    if dt.kind != "f" and (special or any(isinstance(v, float) for v in vals)):
        return None
    if dt.kind == "b" and not set(vals) <= {0, 1}:
        return None
    if dt.kind in "iu":
        info = np.iinfo(dt)
        if min(vals) < info.min or max(vals) > info.max:
            return None
    with np.errstate(all="ignore"):
        a = np.array(vals, dtype=dt)
    for v, w in zip(vals, a.tolist()):
        if isinstance(v, float) and math.isnan(v):
            if not math.isnan(w):
                return None
        elif float(v) != float(w) or (dt.kind == "f" and math.isfinite(v) and Fraction(v) != Fraction(float(w))):
            return None
    return a


def content_descriptors(quick):
    names = []
    for pair in CONTENT_PAIRS:
        for pattern in CONTENT_PATTERNS:
            if quick and pattern != "alternating" and pair not in CONTENT_SPARSE_QUICK:
                continue
            names.append(f"{pair}/{pattern}")
    names += CONTENT_OTHERS
    out = []
    for dtname in CONTENT_DTYPES:
        for content in names:
            for shape in ([SHAPES[1]] if quick else SHAPES):
                n = int(np.prod(shape))
                vals = content_values(content, n, shape)
                a = content_array(vals, np.dtype(dtname))
                if a is None:
                    continue
                fin = [v for v in vals if math.isfinite(v)]
                if len(set(fin)) < 2:
                    raise Broken(f"content member {content}{shape} has fewer than two distinct finite values")
                out.append({"family": "content", "dtype": dtname, "content": content, "decor": "none", "shape": list(shape)})
    return out


def content_extra_specs():
    """Interval configurations whose limits coincide with values of the data (positions relative to the finite range [m, M])."""
    out = []
    for arg in ("float", "int"):
        for vmin, vmax in [("min", "max"), ("min", "q3"), ("q1", "max"), ("min", None), (None, "max")]:
            out.append({"type": "manual", "vmin": vmin, "vmax": vmax, "arg": arg})
        for vc, hr in [("centre", "half"), ("centre", None), ("min", None), ("max", None), ("min", "half")]:
            out.append({"type": "centered", "vcenter": vc, "half_range": hr, "arg": arg})
    return out


def content_item(item, seed=0, quick=True):
    d, mode = item
    a = build_content(d)
    fin = finite_exact(a)
    t = Tally()
    distinct = {v for _, v in fin}
    only01 = distinct == {0, 1} and len(fin) == a.size
    for spec in interval_specs(quick) + content_extra_specs():
        for st in STRETCHES:
            kw = concrete_kwargs(spec, st, fin)
            t.extra["content_family_points"] += 1
            if a.dtype.kind == "b":  # executed and counted, not judged
                obs, dev, probs = measure(a, mode, kw, fin)
                t.extra["content_family_bool_points"] += 1
                if "exc" in obs:
                    t.extra["content_family_bool_points_raising"] += 1
                    t.case(key=None, nontrivial=False, outcome=("content-bool", mode, "exc", obs["exc"][:40]))
                    continue
                lo, hi = expected_limits(kw, fin)
                if obs.get("rep") == (0.0, 1.0) and (lo, hi) != (0, 1):
                    t.extra["content_family_bool_points_with_limits_0_1_where_the_configuration_defines_others"] += 1
                if probs:
                    t.extra["content_family_bool_points_breaking_a_clause_counted_not_judged"] += 1
                t.case(key=None, nontrivial=False, outcome=("content-bool", mode, tuple(sorted({p[0] for p in probs}))))
                continue
            judge(t, a, d, mode, interval_label(kw), spec, st, kw, fin)
            if len(distinct) == 2:
                t.extra["content_family_points_on_two_valued_data"] += 1
            if only01:
                t.extra["content_family_points_on_data_holding_only_0_and_1"] += 1
                lo, hi = expected_limits(kw, fin)
                if lo < hi and (lo, hi) != (0, 1):
                    t.extra["content_family_points_on_0_1_data_with_limits_other_than_0_1"] += 1
    return t


# ----------------------------------------------------------------------------- worker: presets and resolve forms
def _resolve():
    cn = _lib()
    return getattr(cn, "_resolve_normalization", None), getattr(cn, "NORMALIZATION_PRESETS", None), getattr(cn, "NormalizationConfig", None)


def preset_names():
    _, presets, _ = _resolve()
    return sorted(presets) if presets is not None else []


def resolve_forms(fin):
    """(label, norm argument, kwargs for the resolve function, expected CustomNormalization kwargs)."""
    vals = [v for _, v in fin]
    m, M = min(vals), max(vals)
    q1, q3 = _position("q1", m, M, "float"), _position("q3", m, M, "float")
    _, _, Config = _resolve()
    forms = [
        ("none", None, {}, {"interval_type": "quantile", "stretch_type": "linear"}),
        ("none+vmin", None, {"vmin": q1}, {"interval_type": "manual", "stretch_type": "linear", "vmin": q1}),
        ("none+vmax", None, {"vmax": q3}, {"interval_type": "manual", "stretch_type": "linear", "vmax": q3}),
        ("none+vmin+vmax", None, {"vmin": q1, "vmax": q3}, {"interval_type": "manual", "stretch_type": "linear", "vmin": q1, "vmax": q3}),
        ("none+quantiles", None, {"lower_quantile": 0.25, "upper_quantile": 0.75}, {"interval_type": "quantile", "stretch_type": "linear", "lower_quantile": 0.25, "upper_quantile": 0.75}),
        ("none+lower_quantile", None, {"lower_quantile": 0.25}, {"interval_type": "quantile", "stretch_type": "linear", "lower_quantile": 0.25}),
        ("dict", {"interval_type": "centered", "stretch_type": "asinh", "vcenter": q1}, {}, {"interval_type": "centered", "stretch_type": "asinh", "vcenter": q1}),
        ("dict-manual-log", {"interval_type": "manual", "stretch_type": "logarithmic", "vmin": q1, "vmax": q3}, {}, {"interval_type": "manual", "stretch_type": "logarithmic", "vmin": q1, "vmax": q3}),
    ]
    if Config is not None:
        forms.append(("config", Config(interval_type="manual", stretch_type="power", power=2.0, vmax=q3), {}, {"interval_type": "manual", "stretch_type": "power", "power": 2.0, "vmax": q3}))
    return forms


def config_kwargs(cfg):
    return {f.name: getattr(cfg, f.name) for f in dataclasses.fields(cfg)}


def preset_item(item, seed=0, quick=True):
    d, mode = item
    resolve, presets, _ = _resolve()
    t = Tally()
    if resolve is None or presets is None:
        return t
    a = build_data(d, seed)
    fin = finite_exact(a)
    for name in sorted(presets):
        cfg = resolve(name)
        kw = config_kwargs(cfg)
        st = (kw.get("stretch_type", "linear"), {})
        judge(t, a, d, mode, "preset:" + name, {"type": "preset", "name": name}, st, kw, fin)
        t.extra["preset_points"] += 1
    for label, normarg, rkw, expect in resolve_forms(fin):
        cfg = resolve(normarg, **rkw)
        kw = config_kwargs(cfg)
        # the resolved configuration must be the one the arguments describe (defaults elsewhere)
        base = config_kwargs(type(cfg)())
        want = dict(base)
        want.update(expect)
        if kw != want:
            t.fail({"relation": "resolve_form", "form": label}, {"data": d, "mode": mode, "spec": {"type": "form", "name": label}, "stretch": ["linear", {}]},
                   f"resolve({normarg!r}, **{rkw}) gave {kw}, expected {want}")
        st = (kw.get("stretch_type", "linear"), {})
        judge(t, a, d, mode, "form:" + label, {"type": "form", "name": label}, st, kw, fin)
        t.extra["resolve_form_points"] += 1
    return t


# ----------------------------------------------------------------------------- worker: the public show_2d path
DISPLAY_EXTRA = ["kw:vmin+vmax", "kw:quantiles", "dict:centered-asinh"]
# the gray colormap has 256 levels: shown = floor(256 v) / 255, at most 1/255 = 3.9e-3 away from v (observed worst 3.9e-3;
# the vmax:=vmin plumbing mutant moves pixels by >= 0.25)
DISPLAY_QUANT = 6e-3


def display_norm_arg(name, fin):
    vals = [v for _, v in fin]
    m, M = min(vals), max(vals)
    q1, q3 = _position("q1", m, M, "float"), _position("q3", m, M, "float")
    if name == "kw:vmin+vmax":
        return None, {"vmin": q1, "vmax": q3}, {"interval_type": "manual", "vmin": q1, "vmax": q3}
    if name == "kw:quantiles":
        return None, {"lower_quantile": 0.25, "upper_quantile": 0.75}, {"interval_type": "quantile", "lower_quantile": 0.25, "upper_quantile": 0.75}
    if name == "dict:centered-asinh":
        dct = {"interval_type": "centered", "stretch_type": "asinh", "vcenter": q1}
        return dct, {}, dict(dct)
    resolve, _, _ = _resolve()
    return name, {}, config_kwargs(resolve(name))


def display_once(a, normarg, extra):
    import matplotlib.pyplot as plt
    from quantem.core.visualization import show_2d

    with warnings.catch_warnings():
        warnings.simplefilter("ignore")
        with np.errstate(all="ignore"):
            fig, ax = show_2d(a.copy(), norm=normarg, cmap="gray", **extra)
    try:
        axes = ax.ravel().tolist() if isinstance(ax, np.ndarray) else [ax]
        img = np.asarray(axes[0].images[0].get_array(), dtype=np.float64)
    finally:
        plt.close(fig)
    return img


def display_item(item, seed=0, quick=True):
    """show_2d(array, norm=<preset>) with the gray colormap: the displayed gray level is the normalised value
    quantised to 256 levels, so range, order and the 0/1 ends survive; finite pixels must be opaque."""
    d, name = item
    t = Tally()
    a = build_data(d, seed)
    fin = finite_exact(a)
    normarg, extra, kw = display_norm_arg(name, fin)
    case = {"data": d, "mode": "display", "spec": {"type": "display", "name": name}, "stretch": ["linear", {}], "array": a.ravel().tolist()}
    cls = {"relation": None, "mode": "display", "interval": "display:" + name, "dtype_kind": dtype_kind(a.dtype)}
    try:
        img = display_once(a, normarg, extra)
    except Exception as e:
        t.fail(dict(cls, relation="raises"), case, f"show_2d(norm={normarg!r}, {extra}) raised {type(e).__name__}: {e}")
        t.case(key=None, nontrivial=False, outcome="exc")
        return t
    if img.shape[:2] != a.shape or img.shape[-1] != 4:
        t.fail(dict(cls, relation="shape"), case, f"displayed image has shape {img.shape} for input {a.shape}")
        t.case(key=None, nontrivial=False, outcome="shape")
        return t
    gray, alpha = img[..., 0].ravel(), img[..., 3].ravel()
    idx = [i for i, _ in fin]
    av = [v for _, v in fin]
    lo_e, hi_e = expected_limits(kw, fin)
    msg0 = f"show_2d({a.dtype}{a.shape} {d['content']}/{d['decor']}, norm={normarg!r}, {extra})"
    g = np.array([gray[i] for i in idx])
    if any(alpha[i] != 1.0 for i in idx):
        t.fail(dict(cls, relation="finite_unmasked"), case, f"{msg0}: a finite pixel is not opaque (alpha {alpha.tolist()})")
    if not (np.all(g >= 0.0) and np.all(g <= 1.0)):
        t.fail(dict(cls, relation="into_unit_interval"), case, f"{msg0}: gray levels {g.tolist()} outside [0, 1]")
    if lo_e < hi_e:
        for x in range(len(av)):
            for y in range(len(av)):
                if av[x] <= av[y] and g[x] > g[y]:
                    t.fail(dict(cls, relation="monotone"), case, f"{msg0}: pixels {float(av[x])!r} <= {float(av[y])!r} shown at gray {g[x]!r} > {g[y]!r}")
                    break
            else:
                continue
            break
        for x, v in enumerate(av):
            if v <= lo_e and g[x] != 0.0:
                t.fail(dict(cls, relation="lower_limit_to_0"), case, f"{msg0}: pixel {float(v)!r} <= lower limit {float(lo_e)!r} shown at gray {g[x]!r}, expected 0")
                break
        for x, v in enumerate(av):
            if v >= hi_e and g[x] != 1.0:
                t.fail(dict(cls, relation="upper_limit_to_1"), case, f"{msg0}: pixel {float(v)!r} >= upper limit {float(hi_e)!r} shown at gray {g[x]!r}, expected 1")
                break
        if kw.get("stretch_type", "linear") == "linear" and kw.get("power", 1.0) == 1.0:
            for x, v in enumerate(av):
                want = float(min(max((v - lo_e) / (hi_e - lo_e), Fraction(0)), Fraction(1)))
                if abs(g[x] - want) > DISPLAY_QUANT:
                    t.fail(dict(cls, relation="linear_is_affine"), case, f"{msg0}: pixel {float(v)!r} shown at gray {g[x]!r}, the affine map of the interval ({float(lo_e)!r}, {float(hi_e)!r}) gives {want!r}")
                    break
    nontrivial = bool(lo_e < hi_e and len(set(g.tolist())) >= 2)
    t.case(key=(d, "display", name) if nontrivial else None, nontrivial=nontrivial, outcome=(np.round(gray, 4).tolist(), alpha.tolist()))
    t.extra["display_points"] += 1
    return t


# ----------------------------------------------------------------------------- call histories on ONE object
# Shape H inside this lattice check: the result of a call must not depend on what the object was applied to before.
# A norm object without data= takes its limits from the array of *each* call (that is how list_of_arrays_to_rgba uses one
# object for a whole list, and its default argument is one process-wide instance); an object built with data= keeps the
# limits of that data for ever. Differential oracle: every call of a history equals the single call of a fresh object.
# Equality is exact (same code, same input): worst deviation observed on the unchanged tree 0.0; the smallest effect of
# "limits stick to the first array" is 1.0 (all ones / all zeros).
HIST_ARRAYS = ["unit", "tens_nan", "sym", "int8_ramp", "f32_hundreds_nan_inf"]
HIST_STRETCHES = [("linear", {}), ("power", {"power": 0.5}), ("logarithmic", {"logarithmic_index": 1000.0}), ("asinh", {"asinh_linear_range": 0.1})]
HIST_INTERVALS = [
    ("quantile", {}),
    ("quantile", {"lower_quantile": 0.0, "upper_quantile": 1.0}),
    ("quantile", {"lower_quantile": 0.25, "upper_quantile": 0.75}),
    ("manual", {}),
    ("manual", {"vmin": -1.0}),
    ("manual", {"vmax": 12.0}),
    ("manual", {"vmin": 2.0, "vmax": 11.0}),
    ("centered", {}),
    ("centered", {"vcenter": 12.0}),
    ("centered", {"vcenter": 1.0, "half_range": 5.0}),
]


def history_arrays(seed):
    rng = np.random.default_rng([seed, 20, 777])
    unit = rng.random((3, 4))
    tens = 10.0 + 5.0 * rng.random((3, 4))
    tens[1, 2] = np.nan
    sym = -4.0 + 8.0 * rng.random((3, 4))
    ramp = np.array([-128, -64, 0, 63, 127], dtype=np.int8)
    hund = (100.0 + 200.0 * rng.random((3, 4))).astype(np.float32)
    hund[0, 1] = np.nan
    hund[2, 3] = np.inf
    arrs = dict(zip(HIST_ARRAYS, [unit, tens, sym, ramp, hund]))
    for k, v in arrs.items():
        f = v[np.isfinite(v)] if v.dtype.kind == "f" else v
        if len(set(f.ravel().tolist())) < 2:
            raise Broken(f"history array {k} has fewer than two distinct finite values")
    return arrs


def history_configs():
    """(label, kwargs) — reduced interval x stretch alphabet plus every named preset."""
    out = []
    for it, ikw in HIST_INTERVALS:
        for st, skw in HIST_STRETCHES:
            kw = {"interval_type": it, "stretch_type": st}
            kw.update(ikw)
            kw.update(skw)
            out.append((f"{it}{sorted(ikw.items())}/{st}", kw))
    resolve, presets, _ = _resolve()
    if resolve is not None and presets is not None:
        for name in sorted(presets):
            out.append(("preset:" + name, config_kwargs(resolve(name))))
    return out


def call_record(norm, a):
    """One call of an existing object -> comparable record."""
    try:
        with warnings.catch_warnings():
            warnings.simplefilter("ignore")
            with np.errstate(all="ignore"):
                out = norm(a.copy())
    except Exception as e:
        return {"exc": f"{type(e).__name__}: {e}"}
    data = np.ma.getdata(out).astype(np.float64)
    mask = np.ma.getmaskarray(out).copy()
    return {"shape": tuple(np.shape(out)), "data": data.ravel(), "mask": mask.ravel(), "is_ma": isinstance(out, np.ma.MaskedArray)}


def same_record(r1, r2):
    if ("exc" in r1) or ("exc" in r2):
        return r1.get("exc") == r2.get("exc") and ("exc" in r1) == ("exc" in r2)
    if r1["shape"] != r2["shape"] or not np.array_equal(r1["mask"], r2["mask"]):
        return False
    keep = ~r1["mask"]
    return bool(np.array_equal(r1["data"][keep], r2["data"][keep], equal_nan=True))


def show_record(r):
    if "exc" in r:
        return "raised " + r["exc"]
    d = np.where(r["mask"], np.nan, r["data"])
    return str(np.round(d, 4).tolist())


def history_item(item, seed=0, depth=2):
    """All call histories for one configuration (index into history_configs())."""
    cn = _lib()
    label, kw = history_configs()[item]
    arrs = history_arrays(seed)
    fins = {k: finite_exact(v) for k, v in arrs.items()}
    t = Tally()
    ilabel = interval_label(kw)

    def case_of(mode, hist, data=None):
        return {"part": "history", "mode": mode, "config": label, "arrays": list(hist), "data": data}

    # ---- reference: a fresh object, one call; judged by the usual clauses
    fresh = {}
    for name, a in arrs.items():
        obs, dev, probs = measure(a, "lazy", kw, fins[name])
        if probs:
            probs.sort(key=lambda p: RELATION_ORDER.index(p[0]))
            t.fail({"relation": probs[0][0], "mode": "lazy", "interval": ilabel, "dtype_kind": dtype_kind(a.dtype), "dtype": str(a.dtype), "arg_type": arg_type(kw), "via": "history-reference"},
                   case_of("lazy", [name]), f"history reference {label} on {name}: {probs[0][1]}")
        fresh[name] = call_record(cn.CustomNormalization(**kw), a)
        t.case(key=None, nontrivial=False, outcome=("hist-fresh", label, name, show_record(fresh[name])))
        t.extra["history_reference_calls"] += 1

    # ---- lazy: one object without data=, every history of `depth` arrays (repeats included)
    for hist in itertools.product(HIST_ARRAYS, repeat=depth):
        norm = cn.CustomNormalization(**kw)
        bad = None
        for pos, name in enumerate(hist):
            r = call_record(norm, arrs[name])
            t.extra["history_lazy_calls"] += 1
            if not same_record(r, fresh[name]):
                also = ""
                if "exc" not in r:
                    o2 = dict(r)
                    try:
                        rep = norm.interval.get_limits(arrs[name].copy())
                        o2["rep"] = (float(rep[0]), float(rep[1]))
                    except Exception:
                        o2["rep"] = None
                    _, _, pr = measure(arrs[name], "lazy", kw, fins[name], obs=o2)
                    if pr:
                        also = " [clauses broken by this call: " + ", ".join(sorted({p[0] for p in pr})) + "]"
                bad = (pos, name, r, also)
                break
        if bad:
            pos, name, r, also = bad
            t.fail({"relation": "result_independent_of_earlier_calls", "mode": "lazy", "interval": ilabel},
                   case_of("lazy", hist),
                   f"one CustomNormalization({ {k: v for k, v in kw.items() if v is not None} }) called on {' -> '.join(hist)}: call {pos + 1} (on {name}) gives {show_record(r)}, "
                   f"a fresh object gives {show_record(fresh[name])} for the same array{also}")
        nontrivial = len(set(hist)) > 1
        t.case(key=("hist-lazy", label, hist) if nontrivial else None, nontrivial=nontrivial, outcome=("hist-lazy", label, hist, bad is None))
        t.extra["history_lazy_sequences"] += 1

    # ---- frozen: built with data=D, called on X, Y, X: identical input -> identical result, limits stay those of D
    for dname in HIST_ARRAYS:
        ref = {}
        for x in HIST_ARRAYS:
            ref[x] = call_record(cn.CustomNormalization(data=arrs[dname].copy(), **kw), arrs[x])
        for x, y in itertools.permutations(HIST_ARRAYS, 2):
            try:
                norm = cn.CustomNormalization(data=arrs[dname].copy(), **kw)
                lim0 = (norm.vmin, norm.vmax)
            except Exception as e:
                t.fail({"relation": "raises", "mode": "frozen", "interval": ilabel, "via": "history"}, case_of("frozen", [x, y, x], dname), f"{label} data={dname}: construction raised {type(e).__name__}: {e}")
                break
            recs = [call_record(norm, arrs[n]) for n in (x, y, x)]
            t.extra["history_frozen_calls"] += 3
            msg = None
            if not same_record(recs[0], recs[2]):
                msg = f"call 1 and call 3 on the same array {x} differ: {show_record(recs[0])} vs {show_record(recs[2])}"
            elif not same_record(recs[0], ref[x]) or not same_record(recs[1], ref[y]):
                k = 0 if not same_record(recs[0], ref[x]) else 1
                msg = f"call {k + 1} on {(x, y)[k]} gives {show_record(recs[k])}, a fresh object built with the same data= gives {show_record(ref[(x, y)[k]])}"
            elif (norm.vmin, norm.vmax) != lim0:
                msg = f"limits moved from {lim0} to {(norm.vmin, norm.vmax)}"
            if msg:
                t.fail({"relation": "frozen_limits_stay_frozen", "mode": "frozen", "interval": ilabel}, case_of("frozen", [x, y, x], dname),
                       f"CustomNormalization({ {k: v for k, v in kw.items() if v is not None} }, data={dname}) called on {x} -> {y} -> {x}: {msg}")
            t.case(key=("hist-frozen", label, dname, x, y), nontrivial=True, outcome=("hist-frozen", label, dname, x, y, msg is None))
            t.extra["history_frozen_sequences"] += 1
    return t


def default_instances():
    """Module-level CustomNormalization instances reachable without constructing one: default arguments of the public
    functions and module globals of the visualization package (found by introspection, nothing is assumed to exist)."""
    import importlib
    import inspect

    cn = _lib()
    found = []
    seen = set()
    for modname in ("quantem.core.visualization.visualization_utils", "quantem.core.visualization.visualization", "quantem.core.visualization.custom_normalizations"):
        try:
            mod = importlib.import_module(modname)
        except Exception:
            continue
        for name, obj in sorted(vars(mod).items()):
            if isinstance(obj, cn.CustomNormalization) and id(obj) not in seen:
                seen.add(id(obj))
                found.append((f"{modname}.{name}", obj, None))
            if inspect.isfunction(obj) and getattr(obj, "__module__", None) == modname:
                try:
                    params = inspect.signature(obj).parameters
                except (TypeError, ValueError):
                    continue
                for pname, prm in params.items():
                    if isinstance(prm.default, cn.CustomNormalization) and id(prm.default) not in seen:
                        seen.add(id(prm.default))
                        found.append((f"{modname}.{name}({pname}=<default>)", prm.default, (obj, pname)))
    return found


def default_instance_item(item, seed=0):
    """Every ordered pair of different arrays through each process-wide default instance (state restored around each pair),
    and through the public function that owns the default argument."""
    import copy

    cn = _lib()
    arrs = history_arrays(seed)
    t = Tally()
    for label, inst, owner in default_instances():
        pristine = copy.deepcopy(inst.__dict__)

        def restore():
            inst.__dict__.clear()
            inst.__dict__.update(copy.deepcopy(pristine))

        # reference: an object configured like the default instance, freshly made for every single call
        def fresh_obj():
            o = copy.copy(inst)
            o.__dict__ = copy.deepcopy(pristine)
            return o

        blank = cn.CustomNormalization()
        if not (getattr(inst, "interval", None) == blank.interval and getattr(inst, "stretch", None) == blank.stretch and inst.vmin is None and inst.vmax is None):
            t.extra["default_instance_not_blank_at_discovery"] += 1
        try:
            for x, y in itertools.permutations(HIST_ARRAYS, 2):
                restore()
                recs = [call_record(inst, arrs[x]), call_record(inst, arrs[y])]
                refs = [call_record(fresh_obj(), arrs[x]), call_record(fresh_obj(), arrs[y])]
                t.extra["history_default_instance_calls"] += 2
                case = {"part": "history", "mode": "default_instance", "config": label, "arrays": [x, y], "data": None}
                bad = None
                for k in (0, 1):
                    if not same_record(recs[k], refs[k]):
                        bad = k
                        break
                if bad is not None:
                    t.fail({"relation": "result_independent_of_earlier_calls", "mode": "default_instance", "interval": interval_label({"interval_type": "quantile"})}, case,
                           f"{label} called on {x} -> {y}: call {bad + 1} (on {(x, y)[bad]}) gives {show_record(recs[bad])}, a fresh object gives {show_record(refs[bad])}")
                t.case(key=("hist-default", label, x, y), nontrivial=True, outcome=("hist-default", label, x, y, bad is None))
            # through the public function that owns the default: f([A]) then f([B]) must equal f([B], <param>=fresh object)
            if owner is not None:
                func, pname = owner
                two_d = [n for n in HIST_ARRAYS if arrs[n].ndim == 2 and not (arrs[n].dtype.kind == "f" and not np.isfinite(arrs[n]).all())]
                for x, y in itertools.permutations(two_d, 2):
                    restore()
                    case = {"part": "history", "mode": "default_instance", "config": label + " via function", "arrays": [x, y], "data": None}
                    try:
                        with warnings.catch_warnings():
                            warnings.simplefilter("ignore")
                            with np.errstate(all="ignore"):
                                func([arrs[x].copy()])
                                got = np.asarray(func([arrs[y].copy()]), dtype=np.float64)
                                want = np.asarray(func([arrs[y].copy()], **{pname: fresh_obj()}), dtype=np.float64)
                    except Exception as e:
                        t.fail({"relation": "raises", "mode": "default_instance", "interval": "quantile", "via": "history"}, case, f"{func.__name__}([{x}]) then ([{y}]) raised {type(e).__name__}: {e}")
                        t.case(key=None, nontrivial=False, outcome="exc")
                        continue
                    ok = got.shape == want.shape and bool(np.array_equal(got, want, equal_nan=True))
                    if not ok:
                        t.fail({"relation": "result_independent_of_earlier_calls", "mode": "default_instance", "interval": "quantile", "via": "function"}, case,
                               f"{func.__name__}([{y}]) right after {func.__name__}([{x}]) differs from {func.__name__}([{y}], {pname}=<fresh object>): max difference {float(np.nanmax(np.abs(got - want))) if got.shape == want.shape else 'shape'}")
                    t.case(key=("hist-default-func", label, x, y), nontrivial=True, outcome=("hist-default-func", label, x, y, ok))
                    t.extra["history_default_function_pairs"] += 1
        finally:
            restore()
        t.extra["history_default_instances"] += 1
    return t


# ----------------------------------------------------------------------------- SIZE x PEDESTAL family
# Small arrays cannot see a behaviour that switches on the number of elements, and data of spread ~1 riding on a large
# offset is the input that separates double from single precision. Element counts just below / at / just above 2**16,
# 2**20 (thorough: 2**22) x contents on pedestals x a reduced configuration alphabet x both limit modes.
# Clauses are evaluated on the WHOLE array with vectorised float64 operations (the float64 view of every content is exact:
# |values| < 2**53); monotonicity through the sort order (sort by input, output must be non-decreasing — equivalent to all
# ordered pairs); the linear stretch against the float64 affine map on the whole array and against exact rationals on a
# strided sample plus the extreme / limit-adjacent entries.
# Tolerance for int32/int64/float64 contents: TOL_SIZE = 1e-6. Worst deviations observed on the unchanged tree (quick: seeds
# 0,1,2,7,12345; thorough: seeds 0,1): range 0, sort-order monotonicity 0, limits 2.3e-16 (relative to max(|lo|,|hi|,span)),
# limit->0/1 0, affine on the whole array (float64) 0, affine on the sample (exact rationals) 1.1e-16.
# float32 control (TOL32 = 5e-5): affine 8.7e-8, sort-order monotonicity 1.2e-7 (one float32 ulp of the log/power kernels), limits 2.3e-16.
# Single-precision processing of data WITHOUT a pedestal moves results by ~6e-8 and is deliberately not flagged (TOL_SIZE is 16x
# above it); on a 2**30 / 1e8 pedestal it moves them by 0.014 .. 1.0 (upper limit -> 0.986 or 0, mid values off by 0.08), i.e.
# TOL_SIZE is >= 1e9 x the observed float64 deviation and <= 1/10000 of the smallest effect.
TOL_SIZE = 1e-6
SIZE_POWERS_QUICK = [16, 20]
SIZE_POWERS_THOROUGH = [16, 20, 22]
SIZE_CONTENTS = [
    ("int32", 0), ("int32", 2**30), ("int64", 0), ("int64", 2**30), ("int64", 2**40),
    ("float64", 0.0), ("float64", 1e8), ("float64", 1e9), ("float32", 0.0),
]
SIZE_INTERVALS = [("manual", {}), ("quantile", {"lower_quantile": 0.02, "upper_quantile": 0.98}), ("centered", {})]
SIZE_STRETCHES = [("linear", {}), ("power", {"power": 0.5}), ("logarithmic", {"logarithmic_index": 1000.0})]
SIZE_SAMPLE = 251


def size_shapes(power, quick=False):
    """(side label, shape): element counts just below / at / just above 2**power, 2-D and 1-D.
    quick keeps two of the five shapes for 2**20 (at and above in 2-D; the 1-D equivalents run at 2**16 and in thorough):
    a 1M-element array costs ~4 CPU-s."""
    r = 1 << (power // 2)
    c = (1 << power) // r
    full = [("below", (r - 1, c)), ("at", (r, c)), ("above", (r + 1, c)), ("at", (1 << power,)), ("above", ((1 << power) + 1,))]
    if quick and power >= 20:
        return [full[1], full[2]]
    return full


def size_descriptors(quick):
    out = []
    for pw in (SIZE_POWERS_QUICK if quick else SIZE_POWERS_THOROUGH):
        for side, shape in size_shapes(pw, quick):
            for dt, ped in SIZE_CONTENTS:
                out.append({"power": pw, "side": side, "shape": list(shape), "dtype": dt, "pedestal": ped})
    return out


def build_large(d, seed):
    n = int(np.prod(d["shape"]))
    rng = np.random.default_rng([seed, 20, 4242, d["power"], n, [c[0] for c in SIZE_CONTENTS].index(d["dtype"]), len(d["shape"])])
    dt = np.dtype(d["dtype"])
    if dt.kind == "i":  # ramp with noise, spread ~1000 counts, on the pedestal
        base = (np.arange(n, dtype=np.int64) * 1000) // n + rng.integers(-20, 21, size=n)
        a = (base + int(d["pedestal"])).astype(dt)
    else:  # unit scale on the offset
        a = (float(d["pedestal"]) + rng.random(n)).astype(dt)
        a[7 % n] = np.nan
    return a.reshape(d["shape"])


class LargePrep:
    """Everything about one large array that does not depend on the configuration."""

    def __init__(self, a):
        self.a = a
        self.flat = a.ravel()
        self.af = self.flat.astype(np.float64)  # exact for every content of this family
        self.nanpos = np.flatnonzero(np.isnan(self.af))
        self.fidx = np.flatnonzero(np.isfinite(self.af))
        self.order = self.fidx[np.argsort(self.af[self.fidx], kind="stable")]
        self.n = len(self.order)
        if self.n < 2 or self.af[self.order[0]] == self.af[self.order[-1]]:
            raise Broken("large array without two distinct finite values")

    def stat(self, k):
        return exact(self.flat[self.order[k]].item())

    def limits(self, kw):
        m, M = self.stat(0), self.stat(self.n - 1)
        t = kw["interval_type"]
        if t == "manual":
            return m, M
        if t == "centered":
            c = exact(kw.get("vcenter", 0.0))
            h = max(abs(m - c), abs(M - c))
            return c - h, c + h

        def q(p):
            pos = exact(p) * (self.n - 1)
            i = int(math.floor(pos))
            if i >= self.n - 1:
                return self.stat(self.n - 1)
            return self.stat(i) + (pos - i) * (self.stat(i + 1) - self.stat(i))

        return q(kw.get("lower_quantile", 0.02)), q(kw.get("upper_quantile", 0.98))

    def sample(self, kw):
        """Strided sample of the finite entries + the extremes + the order statistics next to the quantile positions."""
        stride = max(1, self.n // SIZE_SAMPLE)
        idx = set(self.order[::stride].tolist()) | {int(self.order[0]), int(self.order[-1]), int(self.order[self.n // 2])}
        for p in (kw.get("lower_quantile", 0.02), kw.get("upper_quantile", 0.98)):
            k = int(math.floor(p * (self.n - 1)))
            for kk in (k - 1, k, k + 1, k + 2):
                if 0 <= kk < self.n:
                    idx.add(int(self.order[kk]))
        return sorted(idx)


def measure_large(P, mode, kw):
    """One configuration on one large array: (problems, deviations, info)."""
    cn = _lib()
    a = P.a
    tol = TOL32 if a.dtype == np.float32 else TOL_SIZE
    tol_lim = TOL32 if a.dtype == np.float32 else TOL64
    probs, dev, info = [], {}, {}
    try:
        with warnings.catch_warnings():
            warnings.simplefilter("ignore")
            with np.errstate(all="ignore"):
                norm = cn.CustomNormalization(data=a if mode == "frozen" else None, **kw)
                out = norm(a)
                rep = (norm.vmin, norm.vmax) if mode == "frozen" else norm.interval.get_limits(a)
                rep = (float(rep[0]), float(rep[1]))
                ends = None
                if mode == "frozen":
                    e = norm(np.array(rep, dtype=np.float64))
                    ends = ([float(x) for x in np.ma.getdata(e)], [bool(x) for x in np.ma.getmaskarray(e)])
    except Exception as e:
        return [("raises", f"raised {type(e).__name__}: {e}")], dev, info
    if tuple(np.shape(out)) != a.shape:
        return [("shape", f"output shape {tuple(np.shape(out))} != input shape {a.shape}")], dev, info
    o = np.ma.getdata(out).ravel().astype(np.float64)
    msk = np.ma.getmaskarray(out).ravel()
    af, order = P.af, P.order
    info.update(rep=rep, out_min=float(np.nanmin(o[P.fidx])), out_max=float(np.nanmax(o[P.fidx])))
    if len(P.nanpos) and not msk[P.nanpos].all():
        k = int(P.nanpos[~msk[P.nanpos]][0])
        probs.append(("nan_masked", f"NaN at flat index {k} came back unmasked with value {o[k]!r}"))
    if msk[P.fidx].any():
        k = int(P.fidx[msk[P.fidx]][0])
        probs.append(("finite_unmasked", f"finite entry {P.flat[k]!r} at flat index {k} came back masked"))
    of = o[P.fidx]
    rdev = float(max(-of.min(), of.max() - 1.0, 0.0)) if not np.isnan(of).any() else float("inf")
    dev["range"] = rdev
    if not rdev <= tol:
        k = int(P.fidx[int(np.nanargmax(np.where(np.isnan(of), np.inf, np.maximum(-of, of - 1.0))))])
        probs.append(("into_unit_interval", f"finite entry {P.flat[k]!r} maps to {o[k]!r}, outside [0, 1]"))
    lo_e, hi_e = P.limits(kw)
    if not lo_e < hi_e:
        return probs, dev, info
    # monotone: sorted by input, the output must be non-decreasing
    os_ = o[order]
    dd = os_[:-1] - os_[1:]
    dd = np.where(np.isnan(dd), np.inf, dd)
    k = int(np.argmax(dd))
    dev["mono"] = float(max(dd[k], 0.0))
    if dd[k] > tol:
        i, j = int(order[k]), int(order[k + 1])
        probs.append(("monotone", f"entries {P.flat[i]!r} <= {P.flat[j]!r} (neighbours in sort order, flat indices {i}, {j}) map to {o[i]!r} > {o[j]!r}"))
    # limits
    lo_f, hi_f = float(lo_e), float(hi_e)
    scale = max(abs(lo_f), abs(hi_f), hi_f - lo_f)
    ldev = max(abs(rep[0] - lo_f), abs(rep[1] - hi_f)) / scale
    dev["limits"] = ldev
    lo_u, hi_u = lo_f, hi_f
    if not ldev <= tol_lim:
        probs.append(("limits_match_definition", f"reported limits {rep} but the configuration defines ({lo_f!r}, {hi_f!r})"))
    else:
        lo_u, hi_u = rep
    below = P.fidx[af[P.fidx] <= lo_u]
    above = P.fidx[af[P.fidx] >= hi_u]
    zdev = 0.0
    if len(below):
        d0 = np.abs(o[below])
        d0 = np.where(np.isnan(d0), np.inf, d0)
        zdev = max(zdev, float(d0.max()))
        if not d0.max() <= tol:
            k = int(below[int(np.argmax(d0))])
            probs.append(("lower_limit_to_0", f"entry {P.flat[k]!r} <= lower limit {lo_u!r} maps to {o[k]!r}, expected 0"))
    if len(above):
        d1 = np.abs(o[above] - 1.0)
        d1 = np.where(np.isnan(d1), np.inf, d1)
        zdev = max(zdev, float(d1.max()))
        if not d1.max() <= tol:
            k = int(above[int(np.argmax(d1))])
            probs.append(("upper_limit_to_1", f"entry {P.flat[k]!r} >= upper limit {hi_u!r} maps to {o[k]!r}, expected 1"))
    if ends is not None:
        dl = max(abs(ends[0][0]), abs(ends[0][1] - 1.0))
        dl = float("inf") if dl != dl else dl
        zdev = max(zdev, dl)
        if not dl <= tol or any(ends[1]):
            probs.append(("limits_to_0_and_1", f"the reported limits {rep} map to {ends[0]} (mask {ends[1]}), expected [0, 1]"))
    dev["limit01"] = zdev
    # linear stretch: the affine map of the interval — whole array in float64, sample in exact rationals
    if kw.get("stretch_type", "linear") == "linear" and kw.get("power", 1.0) == 1.0:
        with np.errstate(all="ignore"):
            want = np.clip((af[P.fidx] - lo_u) / (hi_u - lo_u), 0.0, 1.0)
        ad = np.abs(of - want)
        ad = np.where(np.isnan(ad), np.inf, ad)
        k = int(np.argmax(ad))
        dev["affine"] = float(ad[k])
        worst_s, ks = 0.0, -1
        L, H = Fraction(lo_u), Fraction(hi_u)
        for i in P.sample(kw):
            w = float(min(max((exact(P.flat[i].item()) - L) / (H - L), Fraction(0)), Fraction(1)))
            e = abs(o[i] - w)
            e = float("inf") if e != e else float(e)
            if e > worst_s:
                worst_s, ks = e, i
        dev["affine_exact_sample"] = worst_s
        if ad[k] > tol or worst_s > tol:
            i = int(P.fidx[k]) if ad[k] > tol else ks
            w = float(min(max((exact(P.flat[i].item()) - L) / (H - L), Fraction(0)), Fraction(1)))
            probs.append(("linear_is_affine", f"linear stretch: entry {P.flat[i]!r} (flat index {i}) maps to {o[i]!r}, the affine map of the interval ({lo_u!r}, {hi_u!r}) gives {w!r}"))
    return probs, dev, info


def size_item(d, seed=0, want_dev=False):
    a = build_large(d, seed)
    P = LargePrep(a)
    t = Tally()
    devs = {}
    for it, ikw in SIZE_INTERVALS:
        for st, skw in SIZE_STRETCHES:
            kw = {"interval_type": it, "stretch_type": st}
            kw.update(ikw)
            kw.update(skw)
            for mode in MODES:
                probs, dev, info = measure_large(P, mode, kw)
                for k, v in dev.items():
                    key = ("f32" if a.dtype == np.float32 else "f64/int", k)
                    devs[key] = max(devs.get(key, 0.0), v)
                case = {"part": "size", "array": d, "mode": mode, "kwargs": kw}
                if probs:
                    probs.sort(key=lambda p: RELATION_ORDER.index(p[0]))
                    more = f" [also: {', '.join(r for r, _ in probs[1:])}]" if len(probs) > 1 else ""
                    cls = {"relation": probs[0][0], "mode": mode, "interval": interval_label(kw), "dtype_kind": dtype_kind(a.dtype), "dtype": str(a.dtype),
                           "arg_type": "none", "via": "size-family", "power": d["power"], "side": d["side"]}
                    t.fail(cls, case, f"{a.dtype}{a.shape} ({a.size} elements, {d['side']} 2**{d['power']}) pedestal {d['pedestal']!r} mode={mode} {kw}: {probs[0][1]}{more}")
                nontrivial = "out_min" in info and info["out_max"] > info["out_min"]
                t.case(key=("size", d, mode, kw) if nontrivial else None, nontrivial=nontrivial,
                       outcome=("size", d["power"], d["side"], len(d["shape"]), d["dtype"], d["pedestal"], mode, kw, round(info.get("out_min", -1.0), 6), round(info.get("out_max", -1.0), 6)))
                t.extra["size_family_points"] += 1
                if a.size > (1 << 20):
                    t.extra["size_family_points_above_2^20_elements"] += 1
    t.extra["size_family_arrays"] += 1
    if want_dev:
        return t, devs
    return t


# ----------------------------------------------------------------------------- SPELLING family of the numeric arguments
# Every limit-like and parameter-like argument of the public normalisation API (vmin, vmax, vcenter, half_range, lower_quantile,
# upper_quantile, power, logarithmic_index, asinh_linear_range) spelled as Python int / float, NumPy integer scalars of every width and
# signedness (what img.min() / img.max() return), NumPy float16/32/64, 0-d arrays and torch scalars — through every entry point the check
# covers: CustomNormalization called without data= (limits taken at call time), with data= (limits frozen) and show_2d(vmin=, vmax=, ...).
# Only spellings that hold the value EXACTLY are used, so the differential oracle is sharp: a spelling is either REJECTED (an exception;
# counted) or gives the result of the Python-number spelling (tolerance TOL64, TOL32 for float32 images: observed worst on HEAD 2.4e-7 for
# float32 images where a float64 limit promotes the arithmetic, 0 otherwise) AND satisfies the usual clauses (limits -> 0 and 1, affine for
# the linear stretch, monotone, [0,1], NaN masked) judged with the Python-number configuration. Integer images span more than the positive
# range of their dtype (signed) or sit on vmin > 0 (unsigned), so arithmetic on the limits in their own dtype would wrap.
SPELL_INT_DTYPES = ["int8", "int16", "int32", "int64", "uint8", "uint16", "uint32", "uint64"]
SPELL_FLOAT_DTYPES = ["float16", "float32", "float64"]
SPELL_IMAGES = SPELL_INT_DTYPES + ["float32", "float64"]


def spelling_image(dtname, seed):
    """(3,4) image: signed dtypes span 1.6x the positive range, unsigned ones sit on a pedestal; forced extremes and inner marks."""
    dt = np.dtype(dtname)
    rng = np.random.default_rng([seed, 20, 909, SPELL_IMAGES.index(dtname)])
    if dt.kind == "i":
        M = int(np.iinfo(dt).max)
        lo, hi = -(M // 5) * 4, (M // 5) * 4
    elif dt.kind == "u":
        M = int(np.iinfo(dt).max)
        lo, hi = M // 5, (M // 5) * 4 + M // 10
    else:
        lo, hi = -1024, 3072
    q1, q3 = lo + (hi - lo) // 4, lo + 3 * ((hi - lo) // 4)
    if dt.kind == "f":
        vals = [float(x) for x in rng.integers(lo, hi, size=12)]
    else:
        vals = [int(x) for x in rng.integers(lo, hi, size=12, dtype=np.int64 if dt.kind == "i" else np.uint64)]
    vals[0], vals[11], vals[3], vals[7] = lo, hi, q1, q3
    a = np.array(vals, dtype=dt).reshape(3, 4)
    return a, {"min": lo, "max": hi, "q1": q1, "q3": q3}


def number_spellings(v, own_dtype=None):
    """{label: (kind, object)} — every spelling that holds the Python number v exactly. kind is the class label."""
    out = {}
    is_int = float(v) == int(v)

    def add(label, kind, make):
        try:
            with warnings.catch_warnings():
                warnings.simplefilter("ignore")
                with np.errstate(all="ignore"):
                    obj = make()
            back = obj.item() if hasattr(obj, "item") else obj
            if back == v and (not isinstance(back, float) or math.isfinite(back)):
                out[label] = (kind, obj)
        except Exception:
            pass

    if is_int:
        add("python_int", "python", lambda: int(v))
        for dn in SPELL_INT_DTYPES:
            kind = "np_signed_int" if dn.startswith("int") else "np_unsigned_int"
            add("np." + dn, kind, lambda dn=dn: np.dtype(dn).type(int(v)))
        if own_dtype is not None and np.dtype(own_dtype).kind in "iu":
            kind = "np_signed_int" if np.dtype(own_dtype).kind == "i" else "np_unsigned_int"
            add("0d_array:" + own_dtype, "0d_array_" + kind[3:], lambda: np.array(int(v), dtype=own_dtype))
    for dn in SPELL_FLOAT_DTYPES:
        add("np." + dn, "np_" + dn, lambda dn=dn: np.dtype(dn).type(v))
    add("0d_array:float64", "0d_array_float", lambda: np.array(float(v)))
    try:
        import torch

        if is_int:
            for tn in ("int8", "int16", "int32", "int64", "uint8"):
                add("torch." + tn, "torch_int", lambda tn=tn: torch.tensor(int(v), dtype=getattr(torch, tn)))
        for tn in ("float32", "float64"):
            add("torch." + tn, "torch_float", lambda tn=tn: torch.tensor(float(v), dtype=getattr(torch, tn)))
    except Exception:
        pass
    return out


def spelling_tolerance(label):
    """A number spelled in a narrower float type makes the library compute with that type's precision (NumPy scalars are not 'weak',
    torch scalars compute in float32). Observed worst on HEAD: float16 spellings 3.1e-4 (asinh/log parameters), float32 and torch
    spellings 8.9e-9; the smallest effect this family is after (integer wrap-around of the limits) is >= 0.35."""
    if "float16" in label:
        return 6.5e-3
    if "float32" in label or label.startswith("torch."):
        return TOL32
    return 0.0


def spelling_configs(dtname, marks):
    """(param group, python-number kwargs, names of the spelled parameters) for one image."""
    lo, hi, q1, q3 = marks["min"], marks["max"], marks["q1"], marks["q3"]
    half = (hi - lo) // 2
    cfgs = []
    for st, skw in (("linear", {}), ("logarithmic", {"logarithmic_index": 1000.0})):
        b = {"interval_type": "manual", "stretch_type": st}
        b.update(skw)
        cfgs += [
            ("limits", dict(b, vmin=lo, vmax=hi), ("vmin", "vmax")),
            ("limits", dict(b, vmin=q1, vmax=q3), ("vmin", "vmax")),
            ("limits", dict(b, vmin=lo, vmax=hi), ("vmin",)),
            ("limits", dict(b, vmin=lo, vmax=hi), ("vmax",)),
            ("limits", dict(b, vmin=q1), ("vmin",)),
            ("limits", dict(b, vmax=q3), ("vmax",)),
        ]
    c = {"interval_type": "centered", "stretch_type": "linear"}
    cfgs += [
        ("vcenter", dict(c, vcenter=q3), ("vcenter",)),
        ("vcenter+half_range", dict(c, vcenter=q3, half_range=half), ("vcenter", "half_range")),
        ("vcenter+half_range", dict(c, vcenter=q1, half_range=half), ("vcenter", "half_range")),
        ("vcenter+half_range", dict(c, vcenter=q3, half_range=half), ("half_range",)),
    ]
    if dtname in ("int16", "uint8", "float64"):
        for ql, qh in ((0, 1), (0.25, 0.75), (0, 0.75), (0.25, 1)):
            cfgs.append(("quantiles", {"interval_type": "quantile", "stretch_type": "linear", "lower_quantile": ql, "upper_quantile": qh}, ("lower_quantile", "upper_quantile")))
        m = {"interval_type": "manual"}
        for pw in (0.5, 2):
            cfgs.append(("power", dict(m, stretch_type="power", power=pw), ("power",)))
        for a_ in (1, 1000):
            cfgs.append(("logarithmic_index", dict(m, stretch_type="logarithmic", logarithmic_index=a_), ("logarithmic_index",)))
        for a_ in (0.125, 1):
            cfgs.append(("asinh_linear_range", dict(m, stretch_type="asinh", asinh_linear_range=a_), ("asinh_linear_range",)))
    return cfgs


def spelling_item(item, seed=0):
    dtname = item
    a, marks = spelling_image(dtname, seed)
    fin = finite_exact(a)
    tol0 = TOL32 if a.dtype == np.float32 else TOL64
    t = Tally()
    for group, kw_py, spelled in spelling_configs(dtname, marks):
        sp_per_param = [number_spellings(kw_py[pn], own_dtype=dtname) for pn in spelled]
        labels = sorted(set.intersection(*[set(d) for d in sp_per_param]))  # the same spelling for every spelled parameter
        for mode in MODES:
            ref = observe(a, mode, kw_py)
            for lab in labels:
                kind = sp_per_param[0][lab][0]
                if lab in ("python_int",) and all(isinstance(kw_py[pn], int) for pn in spelled):
                    continue  # that IS the reference spelling
                kw_sp = dict(kw_py)
                for pn, d in zip(spelled, sp_per_param):
                    kw_sp[pn] = d[lab][1]
                alt = observe(a, mode, kw_sp)
                case = {"part": "spelling", "image": dtname, "group": group, "kwargs": {k: (v if not isinstance(v, (int, float)) or isinstance(v, bool) else v) for k, v in kw_py.items()}, "spelled": list(spelled), "spelling": lab, "mode": mode}
                t.extra["spelling_points"] += 1
                cls = {"relation": None, "mode": mode, "interval": interval_label(kw_py), "param": group, "spelling": kind, "via": "spelling"}
                shown = f"{dtname}(3,4) image [{marks['min']} .. {marks['max']}] mode={mode} {kw_py} with {', '.join(spelled)} spelled as {lab}"
                if "exc" in ref:
                    t.fail(dict(cls, relation="raises", spelling="python"), case, f"{shown}: the Python-number spelling itself raised {ref['exc']}")
                    t.case(key=None, nontrivial=False, outcome=("spelling", "ref-exc"))
                    break
                if "exc" in alt:
                    t.extra["spelling_rejected"] += 1
                    t.extra["spelling_rejected:" + kind] += 1
                    t.case(key=None, nontrivial=False, outcome=("spelling", group, kind, mode, "rejected", alt["exc"][:40]))
                    continue
                t.extra["spelling_accepted"] += 1
                t.extra["spelling_accepted:" + kind] += 1
                tol = max(tol0, spelling_tolerance(lab))
                _, _, probs = measure(a, mode, kw_py, fin, obs=alt, tol=tol)
                same = alt["shape"] == ref["shape"] and np.array_equal(alt["mask"], ref["mask"])
                ddev = 0.0
                if same:
                    with np.errstate(all="ignore"):
                        dd = np.abs(alt["data"] - ref["data"])[~ref["mask"]]
                    ddev = float(np.max(np.where(np.isnan(dd), np.inf, dd))) if dd.size else 0.0
                if not same or not ddev <= tol:
                    probs.append(("spelling_equals_python_number", f"result {np.round(np.where(alt['mask'], np.nan, alt['data']), 4).tolist()} differs from the Python-number spelling's {np.round(np.where(ref['mask'], np.nan, ref['data']), 4).tolist()}"))
                if probs:
                    probs.sort(key=lambda p_: (RELATION_ORDER + ["spelling_equals_python_number"]).index(p_[0]))
                    more = f" [also: {', '.join(r for r, _ in probs[1:])}]" if len(probs) > 1 else ""
                    t.fail(dict(cls, relation=probs[0][0]), case, f"{shown}: {probs[0][1]}{more}")
                t.case(key=("spelling", dtname, group, str(sorted(kw_py.items(), key=str)), spelled, lab, mode), nontrivial=True, outcome=("spelling", group, kind, mode, "accepted", not probs))
    return t


def spelling_display_item(item, seed=0):
    """show_2d(img, vmin=<spelled>, vmax=<spelled>) and quantile keywords: displayed gray levels against the Python-number spelling."""
    dtname = item
    a, marks = spelling_image(dtname, seed)
    fin = finite_exact(a)
    t = Tally()
    points = [("limits", {"vmin": marks["min"], "vmax": marks["max"]}), ("limits", {"vmin": marks["q1"], "vmax": marks["q3"]})]
    if dtname in ("int16", "uint8", "float64"):
        points.append(("quantiles", {"lower_quantile": 0.25, "upper_quantile": 0.75}))
    for group, kw_py in points:
        names = list(kw_py)
        sp_per = [number_spellings(kw_py[n], own_dtype=dtname) for n in names]
        labels = sorted(set.intersection(*[set(d) for d in sp_per]))
        try:
            ref = display_once(a, None, dict(kw_py))[..., 0]
        except Exception as e:
            t.fail({"relation": "raises", "mode": "display", "param": group, "spelling": "python", "via": "spelling"}, {"part": "spelling-display", "image": dtname, "kwargs": kw_py, "spelling": "python"}, f"show_2d({dtname} image, **{kw_py}) raised {type(e).__name__}: {e}")
            continue
        lo_e, hi_e = expected_limits(dict({"interval_type": "manual"} if group == "limits" else {"interval_type": "quantile"}, **kw_py), fin)
        for lab in labels:
            kind = sp_per[0][lab][0]
            if lab == "python_int":
                continue
            kw_sp = {n: d[lab][1] for n, d in zip(names, sp_per)}
            case = {"part": "spelling-display", "image": dtname, "group": group, "kwargs": kw_py, "spelling": lab}
            cls = {"relation": None, "mode": "display", "interval": "display:kw", "param": group, "spelling": kind, "via": "spelling"}
            t.extra["spelling_display_points"] += 1
            try:
                img = display_once(a, None, kw_sp)
            except Exception as e:
                t.extra["spelling_rejected"] += 1
                t.extra["spelling_rejected:" + kind] += 1
                t.case(key=None, nontrivial=False, outcome=("spelling-display", group, kind, "rejected", type(e).__name__))
                continue
            t.extra["spelling_accepted"] += 1
            t.extra["spelling_accepted:" + kind] += 1
            g = img[..., 0]
            msg = None
            if g.shape != ref.shape or float(np.max(np.abs(g - ref))) > DISPLAY_QUANT:
                msg = ("spelling_equals_python_number", f"gray levels {np.round(g, 3).tolist()} differ from the Python-number spelling's {np.round(ref, 3).tolist()}")
            else:
                gf = g.ravel()
                for (i, v) in fin:
                    if v <= lo_e and gf[i] != 0.0:
                        msg = ("lower_limit_to_0", f"pixel {float(v)!r} <= lower limit shown at gray {gf[i]!r}")
                        break
                    if v >= hi_e and gf[i] != 1.0:
                        msg = ("upper_limit_to_1", f"pixel {float(v)!r} >= upper limit shown at gray {gf[i]!r}")
                        break
            if msg:
                t.fail(dict(cls, relation=msg[0]), case, f"show_2d({dtname}(3,4) image [{marks['min']} .. {marks['max']}], {', '.join(f'{n}={kw_py[n]!r}' for n in names)} spelled as {lab}): {msg[1]}")
            t.case(key=("spelling-display", dtname, group, str(kw_py), lab), nontrivial=True, outcome=("spelling-display", group, kind, "accepted", msg is None))
    return t


# ----------------------------------------------------------------------------- data MAGNITUDE family (scale invariance)
# The same image multiplied by powers of two next to 1e-300 ... 1e300 (2**-997 ... 2**997; exact, so every operation of an affine
# normalisation commutes with the scaling bit for bit as long as nothing under- or overflows), in float64 and the representable subset
# in float32 / float16, with and without a pedestal of the same magnitude, limits and centres scaled along. The values are multiples of
# 1/64 in [0.125, 12], so the stored values, their differences and vmax - vmin stay normal numbers (float16: exactly representable
# subnormals) at every scale used. Oracle: the result equals the result at scale 1 (observed on HEAD: bit-identical, deviation 0.0 for
# every dtype; tolerances 1e-12 / 1e-6 / 5e-3 for float64 / float32 / float16; the effect looked for — a span compared with an absolute
# epsilon — is 1.0) and satisfies the usual clauses (observed worst on HEAD: float64 5.6e-17, float32 1.3e-7, float16 9.6e-4 = one
# float16 ulp in the affine clause; judged at 1e-9 / 5e-5 / 2e-2).
MAG_EXPONENTS = {
    "float64": [-997, -100, -40, -23, -10, 0, 10, 40, 100, 997],
    "float32": [-100, -40, -23, -10, 0, 10, 40, 100],
    "float16": [-12, -10, 0, 10],
}
MAG_TOL = {"float64": 1e-12, "float32": 1e-6, "float16": 5e-3}
MAG_CLAUSE_TOL = {"float64": TOL64, "float32": TOL32, "float16": 2e-2}
MAG_BASE = [0.125, 0.5, 1.0, 2.5, 4.0, 1.75, 3.25, 0.75, 2.0, 2.0, 1.0, 3.5]
MAG_INTERVALS = [
    ("quantile", {"lower_quantile": 0.02, "upper_quantile": 0.98}, {}),
    ("quantile", {"lower_quantile": 0.25, "upper_quantile": 0.75}, {}),
    ("quantile", {"lower_quantile": 0, "upper_quantile": 1}, {}),
    ("manual", {}, {}),
    ("manual", {}, {"vmin": 1.0}),
    ("manual", {}, {"vmax": 3.0}),
    ("manual", {}, {"vmin": 1.0, "vmax": 3.0}),
    ("manual", {}, {"vmin": -1.0, "vmax": 6.0}),
    ("centered", {}, {}),
    ("centered", {}, {"vcenter": 2.0}),
    ("centered", {}, {"vcenter": 2.0, "half_range": 1.5}),
]


def mag_array(dtname, exponent, pedestal, decor):
    base = np.array(MAG_BASE, dtype=np.float64) + (8.0 if pedestal else 0.0)
    a = np.ldexp(base, exponent).astype(dtname)
    if not np.array_equal(a.astype(np.float64), np.ldexp(base, exponent)) or not np.all(np.isfinite(a)) or np.any(a == 0):
        raise Broken(f"magnitude family: {dtname} cannot hold the image at 2**{exponent} exactly")
    if decor == "all":
        a[1], a[6], a[9] = np.nan, np.inf, -np.inf
    return a.reshape(3, 4)


def mag_kwargs(itv, stretch, exponent, pedestal):
    it, fixed, rel = itv
    kw = {"interval_type": it, "stretch_type": stretch[0]}
    kw.update(stretch[1])
    kw.update(fixed)
    for k, v in rel.items():
        shift = 0.0 if k == "half_range" else (8.0 if pedestal else 0.0)
        kw[k] = math.ldexp(v + shift, exponent)  # exact
    return kw


def magnitude_item(item, seed=0):
    dtname, pedestal, decor = item
    t = Tally()
    tolc = MAG_CLAUSE_TOL[dtname]
    for itv in MAG_INTERVALS:
        for st in STRETCHES:
            for mode in MODES:
                ref = None
                for e in [0] + [x for x in MAG_EXPONENTS[dtname] if x != 0]:
                    a = mag_array(dtname, e, pedestal, decor)
                    kw = mag_kwargs(itv, st, e, pedestal)
                    fin = finite_exact(a)
                    obs, dev, probs = measure(a, mode, kw, fin, tol=tolc)
                    case = {"part": "magnitude", "dtype": dtname, "exponent": e, "pedestal": pedestal, "decor": decor, "interval": [itv[0], itv[1], itv[2]], "stretch": [st[0], st[1]], "mode": mode}
                    if e == 0:
                        ref = obs
                    elif "exc" not in obs and ref is not None and "exc" not in ref:
                        same = obs["shape"] == ref["shape"] and np.array_equal(obs["mask"], ref["mask"])
                        d = float("inf")
                        if same:
                            with np.errstate(all="ignore"):
                                dd = np.abs(obs["data"] - ref["data"])[~ref["mask"]]
                            d = float(np.max(np.where(np.isnan(dd), np.inf, dd))) if dd.size else 0.0
                        if not d <= MAG_TOL[dtname]:
                            probs.append(("scale_invariant", f"result {np.round(np.where(obs['mask'], np.nan, obs['data']), 4).tolist()} differs from the result for the same image at scale 1, {np.round(np.where(ref['mask'], np.nan, ref['data']), 4).tolist()}"))
                    if probs:
                        probs.sort(key=lambda p_: (RELATION_ORDER + ["scale_invariant"]).index(p_[0]))
                        more = f" [also: {', '.join(r for r, _ in probs[1:])}]" if len(probs) > 1 else ""
                        small = "tiny" if e <= -20 else "small" if e < 0 else "one" if e == 0 else "large" if e < 50 else "huge"
                        t.fail({"relation": probs[0][0], "mode": mode, "interval": interval_label(kw), "dtype": dtname, "magnitude": small, "via": "magnitude"}, case,
                               f"{dtname}(3,4) image x 2**{e} (~{2.0 ** e:.0e}){' on a pedestal' if pedestal else ''}, decor={decor}, mode={mode} { {k: v for k, v in kw.items()} }: {probs[0][1]}{more}")
                    nontrivial = e != 0 and "exc" not in obs
                    t.case(key=("mag", dtname, e, pedestal, decor, str(itv), str(st), mode) if nontrivial else None, nontrivial=nontrivial,
                           outcome=("mag", dtname, pedestal, decor, str(itv), st[0], mode, not probs))
                    t.extra["magnitude_points"] += 1
                    if e != 0:
                        t.extra["magnitude_points_" + ("below_1" if e < 0 else "above_1")] += 1
    return t


# ----------------------------------------------------------------------------- input CONTAINER family
# The same numbers handed over as np.ma.MaskedArray (nomask, all-False mask, a user mask over inner pixels / over the extreme pixels,
# NaN/inf under the mask, NaN/inf outside the mask, masked_invalid), np.matrix, nested lists, torch tensors, read-only / Fortran /
# non-contiguous arrays. Oracle: rejected (exception, counted) or — NaNs are masked wherever they are (outside and under the input's
# mask), entries the input shows are shown, the visible part is finite, inside [0,1] and monotone and equals what a plain ndarray with the
# same UNDERLYING numbers gives (hidden numbers count; +-inf behave as they do for a plain ndarray: clipped to 0 / 1), and the input object
# is left unchanged. The property says nothing about keeping a caller's mask or about hidden numbers and the limits: what HEAD does there
# (the mask is dropped, the numbers under it take part in the limits) is COUNTED in the evidence, not judged.
CONTAINERS = ["ma_nomask", "ma_all_false", "ma_user_mask_inner", "ma_user_mask_extremes", "ma_nan_under_mask", "ma_nan_outside_mask",
              "ma_nan_all_false_mask", "masked_invalid", "matrix", "list", "torch", "readonly", "fortran", "noncontiguous"]
CONT_NUMBERS = [5.0, 2.0, 7.0, 3.5, 9.0, 4.0, 6.0, 8.0, 2.5, 7.5, 0.5, 50.0]
CONT_INTERVALS = [("quantile", {}), ("manual", {}), ("manual", {"vmin": 2.0, "vmax": 8.0}), ("centered", {"vcenter": 5.0})]
CONT_STRETCHES = [("linear", {}), ("power", {"power": 0.5}), ("logarithmic", {"logarithmic_index": 1000.0}), ("asinh", {"asinh_linear_range": 0.1})]


def container_build(name, dtname):
    """(container object, underlying numbers U, hidden positions H as a bool array) — U carries NaN/inf where the variant has them."""
    U = np.array(CONT_NUMBERS, dtype=dtname).reshape(3, 4)
    H = np.zeros(U.shape, dtype=bool)
    if name == "ma_nomask":
        return np.ma.array(U.copy()), U, H
    if name == "ma_all_false":
        return np.ma.array(U.copy(), mask=np.zeros(U.shape, dtype=bool)), U, H
    if name == "ma_user_mask_inner":
        H[0, 2] = H[1, 1] = True
        return np.ma.array(U.copy(), mask=H.copy()), U, H
    if name == "ma_user_mask_extremes":
        H[2, 2] = H[2, 3] = True  # hides 0.5 and 50, the minimum and the maximum
        return np.ma.array(U.copy(), mask=H.copy()), U, H
    if name == "ma_nan_under_mask":
        U[0, 1], U[1, 0] = np.nan, np.inf
        H[0, 1] = H[1, 0] = H[2, 1] = True
        return np.ma.array(U.copy(), mask=H.copy()), U, H
    if name == "ma_nan_outside_mask":
        U[0, 1], U[2, 0] = np.nan, -np.inf
        H[1, 1] = True
        return np.ma.array(U.copy(), mask=H.copy()), U, H
    if name == "ma_nan_all_false_mask":
        U[0, 1] = np.nan
        return np.ma.array(U.copy(), mask=np.zeros(U.shape, dtype=bool)), U, H
    if name == "masked_invalid":
        U[0, 1], U[1, 0] = np.nan, np.inf
        return np.ma.masked_invalid(U.copy()), U, H
    if name == "matrix":
        with warnings.catch_warnings():
            warnings.simplefilter("ignore")
            return np.matrix(U.copy()), U, H
    if name == "list":
        return U.tolist(), U, H
    if name == "torch":
        import torch

        return torch.tensor(U.copy()), U, H
    if name == "readonly":
        x = U.copy()
        x.flags.writeable = False
        return x, U, H
    if name == "fortran":
        return np.asfortranarray(U.copy()), U, H
    if name == "noncontiguous":
        big = np.zeros((6, 8), dtype=dtname)
        big[::2, 1::2] = U
        return big[::2, 1::2], U, H
    raise ValueError(name)


def container_state(c):
    if isinstance(c, np.ma.MaskedArray):
        return (np.ma.getdata(c).tobytes(), np.ma.getmaskarray(c).tobytes(), c.shape)
    if isinstance(c, np.ndarray):
        return (np.asarray(c).tobytes(), c.shape, c.flags.writeable)
    if isinstance(c, list):
        return repr(c)
    try:
        return c.detach().numpy().tobytes()
    except Exception:
        return None


def norm_call(cn, kw, mode, data_obj, value_obj):
    try:
        with warnings.catch_warnings():
            warnings.simplefilter("ignore")
            with np.errstate(all="ignore"):
                n = cn.CustomNormalization(data=data_obj if mode == "frozen" else None, **kw)
                out = n(value_obj)
    except Exception as e:
        return {"exc": f"{type(e).__name__}: {e}"}
    return {"shape": tuple(np.shape(out)), "data": np.asarray(np.ma.getdata(out), dtype=np.float64), "mask": np.ma.getmaskarray(out).copy(), "is_ma": isinstance(out, np.ma.MaskedArray)}


def container_item(item, seed=0):
    cname, dtname = item
    cn = _lib()
    t = Tally()
    tol = TOL32 if dtname == "float32" else TOL64
    for it, ikw in CONT_INTERVALS:
        for st, skw in CONT_STRETCHES:
            kw = {"interval_type": it, "stretch_type": st}
            kw.update(ikw)
            kw.update(skw)
            for mode in MODES:
                c, U, H = container_build(cname, dtname)
                cdata, _, _ = container_build(cname, dtname)  # a second object for data=
                before = container_state(c)
                r = norm_call(cn, kw, mode, cdata, c)
                case = {"part": "container", "container": cname, "dtype": dtname, "kwargs": kw, "mode": mode}
                cls = {"relation": None, "container": cname, "mode": mode, "interval": interval_label(kw), "via": "container"}
                shown = f"{cname} ({dtname}(3,4), numbers {np.where(H, np.nan, U).ravel().tolist()} visible) mode={mode} {kw}"
                t.extra["container_points"] += 1
                if "exc" in r:
                    t.extra["container_rejected"] += 1
                    t.extra["container_rejected:" + cname] += 1
                    t.case(key=None, nontrivial=False, outcome=("container", cname, mode, "rejected", r["exc"][:50]))
                    continue
                t.extra["container_accepted:" + cname] += 1
                V = np.where(H, np.nan, U)  # the visible numbers
                r_all = norm_call(cn, kw, mode, U.copy(), U.copy())
                r_vis = norm_call(cn, kw, mode, V.copy(), V.copy())
                probs = []
                if container_state(c) != before:
                    probs.append(("input_unchanged", "the input object was modified by the call"))
                if r["shape"] != U.shape:
                    probs.append(("shape", f"output shape {r['shape']} for input {U.shape}"))
                else:
                    o, m = r["data"], r["mask"]
                    nan_vis = np.isnan(U) & ~H
                    fin_vis = np.isfinite(U) & ~H
                    if H.any() and not m[H].all():
                        t.extra["container_points_where_the_user_mask_is_dropped"] += 1  # not demanded by the property: counted, not judged
                    nan_any = np.isnan(U)  # outside AND under the input's mask: a NaN never comes back as a visible number
                    if nan_any.any() and not m[nan_any].all():
                        k = int(np.flatnonzero(nan_any & ~m)[0])
                        where = "under" if H.ravel()[k] else "outside"
                        probs.append(("nan_masked", f"NaN at flat index {k}, {where} the input's mask, came back unmasked with value {o.ravel()[k]!r}"))
                    if m[fin_vis].any():
                        probs.append(("finite_unmasked", f"a visible finite entry came back masked (mask {m.ravel().tolist()})"))
                    sel = np.isfinite(U) & ~m  # every finite number the result shows (hidden numbers count: the same underlying numbers as a plain ndarray)
                    of = o[sel]
                    if of.size and (np.isnan(of).any() or of.min() < -tol or of.max() > 1 + tol):
                        probs.append(("into_unit_interval", f"visible finite entries map to {np.round(of, 4).tolist()}, not all inside [0, 1]"))
                    else:
                        order = np.argsort(U[sel], kind="stable")
                        if of.size > 1 and np.any(np.diff(of[order]) < -tol):
                            probs.append(("monotone", f"visible entries sorted by input give outputs {np.round(of[order], 4).tolist()}"))
                    if "exc" not in r_all and sel.any():
                        d = float(np.max(np.abs(o[sel] - r_all["data"][sel])))
                        if not d <= tol:
                            probs.append(("equals_plain_ndarray", f"visible entries {np.round(o[sel], 4).tolist()} differ from the plain ndarray's {np.round(r_all['data'][sel], 4).tolist()}"))
                    sv = sel & ~H
                    if "exc" not in r_vis and sv.any() and H.any():
                        d = float(np.max(np.abs(o[sv] - r_vis["data"][sv])))
                        if not d <= tol:
                            t.extra["container_points_where_hidden_numbers_set_the_limits"] += 1  # not demanded by the property: counted, not judged
                if probs:
                    order_ = ["input_unchanged", "shape", "nan_masked", "finite_unmasked", "into_unit_interval", "monotone", "equals_plain_ndarray"]
                    probs.sort(key=lambda p_: order_.index(p_[0]))
                    for rel in sorted({p_[0] for p_ in probs}, key=order_.index):  # one failure per broken relation: they have different causes
                        msg = [p_[1] for p_ in probs if p_[0] == rel][0]
                        t.fail(dict(cls, relation=rel), dict(case, relation=rel), f"{shown}: {msg}")
                t.case(key=("container", cname, dtname, str(sorted(kw.items(), key=str)), mode), nontrivial=True, outcome=("container", cname, mode, "accepted", tuple(sorted({p_[0] for p_ in probs}))))
    return t


# ----------------------------------------------------------------------------- user SUBCLASSES of the documented extension points
# BaseInterval documents get_limits(values) as THE hook of a user interval. Three user intervals — limits = full range of the data's
# dtype (dtype-dependent), limits = a data-dependent inner range, constant limits — used directly (itv(data)) and through
# CustomNormalization (assigned to the public attribute norm.interval; the constructor only takes type names), with library stretches,
# a subclass of a library stretch and a user-written stretch assigned to norm.stretch. Oracle: the limits the interval DECLARES for the
# caller's data (itv.get_limits(data), data as the caller passed it) are sent to 0 and 1, the linear case is the exact affine map of
# those limits, output in [0,1] and monotone. Tolerance TOL64 / TOL32 (observed worst on HEAD 2.2e-16 / 6e-8).
SUBCLASS_DTYPES = ["uint8", "int8", "uint16", "int16", "int32", "float32", "float64"]


def user_intervals():
    cn = _lib()

    class FullRangeOfDtype(cn.BaseInterval):
        """Integer data: the whole range of its dtype (0..255 for uint8); float data: finite min / max."""

        def get_limits(self, values):
            values = np.asarray(values)
            if np.issubdtype(values.dtype, np.integer):
                info = np.iinfo(values.dtype)
                return float(info.min), float(info.max)
            v = values[np.isfinite(values)]
            return float(v.min()), float(v.max())

    class InnerRange(cn.BaseInterval):
        """Data-dependent: the finite range shrunk by a quarter on each side."""

        def get_limits(self, values):
            v = np.asarray(values, dtype=np.float64)
            v = v[np.isfinite(v)]
            lo, hi = float(v.min()), float(v.max())
            return lo + 0.25 * (hi - lo), hi - 0.25 * (hi - lo)

    class Constant(cn.BaseInterval):
        def get_limits(self, values):
            return 2.0, 9.0

    return {"full_range_of_dtype": FullRangeOfDtype, "inner_range": InnerRange, "constant": Constant}


def user_stretches():
    cn = _lib()

    class MyPower(cn.PowerLawStretch):
        """A subclass of a library stretch, nothing overridden."""

    class Squared:
        """A user-written stretch following the library protocol: __call__(values, copy=True), inverse."""

        def __call__(self, values, copy=True):
            values = np.array(values, copy=copy)
            np.clip(values, 0.0, 1.0, out=values)
            np.multiply(values, values, out=values)
            return values

        @property
        def inverse(self):
            return cn.PowerLawStretch(0.5)

    return {"library:linear": lambda: cn.LinearStretch(), "library:logarithmic": lambda: cn.LogarithmicStretch(1000.0), "library:asinh": lambda: cn.InverseHyperbolicSineStretch(0.1),
            "subclass:MyPower(2)": lambda: MyPower(2.0), "user:Squared": lambda: Squared()}


def subclass_image(dtname, seed, touch):
    dt = np.dtype(dtname)
    rng = np.random.default_rng([seed, 20, 515, SUBCLASS_DTYPES.index(dtname), int(touch)])
    if dt.kind in "iu":
        info = np.iinfo(dt)
        span = int(info.max) - int(info.min)
        lo, hi = (int(info.min), int(info.max)) if touch else (int(info.min) + span // 8, int(info.max) - span // 4)
        vals = [int(x) for x in rng.integers(lo, hi, size=12, dtype=np.int64)]
        vals[0], vals[11] = lo, hi
    else:
        vals = [float(x) for x in np.round(rng.uniform(-3.0, 12.0, size=12), 3)]
        vals[0], vals[11] = -3.0, 12.0
        if touch:
            vals[5] = np.nan
    return np.array(vals, dtype=dt).reshape(3, 4)


def subclass_item(item, seed=0):
    dtname = item
    cn = _lib()
    t = Tally()
    tol = TOL32 if dtname == "float32" else TOL64
    for touch in (False, True):
        a = subclass_image(dtname, seed, touch)
        af = a.astype(np.float64)
        finm = np.isfinite(af)
        for iname, Icls in user_intervals().items():
            for sname, mk in [("direct", None)] + list(user_stretches().items()):
                case = {"part": "subclass", "dtype": dtname, "touch": touch, "interval": iname, "stretch": sname}
                cls = {"relation": None, "user_interval": iname, "stretch": sname.split(":")[0], "dtype_kind": dtype_kind(a.dtype), "via": "subclass"}
                shown = f"user interval {iname} on {dtname}(3,4) data [{af[finm].min():g} .. {af[finm].max():g}]" + (" used directly" if mk is None else f" assigned to norm.interval, stretch {sname}")
                t.extra["subclass_points"] += 1
                try:
                    with warnings.catch_warnings():
                        warnings.simplefilter("ignore")
                        with np.errstate(all="ignore"):
                            itv = Icls()
                            lo, hi = [float(x) for x in itv.get_limits(a.copy())]  # what the interval declares for the caller's data
                            if mk is None:
                                out = itv(a.copy())
                            else:
                                norm = cn.CustomNormalization("manual", "linear")
                                norm.interval = itv
                                norm.stretch = mk()
                                out = norm(a.copy())
                except Exception as e:
                    t.fail(dict(cls, relation="raises"), case, f"{shown}: raised {type(e).__name__}: {e}")
                    t.case(key=None, nontrivial=False, outcome=("subclass", "exc"))
                    continue
                o = np.asarray(np.ma.getdata(out), dtype=np.float64)
                m = np.ma.getmaskarray(out)
                probs = []
                if o.shape != a.shape:
                    probs.append(("shape", f"output shape {o.shape}"))
                else:
                    of, xf = o[finm], af[finm]
                    if m[finm].any() or np.isnan(of).any() or of.min() < -tol or of.max() > 1 + tol:
                        probs.append(("into_unit_interval", f"finite entries map to {np.round(of, 4).tolist()} (masked: {m[finm].tolist()})"))
                    else:
                        order = np.argsort(xf, kind="stable")
                        if np.any(np.diff(of[order]) < -tol):
                            probs.append(("monotone", f"sorted by input the outputs are {np.round(of[order], 4).tolist()}"))
                        if lo < hi:
                            low, up = xf <= lo, xf >= hi
                            if low.any() and np.abs(of[low]).max() > tol:
                                probs.append(("lower_limit_to_0", f"the interval declares limits ({lo!r}, {hi!r}) for this data; entry {xf[low][0]!r} <= lower limit maps to {of[low][0]!r}, expected 0"))
                            if up.any() and np.abs(of[up] - 1.0).max() > tol:
                                probs.append(("upper_limit_to_1", f"the interval declares limits ({lo!r}, {hi!r}) for this data; entry {xf[up][0]!r} >= upper limit maps to {of[up][0]!r}, expected 1"))
                            if sname in ("direct", "library:linear"):
                                want = np.clip((xf - lo) / (hi - lo), 0.0, 1.0)
                                k = int(np.argmax(np.abs(of - want)))
                                if abs(of[k] - want[k]) > tol:
                                    probs.append(("linear_is_affine", f"the interval declares limits ({lo!r}, {hi!r}) for this data; entry {xf[k]!r} maps to {of[k]!r}, the affine map of the declared limits gives {want[k]!r}"))
                    if a.dtype.kind == "f" and np.isnan(af).any() and mk is not None and not m[np.isnan(af)].all():
                        probs.append(("nan_masked", "NaN came back unmasked"))
                if probs:
                    probs.sort(key=lambda p_: RELATION_ORDER.index(p_[0]))
                    more = f" [also: {', '.join(r for r, _ in probs[1:])}]" if len(probs) > 1 else ""
                    t.fail(dict(cls, relation=probs[0][0]), case, f"{shown}: {probs[0][1]}{more}")
                t.case(key=("subclass", dtname, touch, iname, sname), nontrivial=True, outcome=("subclass", iname, sname, dtname, touch, not probs))
    return t


# ----------------------------------------------------------------------------- COPIES / modified copies of used objects
# copy.copy, copy.deepcopy, pickle round trip, dataclasses.replace with one parameter changed, attribute assignment after use — on every
# stretch and interval class with every ordered pair of parameters of the alphabet, and on CustomNormalization objects; the source
# object used before (called on data) vs never used. Oracle: the resulting object behaves bit for bit like a freshly constructed object
# with the same parameters (forward, declared inverse, inverse(forward(y)) == y on the 101-grid within TOL_INV; intervals on data).
def copy_specs():
    """(label, class name, parameter name, values) for every dataclass of the module."""
    return [
        ("power", "PowerLawStretch", "power", [0.25, 0.5, 2.0, 3.0]),
        ("logarithmic", "LogarithmicStretch", "a", [1.0, 10.0, 1000.0]),
        ("inverse_logarithmic", "InverseLogarithmicStretch", "a", [1.0, 10.0, 1000.0]),
        ("asinh", "InverseHyperbolicSineStretch", "a", [0.01, 0.1, 1.0]),
        ("sinh", "HyperbolicSineStretch", "a", [0.2, 1.0 / 3.0, 1.0]),
        ("linear", "LinearStretch", "slope", [1.0, 0.5, 2.0]),
        ("linear", "LinearStretch", "intercept", [0.0, 0.25]),
        ("manual", "ManualInterval", "vmin", [1.0, 3.0, None]),
        ("manual", "ManualInterval", "vmax", [8.0, 20.0, None]),
        ("centered", "CenteredInterval", "vcenter", [0.0, 5.0]),
        ("centered", "CenteredInterval", "half_range", [4.0, 10.0, None]),
        ("quantile", "QuantileInterval", "lower_quantile", [0.02, 0.25]),
        ("quantile", "QuantileInterval", "upper_quantile", [0.75, 0.98]),
    ]


COPY_DATA = [5.0, 2.0, 7.0, 3.5, 9.0, 4.0, 6.0, 8.0, 2.5, 7.5, 0.5, 12.0]


def behaviour(obj, is_stretch):
    """Comparable record of what an object does (on fresh input every time)."""
    rec = []
    with warnings.catch_warnings():
        warnings.simplefilter("ignore")
        with np.errstate(all="ignore"):
            if is_stretch:
                grid = np.linspace(0.0, 1.0, 101)
                f = np.asarray(obj(grid.copy()), dtype=np.float64)
                rec.append(f.tobytes())
                inv = obj.inverse
                rec.append(np.asarray(inv(grid.copy()), dtype=np.float64).tobytes())
                back = np.asarray(inv(f.copy()), dtype=np.float64)
                return rec, f, float(np.nanmax(np.abs(back - grid))) if not np.isnan(back).all() else float("inf")
            for dt in ("float64", "int16"):
                x = np.array(COPY_DATA, dtype=dt)
                rec.append(tuple(float(v) for v in obj.get_limits(x.copy())))
                rec.append(np.asarray(obj(x.copy()), dtype=np.float64).tobytes())
            return rec, None, 0.0


def copies_item(item, seed=0):
    import copy
    import dataclasses
    import pickle

    label, cname, pname, values = item
    cn = _lib()
    C = getattr(cn, cname, None)
    t = Tally()
    if C is None:
        return t
    is_stretch = not cname.endswith("Interval")
    kinds = ["copy.copy", "copy.deepcopy", "pickle", "dataclasses.replace", "attribute_assignment"]
    for old in values:
        for new in values:
            for used in (False, True):
                for kind in kinds:
                    if kind in ("copy.copy", "copy.deepcopy", "pickle") and new != old:
                        continue  # plain copies keep the parameter
                    if kind in ("dataclasses.replace", "attribute_assignment") and new == old and not used:
                        continue
                    case = {"part": "copies", "class": cname, "param": pname, "old": old, "new": new, "used": used, "kind": kind}
                    cls = {"relation": None, "class": cname, "kind": kind, "used_before": used, "via": "copies"}
                    shown = f"{cname}({pname}={old!r})" + (" after use" if used else " never used") + f" -> {kind}" + (f" with {pname}={new!r}" if kind in ("dataclasses.replace", "attribute_assignment") else "")
                    t.extra["copies_points"] += 1
                    try:
                        src = C(**{pname: old})
                        if used:
                            behaviour(src, is_stretch)
                        if kind == "copy.copy":
                            obj = copy.copy(src)
                        elif kind == "copy.deepcopy":
                            obj = copy.deepcopy(src)
                        elif kind == "pickle":
                            obj = pickle.loads(pickle.dumps(src))
                        elif kind == "dataclasses.replace":
                            obj = dataclasses.replace(src, **{pname: new})
                        else:
                            setattr(src, pname, new)
                            obj = src
                        got, fwd, invdev = behaviour(obj, is_stretch)
                        want, fwd0, invdev0 = behaviour(C(**{pname: new}), is_stretch)
                    except Exception as e:
                        try:
                            C(**{pname: new})
                            t.fail(dict(cls, relation="raises"), case, f"{shown}: raised {type(e).__name__}: {e}")
                        except Exception:
                            t.extra["copies_parameter_rejected"] += 1  # the fresh object is rejected as well
                        t.case(key=None, nontrivial=False, outcome=("copies", "exc"))
                        continue
                    probs = []
                    if got != want:
                        extra_ = ""
                        if is_stretch:
                            extra_ = f": forward on [0,1] reaches {float(np.nanmax(fwd)):.4g}, the fresh object reaches {float(np.nanmax(fwd0)):.4g}"
                        probs.append(("behaves_like_fresh_object", f"differs from a freshly constructed {cname}({pname}={new!r}){extra_}"))
                    if is_stretch and not invdev <= max(TOL_INV, 20 * invdev0):
                        probs.append(("stretch_inverse_identity", f"inverse(forward(y)) deviates from y by {invdev:.3g} on the 101-grid (fresh object: {invdev0:.3g})"))
                    for rel, msg in probs:
                        t.fail(dict(cls, relation=rel), dict(case, relation=rel), f"{shown}: {msg}")
                    t.case(key=("copies", cname, pname, old, new, used, kind), nontrivial=True, outcome=("copies", cname, kind, used, tuple(r for r, _ in probs)))
    return t


def norm_copies_item(item, seed=0):
    """Copies of CustomNormalization objects (limits at call time / frozen), used before vs never used, and a stretch parameter
    assigned after use: same outputs as a freshly built object."""
    import copy
    import pickle

    it, st = item
    cn = _lib()
    t = Tally()
    x = np.array(COPY_DATA).reshape(3, 4)
    y = x * 3.0 - 4.0
    kw = {"interval_type": it, "stretch_type": st[0]}
    kw.update(st[1])
    for mode in MODES:
        for used in (False, True):
            for kind in ("copy.copy", "copy.deepcopy", "pickle"):
                case = {"part": "norm-copies", "kwargs": kw, "mode": mode, "used": used, "kind": kind}
                cls = {"relation": None, "class": "CustomNormalization", "kind": kind, "used_before": used, "mode": mode, "via": "copies"}
                t.extra["copies_points"] += 1
                try:
                    with warnings.catch_warnings():
                        warnings.simplefilter("ignore")
                        src = cn.CustomNormalization(data=x.copy() if mode == "frozen" else None, **kw)
                        if used:
                            src(y.copy())
                        obj = copy.copy(src) if kind == "copy.copy" else copy.deepcopy(src) if kind == "copy.deepcopy" else pickle.loads(pickle.dumps(src))
                        fresh = cn.CustomNormalization(data=x.copy() if mode == "frozen" else None, **kw)
                        got = [np.ma.filled(obj(z.copy()).astype(float), np.nan).tobytes() for z in (x, y)]
                        want = [np.ma.filled(fresh(z.copy()).astype(float), np.nan).tobytes() for z in (x, y)]
                        src_after = [np.ma.filled(src(z.copy()).astype(float), np.nan).tobytes() for z in (x, y)]
                except Exception as e:
                    t.extra["copies_copy_kind_rejected:" + kind] += 1
                    t.case(key=None, nontrivial=False, outcome=("norm-copies", kind, "rejected", type(e).__name__))
                    continue
                if got != want or src_after != want:
                    t.fail(dict(cls, relation="behaves_like_fresh_object"), case, f"CustomNormalization({kw}, mode={mode})" + (" after use" if used else " never used") + f" -> {kind}: " + ("the copy" if got != want else "the source after copying") + " gives different outputs from a freshly built object")
                t.case(key=("norm-copies", str(kw), mode, used, kind), nontrivial=True, outcome=("norm-copies", kind, used, mode, got == want))
    return t


# ----------------------------------------------------------------------------- stretch o inverse
def stretch_objects():
    cn = _lib()
    objs = []

    def add(label, cls_name, *args):
        c = getattr(cn, cls_name, None)
        if c is not None:
            objs.append((label, c(*args)))

    add("linear", "LinearStretch")
    add("linear(2,0)", "LinearStretch", 2.0, 0.0)
    add("linear(0.5,0.25)", "LinearStretch", 0.5, 0.25)
    for p in (0.25, 0.5, 1.0, 2.0, 3.0):
        add(f"power({p})", "PowerLawStretch", p)
    for a in (1.0, 10.0, 1000.0):
        add(f"logarithmic({a})", "LogarithmicStretch", a)
        add(f"inverse_logarithmic({a})", "InverseLogarithmicStretch", a)
    for a in (0.01, 0.1, 1.0):
        add(f"asinh({a})", "InverseHyperbolicSineStretch", a)
    for a in (0.2, 1.0 / 3.0, 1.0):
        add(f"sinh({a})", "HyperbolicSineStretch", a)
    return objs


def inverse_identities(ctx_fail, tally):
    """stretch(inverse(y)) and inverse(stretch(y)) on linspace(0, 1, 101). Also through CustomNormalization.stretch."""
    cn = _lib()
    grid = np.linspace(0.0, 1.0, 101)
    worst = 0.0
    objs = stretch_objects()
    for st, p in STRETCHES:  # the stretch objects the normalisation itself builds
        n = cn.CustomNormalization("manual", st, vmin=0.0, vmax=1.0, **p)
        s = getattr(n, "stretch", None)
        if s is not None:
            objs.append((f"CustomNormalization({st},{p}).stretch", s))
    for label, s in objs:
        inv = s.inverse
        for name, f, g in (("stretch(inverse(y))", s, inv), ("inverse(stretch(y))", inv, s)):
            with np.errstate(all="ignore"):
                y = np.asarray(f(np.asarray(g(grid.copy())).copy()), dtype=np.float64)
            err = np.abs(y - grid)
            e = float(np.nanmax(err)) if not np.isnan(err).all() else float("inf")
            if np.isnan(err).any():
                e = float("inf")
            if label.startswith("linear(") :
                # a linear stretch with slope != 1 does not map [0,1] onto [0,1]; its inverse clips. Identity is demanded
                # only where the forward image stays inside [0,1].
                with np.errstate(all="ignore"):
                    inner = np.asarray(g(grid.copy()), dtype=np.float64)
                ok = (inner >= 0.0) & (inner <= 1.0)
                e = float(np.max(err[ok])) if ok.any() else 0.0
            worst = max(worst, e if math.isfinite(e) else 0.0)
            nontrivial = not label.startswith("linear") or "(" in label
            tally.case(key=("inverse", label, name), nontrivial=nontrivial, outcome=(label, name, round(e, 12) if math.isfinite(e) else "inf"))
            tally.extra["inverse_identity_points"] += 1
            if not e <= TOL_INV:
                k = int(np.nanargmax(np.where(np.isnan(err), np.inf, err)))
                ctx_fail(
                    {"relation": "stretch_inverse_identity", "stretch": label.split("(")[0]},
                    {"inverse": label, "order": name},
                    f"{label}: {name} deviates from the identity by {e:.3g} at y={grid[k]:.2f} (got {y[k]!r}); tolerance {TOL_INV}",
                )
    return worst


# ----------------------------------------------------------------------------- run / replay
def run(ctx):
    cn = _lib()
    quick = ctx.quick
    ctx.assume(
        "arrays are judged only when they hold at least two distinct finite values (the property's quantifier); the data builder guarantees it",
        "a configuration whose defined limits are not lower < upper has no 'lower and upper limit': it is executed, must stay in [0,1] and mask NaNs, but order and limits are not demanded",
        "the defined limits are: manual = given value or min/max of the finite data; quantile = linear-interpolation (type 7) quantile of the finite data; centered = vcenter +- (half_range or the largest finite deviation from vcenter)",
        "limit arguments are tried both as Python float and as Python int (an int is a legal float argument)",
        "both ways the library itself uses the object are explored: limits frozen from data= at construction (show_2d) and limits taken at call time (list_of_arrays_to_rgba)",
        "float ramps span +-1e3; float data near the dtype's maximum (where max-min overflows) is not in the alphabet",
        "+-inf inputs may map to any value; only finite inputs and NaNs are judged",
        "bool-dtype data: with data= HEAD gives it the limits (0, 1) whatever interval is configured; the property quantifies over int/float dtypes, so bool points are counted (count_content_family_bool_points_...) and not judged",
        "MaskedArray input: on HEAD the mask of the input is dropped and the numbers under it take part in the limits; the property does not speak about either, so both are counted (count_container_points_where_...) and not judged; NaNs must come back masked whether they were outside or under the input's mask",
    )
    data = data_descriptors(quick)
    specs = interval_specs(quick)
    if len(data) < 50 or len(specs) < 30:
        raise Broken("alphabets degenerate")

    d0 = {"dtype": "float32", "content": "seeded", "decor": "all", "shape": [3, 4], "k": 0}

    def once():
        a = build_data(d0, ctx.seed)
        fin = finite_exact(a)
        rec = []
        for spec in specs[::7]:
            for st in STRETCHES[::3]:
                kw = concrete_kwargs(spec, st, fin)
                obs = observe(a, "frozen", kw)
                rec.append((sorted(kw.items(), key=str), obs.get("exc"), None if "exc" in obs else (obs["data"].tobytes(), obs["mask"].tobytes(), obs.get("rep"))))
        return rec

    ctx.selftest(once)

    items = [(d, mode) for d in data for mode in MODES]
    ctx.say(f"lattice: {len(data)} arrays x {len(MODES)} modes x {len(specs)} intervals x {len(STRETCHES)} stretches = {len(items) * len(specs) * len(STRETCHES)} points")
    ctx.pmap(lattice_item, items, chunk=1, label="lattice", seed=ctx.seed, quick=quick)

    resolve, presets, Config = _resolve()
    if resolve is None or presets is None:
        ctx.seam_missing.append("custom_normalizations._resolve_normalization / NORMALIZATION_PRESETS")
        names = []
    else:
        names = sorted(presets)
        ctx.pmap(preset_item, items, chunk=2, label="presets", seed=ctx.seed, quick=quick)
        if ctx.tally.extra["preset_points"] != len(items) * len(names):
            raise Broken("not every preset was evaluated on every array")

    # the public show_2d path: 2-D float arrays (show_2d converts everything to float32), every preset + keyword forms
    try:
        from quantem.core.visualization import show_2d  # noqa: F401

        have_show = True
    except Exception:
        have_show = False
        ctx.seam_missing.append("quantem.core.visualization.show_2d")
    ditems = []
    if have_show and names:
        for d in data:
            if d["shape"] == [3, 4] and d["dtype"] in ("float64", "uint8", "int16") and d["decor"] in ("none", "all") and d.get("k", 0) == 0:
                for name in names + DISPLAY_EXTRA:
                    ditems.append((d, name))
        ctx.pmap(display_item, ditems, chunk=4, label="show_2d", seed=ctx.seed, quick=quick)

    # data CONTENT family: special contents x the whole interval / stretch lattice (+ limits on data values), presets, show_2d
    cdesc = content_descriptors(quick)
    cspecs = interval_specs(quick) + content_extra_specs()
    citems_c = [(d, mode) for d in cdesc for mode in MODES]
    ctx.say(f"content family: {len(cdesc)} arrays x {len(MODES)} modes x {len(cspecs)} intervals x {len(STRETCHES)} stretches = {len(citems_c) * len(cspecs) * len(STRETCHES)} points")
    ctx.pmap(content_item, citems_c, chunk=1, label="content", seed=ctx.seed, quick=quick)
    judged_c = [it for it in citems_c if it[0]["dtype"] != "bool"]
    if names:
        ctx.pmap(preset_item, judged_c, chunk=4, label="content-presets", seed=ctx.seed, quick=quick)
    cditems = []
    if have_show and names:
        for d in cdesc:
            if d["shape"] == [3, 4] and d["dtype"] in ("float64", "uint8") and d["content"] in CONTENT_DISPLAY:
                for name in names + DISPLAY_EXTRA:
                    cditems.append((d, name))
        ctx.pmap(display_item, cditems, chunk=4, label="content-show_2d", seed=ctx.seed, quick=quick)
    exc_ = ctx.tally.extra
    if (exc_["content_family_points"] != len(citems_c) * len(cspecs) * len(STRETCHES) or exc_["content_family_points_on_0_1_data_with_limits_other_than_0_1"] < 2000
            or exc_["content_family_points_on_two_valued_data"] < 20000 or exc_["content_family_bool_points"] < 1000):
        raise Broken("content family not enumerated completely / degenerate")

    # call histories on one object (lazy: every history of `depth` arrays; frozen: X, Y, X; process-wide default instances)
    depth = 2 if quick else 3
    hcfg = history_configs()
    ctx.say(f"histories: {len(hcfg)} configurations x {len(HIST_ARRAYS)}^{depth} lazy histories + {len(HIST_ARRAYS)} x {len(HIST_ARRAYS) * (len(HIST_ARRAYS) - 1)} frozen histories")
    ctx.pmap(history_item, list(range(len(hcfg))), chunk=1, label="histories", seed=ctx.seed, depth=depth)
    ninst = len(default_instances())
    if ninst == 0:
        ctx.seam_missing.append("no module-level / default-argument CustomNormalization instance found")
    else:
        ctx.pmap(default_instance_item, [0], chunk=1, label="default-instances", seed=ctx.seed)
    if ctx.tally.extra["history_lazy_sequences"] != len(hcfg) * len(HIST_ARRAYS) ** depth or ctx.tally.extra["history_frozen_sequences"] < len(hcfg) * 50:
        raise Broken("history part did not enumerate every history")

    # SIZE x PEDESTAL family (large arrays first so that the pool drains evenly)
    sdesc = size_descriptors(quick)
    ctx.say(f"size x pedestal: {len(sdesc)} arrays x {len(SIZE_INTERVALS) * len(SIZE_STRETCHES)} configurations x {len(MODES)} modes")
    ctx.pmap(size_item, sorted(sdesc, key=lambda d: -int(np.prod(d["shape"]))), chunk=1, label="size-pedestal", seed=ctx.seed)
    if ctx.tally.extra["size_family_points"] != len(sdesc) * len(SIZE_INTERVALS) * len(SIZE_STRETCHES) * len(MODES) or ctx.tally.extra["size_family_points_above_2^20_elements"] < 100:
        raise Broken("size x pedestal family not enumerated completely")

    # SPELLING family of the numeric arguments
    ctx.pmap(spelling_item, list(SPELL_IMAGES), chunk=1, label="spellings", seed=ctx.seed)
    if have_show:
        ctx.pmap(spelling_display_item, list(SPELL_IMAGES), chunk=1, label="spellings-show_2d", seed=ctx.seed)
    exs = ctx.tally.extra
    if exs["spelling_points"] < 2000 or exs["spelling_accepted"] < 1000 or exs["spelling_accepted:np_signed_int"] < 100 or exs["spelling_accepted:np_unsigned_int"] < 100:
        raise Broken("spelling family degenerate")

    # data MAGNITUDE family and input CONTAINER family
    mitems = [(dt, ped, dec) for dt in MAG_EXPONENTS for ped in (False, True) for dec in ("none", "all")]
    ctx.pmap(magnitude_item, mitems, chunk=1, label="magnitudes", seed=ctx.seed)
    citems = [(c, dt) for c in CONTAINERS for dt in ("float64", "float32")]
    ctx.pmap(container_item, citems, chunk=1, label="containers", seed=ctx.seed)
    exm = ctx.tally.extra
    if exm["magnitude_points_below_1"] < 3000 or exm["magnitude_points_above_1"] < 3000 or exm["container_points"] < 800 or exm["container_accepted:ma_nan_outside_mask"] < 20:
        raise Broken("magnitude / container families degenerate")

    # user SUBCLASSES and COPIES of used objects
    ctx.pmap(subclass_item, list(SUBCLASS_DTYPES), chunk=1, label="subclasses", seed=ctx.seed)
    ctx.pmap(copies_item, copy_specs(), chunk=1, label="copies", seed=ctx.seed)
    ctx.pmap(norm_copies_item, [(it, st) for it in ("quantile", "manual", "centered") for st in STRETCHES[::3]], chunk=2, label="norm-copies", seed=ctx.seed)
    if ctx.tally.extra["subclass_points"] < 200 or ctx.tally.extra["copies_points"] < 500:
        raise Broken("subclass / copies families degenerate")

    worst = inverse_identities(ctx.fail, ctx.tally)
    ctx.say(f"stretch/inverse identities: {ctx.tally.extra['inverse_identity_points']} compositions, worst deviation {worst:.3g}")

    ctx.coverage.update(
        exhaustive=True,
        alphabet={
            "dtypes": DTYPES,
            "contents": CONTENTS,
            "decorations_float_only": DECOR,
            "shapes": [list(s) for s in SHAPES],
            "seeded_members_per_dtype_and_shape": 1 if quick else 4,
            "limit_modes": MODES,
            "quantile_lower": Q_LOW if quick else Q_LOW_T,
            "quantile_upper": Q_HIGH if quick else Q_HIGH_T,
            "manual_positions": "vmin/vmax in {none, below, q1, q3, above} relative to the finite data range, as float and as int",
            "centered": "vcenter in {0, mid, above} x half_range in {auto, S/2, 2S}, as float and as int",
            "stretches": [[s, p] for s, p in STRETCHES],
            "presets": names,
            "resolve_forms": [f[0] for f in resolve_forms([(0, Fraction(0)), (1, Fraction(1))])] if resolve is not None else [],
            "display_norms": (names + DISPLAY_EXTRA) if ditems else [],
            "content_family": {
                "value_pairs": {k: [float(x) for x in v] for k, v in CONTENT_PAIRS.items()},
                "pair_patterns": CONTENT_PATTERNS if not quick else {"alternating": "every pair", "single_high / single_low": CONTENT_SPARSE_QUICK},
                "other_contents": CONTENT_OTHERS,
                "dtypes": CONTENT_DTYPES,
                "members": sorted({f"{d_['dtype']}:{d_['content']}" for d_ in cdesc}),
                "shapes": sorted({tuple(d_["shape"]) for d_ in cdesc}),
                "intervals": "every interval configuration of the lattice + limits on data values: manual (min,max), (min,q3), (q1,max), (min,-), (-,max); "
                             "centred (centre, S/2), (centre, auto), (min, auto), (max, auto), (min, S/2); as float and as int",
                "stretches": "every stretch of the lattice",
                "modes": MODES,
                "presets_and_resolve_forms": "all, on every member",
                "display": [f"{dt_}:{c_}" for dt_ in ("float64", "uint8") for c_ in CONTENT_DISPLAY],
                "oracle": "the lattice's clauses, same tolerances; bool-dtype members are executed and counted, not judged",
            },
            "subclass_family": {
                "user_intervals": ["full_range_of_dtype (dtype-dependent get_limits)", "inner_range (data-dependent)", "constant"],
                "use": ["directly: itv(data)", "assigned to norm.interval with library stretches, a subclass of PowerLawStretch and a user-written stretch assigned to norm.stretch"],
                "dtypes": SUBCLASS_DTYPES,
                "oracle": "the limits get_limits declares for the caller's data map to 0 and 1, affine for the linear case, [0,1], monotone",
            },
            "copies_family": {
                "objects": [f"{c}.{p_} over {v}" for _, c, p_, v in copy_specs()] + ["CustomNormalization (3 intervals x 4 stretches x 2 modes)"],
                "kinds": ["copy.copy", "copy.deepcopy", "pickle", "dataclasses.replace (one parameter changed, every ordered pair)", "attribute assignment after use"],
                "states": ["never used", "used before"],
                "oracle": "bit-identical behaviour to a freshly constructed object with the same parameters; inverse(forward(y)) == y",
            },
            "magnitude_family": {
                "scales": {k: [f"2**{e}" for e in v] for k, v in MAG_EXPONENTS.items()},
                "image": "(3,4), multiples of 1/64 in [0.125, 4], with / without a pedestal of 8 (same magnitude), with / without NaN, +inf, -inf",
                "configurations": f"{len(MAG_INTERVALS)} intervals (limits and centres scaled along) x {len(STRETCHES)} stretches x {len(MODES)} modes",
                "oracle": "result equals the result at scale 1; usual clauses",
            },
            "container_family": {
                "containers": CONTAINERS,
                "dtypes": ["float64", "float32"],
                "configurations": f"{len(CONT_INTERVALS)} intervals x {len(CONT_STRETCHES)} stretches x {len(MODES)} modes",
                "oracle": "rejected, or: NaN masked (outside and under the mask), visible part finite in [0,1], monotone and equal to the plain ndarray with the same underlying numbers, input unchanged; dropped user masks and hidden numbers in the limits are counted only",
            },
            "spelling_family": {
                "parameters": ["vmin", "vmax", "vcenter", "half_range", "lower_quantile", "upper_quantile", "power", "logarithmic_index", "asinh_linear_range"],
                "spellings": "python int/float; np.int8/16/32/64, np.uint8/16/32/64; np.float16/32/64; 0-d arrays (image dtype, float64); torch int8/16/32/64/uint8/float32/float64 scalars — only those that hold the value exactly",
                "images": [f"{d} (3,4): signed span 1.6x the positive range, unsigned on a pedestal" for d in SPELL_IMAGES],
                "entry_points": ["CustomNormalization without data=", "CustomNormalization with data=", "show_2d(vmin=, vmax=) / (lower_quantile=, upper_quantile=)"],
                "oracle": "rejected (exception, counted) or equal to the Python-number spelling and satisfying the usual clauses",
            },
            "size_family": {
                "element_counts": "just below / at / just above 2**p as 2-D (r-1,c),(r,c),(r+1,c) and 1-D (2**p,),(2**p+1,), p in " + str(SIZE_POWERS_QUICK if quick else SIZE_POWERS_THOROUGH) + ("; quick keeps (r,c),(r+1,c) for p=20" if quick else ""),
                "shapes": sorted({tuple(d_["shape"]) for d_ in sdesc}),
                "contents": [f"{dt} spread ~{'1000 counts' if dt.startswith('int') else '1'} on pedestal {ped!r}" for dt, ped in SIZE_CONTENTS],
                "intervals": [i[0] for i in SIZE_INTERVALS],
                "stretches": [[s_, p_] for s_, p_ in SIZE_STRETCHES],
                "modes": MODES,
                "clauses": "whole array, vectorised; monotone through the sort order; affine oracle on the whole array (float64) and on a strided sample + extremes (exact rationals)",
            },
            "history_arrays": HIST_ARRAYS,
            "history_configurations": [c[0] for c in hcfg],
            "history_shapes": f"lazy: every sequence of {depth} arrays (repeats included) on one object without data=; frozen: data=D then X, Y, X for every D and ordered pair X != Y; default instances: every ordered pair X != Y",
            "default_instances": [d[0] for d in default_instances()],
        },
        bounds={
            "arrays": len(data),
            "interval_configurations": len(specs),
            "stretch_configurations": len(STRETCHES),
            "lattice_points": len(items) * len(specs) * len(STRETCHES),
            "inverse_grid_points": 101,
            "size_family_arrays": len(sdesc),
            "content_family_arrays": len(cdesc),
            "content_family_interval_configurations": len(cspecs),
            "content_family_points": len(citems_c) * len(cspecs) * len(STRETCHES),
            "content_family_display_points": len(cditems),
            "history_depth": depth,
            "history_configurations": len(hcfg),
        },
        tolerances={"float64_and_int": TOL64, "float32": TOL32, "stretch_inverse": TOL_INV, "size_family_float64_and_int": TOL_SIZE},
    )
    if ctx.tally.extra["points_with_nan"] < 100:
        raise Broken("hardly any lattice point carried a NaN: the masking clause would be vacuous")
    if len(ctx.tally.nontrivial) < 1000 or len(ctx.tally.outcomes) < 500:
        raise Broken(f"degenerate enumeration: {len(ctx.tally.nontrivial)} non-trivial points, {len(ctx.tally.outcomes)} outcomes")


def replay(ctx, case):
    if "inverse" in case:
        t = Tally()
        inverse_identities(lambda cls, c, msg: (ctx.fail(cls, c, msg) if c == case else None), t)
        return
    if case.get("part") in ("subclass", "copies", "norm-copies"):
        if case["part"] == "subclass":
            t = subclass_item(case["dtype"], seed=ctx.seed)
        elif case["part"] == "copies":
            t = copies_item([sp for sp in copy_specs() if sp[1] == case["class"] and sp[2] == case["param"]][0], seed=ctx.seed)
        else:
            t = Tally()
            for it_ in ("quantile", "manual", "centered"):
                for st_ in STRETCHES[::3]:
                    t.merge(norm_copies_item((it_, st_), seed=ctx.seed))
        from mc.harness import jsonable as _js

        for f in t.fails:
            if f["case"] == _js(case) or f["case"] == case:
                print("  observed:", f["msg"])
                ctx.fail(f["cls"], case, f["msg"])
        print("  expected: " + ("the declared limits map to 0 and 1 (affine in between), [0,1], monotone" if case["part"] == "subclass" else "the same behaviour as a freshly constructed object with the same parameters"))
        return
    if case.get("part") in ("magnitude", "container"):
        if case["part"] == "magnitude":
            t = magnitude_item((case["dtype"], case["pedestal"], case["decor"]), seed=ctx.seed)
        else:
            t = container_item((case["container"], case["dtype"]), seed=ctx.seed)
        from mc.harness import jsonable as _js

        for f in t.fails:
            if f["case"] == _js(case) or f["case"] == case:
                print("  observed:", f["msg"])
                ctx.fail(f["cls"], case, f["msg"])
        print("  expected: " + ("the result of the same image at scale 1 and the usual clauses" if case["part"] == "magnitude" else "NaN masked, visible part in [0,1], monotone and equal to the plain ndarray's, input unchanged"))
        return
    if case.get("part") in ("spelling", "spelling-display"):
        t = spelling_item(case["image"], seed=ctx.seed) if case["part"] == "spelling" else spelling_display_item(case["image"], seed=ctx.seed)
        from mc.harness import jsonable as _js

        for f in t.fails:
            if f["case"] == _js(case) or f["case"] == case:
                print("  observed:", f["msg"])
                ctx.fail(f["cls"], case, f["msg"])
        print("  expected: the spelling is rejected, or it gives the result of the Python-number spelling and satisfies the usual clauses")
        return
    if case.get("part") == "size":
        d = case["array"]
        P = LargePrep(build_large(d, ctx.seed))
        probs, dev, info = measure_large(P, case["mode"], case["kwargs"])
        print(f"  {d['dtype']}{tuple(d['shape'])} = {P.a.size} elements ({d['side']} 2**{d['power']}), pedestal {d['pedestal']!r}, data range [{P.af[P.order[0]]!r}, {P.af[P.order[-1]]!r}]")
        print(f"  CustomNormalization(**{case['kwargs']}, data={'<input>' if case['mode'] == 'frozen' else None})(input)")
        print(f"  observed: reported limits {info.get('rep')}, output range over finite entries [{info.get('out_min')}, {info.get('out_max')}], deviations {dev}")
        print("  expected: finite entries in [0,1], non-decreasing in sort order, <= lower limit -> 0, >= upper limit -> 1, linear stretch = affine map, NaN masked")
        for rel, msg in probs:
            ctx.fail({"relation": rel, "mode": case["mode"], "via": "size-family"}, case, msg)
        return
    if case.get("part") == "history":
        if case["mode"] == "default_instance":
            t = default_instance_item(0, seed=ctx.seed)
        else:
            labels = [c[0] for c in history_configs()]
            t = history_item(labels.index(case["config"]), seed=ctx.seed, depth=len(case["arrays"]) if case["mode"] == "lazy" else 2)
        arrs = history_arrays(ctx.seed)
        for n in case["arrays"]:
            print(f"  {n}: {arrs[n].dtype}{arrs[n].shape} range [{np.nanmin(np.where(np.isfinite(arrs[n].astype(float)), arrs[n], np.nan)):.4g}, {np.nanmax(np.where(np.isfinite(arrs[n].astype(float)), arrs[n], np.nan)):.4g}]")
        for f in t.fails:
            if f["case"] == case or (f["case"].get("config") == case["config"] and f["case"].get("arrays") == case["arrays"] and f["case"].get("data") == case.get("data")):
                ctx.fail(f["cls"], case, f["msg"])
        print("  expected: every call equals the single call of a fresh object on the same array (limits of a data=-less object follow the array of the call; frozen limits stay frozen)")
        return
    d, mode, spec = case["data"], case["mode"], case["spec"]
    a = build_data(d, ctx.seed)
    fin = finite_exact(a)
    print("  input:", a.dtype, a.shape, a.ravel().tolist())
    if "array" in case and repr(case["array"]) != repr(jsonable_list(a)):
        print("  note: the recorded array differs from the rebuilt one (different VERIF_SEED?) — using the rebuilt one")
    if mode == "display":
        t = display_item((d, spec["name"]), seed=ctx.seed)
        for f in t.fails:
            ctx.fail(f["cls"], case, f["msg"])
        return
    st = (case["stretch"][0], dict(case["stretch"][1]))
    if spec["type"] == "preset":
        resolve, _, _ = _resolve()
        kw = config_kwargs(resolve(spec["name"]))
        label = "preset:" + spec["name"]
    elif spec["type"] == "form":
        resolve, _, _ = _resolve()
        form = [f for f in resolve_forms(fin) if f[0] == spec["name"]][0]
        kw = config_kwargs(resolve(form[1], **form[2]))
        label = "form:" + spec["name"]
    else:
        kw = concrete_kwargs(spec, st, fin)
        label = interval_label(kw)
    t = Tally()
    obs = judge(t, a, d, mode, label, spec, st, kw, fin)
    lo, hi = expected_limits(kw, fin)
    print(f"  CustomNormalization(**{kw}, data={'<input>' if mode == 'frozen' else None})(input)")
    print(f"  defined limits: ({float(lo)!r}, {float(hi)!r})   reported: {obs.get('rep')}")
    if "exc" in obs:
        print("  observed: raised", obs["exc"])
    else:
        print("  observed output:", np.round(obs["data"], 6).tolist())
        print("  observed mask  :", obs["mask"].tolist())
    print("  expected: finite entries unmasked in [0,1], non-decreasing in the input, <= lower limit -> 0, >= upper limit -> 1, NaN masked")
    for f in t.fails:
        ctx.fail(f["cls"], case, f["msg"])


def jsonable_list(a):
    from mc.harness import jsonable

    return jsonable(a.ravel().tolist())
