"""C03 — Dataset containers stay coherent under any history of public operations.

Shape H (operation histories), level model_checking: explicit-state BFS over histories of public
Dataset operations, every transition executed on the *real* objects and on a reference model
(ndarray, origin, sampling, units, expected class) written from the property text and the
docstrings, never from the library's code.

State      = live Dataset (the object the library returned) + snapshot of its public attributes.
Canonical  = class name, dtype, shape, array bytes, dtype+bytes of origin and sampling, units
             (fine: `name`, `signal_units`, metadata are not part of the property and never read by
             the operations of the alphabet).
Alphabet   = two tiers, see DESIGN "C03":
   A_in(ndim)   all non-indexing operations (copy; origin/sampling/units setters in scalar, list and
                wrong-length form; pad / crop / bin / fourier_resample, each executed in the copying
                AND the in-place variant) + the reduced index set R(ndim); applied at every level.
   A_full(ndim) every index tuple of length <= ndim over {0, -1, :, 1:, ::2, ::-1, [0,2], ...} with
                <= 1 list, <= 1 Ellipsis, leaving >= 1 axis; applied in every state of depth <=
                D_full[ndim of the state]; states reached only through A_full are leaves.
   A_wide(ndim) widened argument domains of the paired operations, applied like A_full (every state up to a
                stated depth, successors are leaves): pad(output_shape) and fourier_resample(out_shape) with
                components independently smaller by 1 / equal / larger by 1 (pad: or 2) than the axis (every
                combination for ndim <= 2; for ndim >= 3 every vector with exactly one smaller and one larger
                component plus all-equal, pad also all-smaller); no-op, mixed per-axis, reversed-order and
                negative `axes` forms of crop / bin / fourier_resample.
   A_spell(ndim) the same requests in other legal spellings (NumPy integer scalars / 0-d arrays as indices, slice
                start / stop / step as NumPy ints, ndarray / list-of-NumPy-ints / boolean-mask instead of a list;
                arguments as NumPy ints, lists vs tuples vs 1-D arrays, np.float64 factors, axes as NumPy ints and
                negative; setter values as tuples, arrays, NumPy scalars), applied like A_wide. Differential
                oracle: an accepted spelling behaves exactly like the canonical one (class, dtype, bytes,
                calibration, source untouched, in-place == copying); a spelling the library rejects must raise and
                change nothing (not a failure: the property names integers, slices, lists and Ellipsis); the
                evidence lists accepted / rejected counts per spelling (coverage.spellings).
   Extension tier  (own small BFS, depth 3 quick / 4 thorough, from 7 further initials incl. user subclasses):
                REGISTRATION events (Dataset.register_dimension(n) of a harness class for a dimensionality without a
                class, and a replacement) interleaved with copy / pad / crop / bin / resample (both variants) /
                indexing: the class of every result is the class registered for its dimensionality AT THE TIME OF
                THE CALL, for fresh, copy-born and index-born objects alike (the canonical key of this tier carries
                the harness-side lineage of the object, so that dedup cannot hide them). USER SUBCLASSES: extra
                attributes + _copy_custom_attributes hook, validating factories (square only / max size) that
                refuse some results, a property: a refusal (the harness exception class) must leave the source /
                the object bit-identical and usable, custom attributes follow the documented copy semantics.
                TWINS by copy.copy / copy.deepcopy / pickle / .copy(): equal to the original, behave like it,
                in-place operations on one never change the other. Dataset._registry is owned like module state.
   List-content tier  the CONTENT of a list index as an alphabet: for an axis of length L every list of length <= 3 over
                -L..L-1 (all of them: ascending, descending, reaching index 0 / -L, constant stride and not, duplicates,
                unsorted, negative spellings), lists of length <= 2 also with the out-of-range neighbours -L-1 and L, in
                every template of the index alphabet (alone behind k full slices, behind / before an Ellipsis, next to
                other slice forms, next to an integer); in every initial state and (plain + Ellipsis templates) in the
                states one shape-changing operation later (quick: 9 initials, lists of length <= 2 on axes longer than 4).
   One-object tier  ONE object lives through the history: mutations in place on the object itself (pad / crop in place,
                array setter with a fresh array of the same shape and dtype whose predecessor is released, array[...] =
                other content), probes = copying variants of fourier_resample / bin / pad / crop on that very object.
                Tree family: every history of length <= 4 (thorough 5) over 4 probes + 4 mutations from 3 initials;
                cycle family: P (R P)^6 for 6 probes x 8 compound replacements that bring the object back to the same
                shape and dtype with other content, from all 42 initials. Every history is run twice: observed (every
                step judged by the reference model, last / every probe also in-place-vs-copying on a deep copy and
                against the same operation on a freshly built dataset) and unobserved (only the public calls, nothing
                allocated in between, as user code would), the two runs must agree step by step.
Checks     every state: one origin/sampling/units entry per axis, class vs dimensionality;
           every transition: result == reference model (incl. calibration arithmetic), source
           bit-identical after every copying operation and not aliased by the result, in-place
           variant == copying variant (bytes and calibration), index expressions NumPy rejects are
           rejected with the same exception class and leave the source untouched.

What the model demands, and why (property text / docstring):
  indexing   NumPy-indexed data (bytes and dtype); kept axes = source axes not consumed by an integer,
             in source order; origin entries of the kept axes unchanged; sampling x slice step;
             class = type(source) when ndim is unchanged, else the class registered for the new ndim
             (Dataset when none).                                   [property statement]
  pad        constant zero padding; "Metadata (origin, sampling) is not modified" [docstring]; a pad never
             removes data: an axis already at least as long as the requested output length stays as it is;
             output_shape with an odd difference: either side may get the extra element
             ("symmetric padding" does not say) - both candidates accepted, variants must agree.
  crop       a[min:max] on the selected axes ("Min and max for cropping each axis"); neither the
             property nor the docstring fixes the origin: unchanged (what the library does today) or
             shifted by min*sampling are both accepted, the two variants must agree. Forms with
             max == 0 are not in the alphabet (ambiguous).
  bin        remainder dropped, block sum / mean over the block volume, sampling x factor,
             origin + 0.5 (factor - 1) sampling_old                      [docstring]
  resample   per axis y = (1/n) sum_{k in S(n) & S(m)} X[k] exp(2 pi i k j / m), S(n) the signed
             frequencies present for length n (DC-aligned crop / zero pad, mean preserved); real
             input -> real part; field of view and physical centre preserved:
             sampling' = sampling n / m, origin' = origin + (n-1)/2 sampling - (m-1)/2 sampling'.
             `factors`: the output length may be floor or ceil of n*factor (>= 1), rounding of .5 is
             not documented.                                             [docstring]

Tolerances (relative to max(1, max|model|)):
  TOL_SINGLE = 2e-4  float32/complex64 results of bin / fourier_resample. Worst deviation observed on
               the unchanged tree over seeds {0,1,2,7,12345}, both tiers: 2.0e-6 (x100 margin); smallest
               mutant effect on data is O(0.1) (a dropped remainder element, a wrong block volume).
  TOL_DOUBLE = 1e-9  float64/complex128 results; worst observed 7.4e-15.
  TOL_CAL    = 1e-9  calibration entries, relative to 1+|expected|; worst observed 1.3e-15; smallest
               mutant effect 0.125 (origin shift 0.5*(2-1)*0.25).
  Everything else (indexing, pad, crop, copy, setters, in-place vs copying) is compared exactly.
The worst deviations of every run are written into the evidence (coverage.worst_deviation).
"""
from __future__ import annotations

import copy
import hashlib
import itertools
import json
import os
import warnings

import numpy as np

from mc.explore import deviation_histories
from mc.harness import Broken, Tally, digest

LEVEL = "model_checking"
TECHNIQUE = (
    "explicit-state BFS over histories of public Dataset operations on the real objects with canonical-hash dedup, "
    "NumPy/DFT-matrix reference model compared on every transition, two-tier index alphabet, deviation-bounded deep histories"
)
CLAIM = (
    "From 42 initial datasets (ndim 1..5 x int16/float32/complex64 x shapes with and without a length-1 axis, base class, "
    "registered subclasses and Dataset4dstem) every history of copy / calibration setters / pad / crop / bin / fourier_resample "
    "(each in the copying and the in-place variant) / indexing up to depth 3 (quick: depth 3 for ndim <= 2, depth 2 above) is "
    "executed on the real objects; on every transition the result equals a reference model written from the property text and "
    "the docstrings (NumPy-indexed data, kept-axis calibration, sampling x step, bin and resample calibration arithmetic), the "
    "source of every copying operation is bit-identical and not aliased, the in-place variant equals the copying variant "
    "byte for byte, rejected index expressions are rejected like NumPy and change nothing, and in every state origin, sampling "
    "and units have one entry per axis and the class matches the dimensionality. A widened argument tier (output shapes with "
    "independently smaller / equal / larger components, no-op, mixed, reversed-order and negative axes forms) is applied in the "
    "shallow states, together with a spelling tier: the same requests written with NumPy integer scalars, lists / tuples / arrays, "
    "np.float64 factors etc. must behave exactly like the canonical spelling or be rejected without changing anything. An extension tier "
    "explores histories with later registrations through Dataset.register_dimension (class of every result = class registered for its "
    "dimensionality at the time of the call), user subclasses with copy hooks, validating factories and properties (a refused operation "
    "leaves its source bit-identical) and twins made by copy.copy / deepcopy / pickle / .copy() (isolated from the original). A list-content tier indexes "
    "every initial dataset, and the states one shape-changing operation later, with every list of length <= 3 over the whole index range -L..L-1 of the "
    "addressed axis (ascending, descending, reaching index 0, any stride, duplicates, negative entries; short lists also out of range) in every position "
    "the index alphabet allows (alone, behind slices, behind or before an Ellipsis, next to an integer). A one-object tier keeps ONE object through the "
    "history - its array replaced in place between two data-dependent operations and back at the same shape and dtype with other content (pad then crop "
    "in place, crop then pad, array setter with fresh same-sized arrays whose predecessors are released, several repetitions, in-place refill) - and "
    "demands that every probe (copying fourier_resample / bin / pad / crop on that object) equals the reference model, the in-place variant on a deep "
    "copy and the same operation on a freshly built dataset holding the same content, in an observed and in an unobserved run of the same history. "
    "The thorough tier adds all histories of "
    "length 8 with at most 2 deviations from a slice-pad-crop-bin cycle. Model checking is the right level because the property "
    "quantifies over histories of a small operation alphabet and names the depth."
)
NOTE = (
    "Trusted: the reference model in checks/C03.py (about 250 lines), the operation alphabet with its tiny argument domains, "
    "the two-tier index alphabet and the depth bounds printed in the evidence; data values are an alphabet (seeded contents, "
    "axis lengths 1..4). Not demanded because neither the property nor the docstrings fix it: the origin after crop, which side "
    "gets the odd element of pad(output_shape), rounding of n*factor at .5, result dtypes of bin / resample. Indexing may return "
    "views (NumPy semantics); for index tuples where NumPy moves the list axis to the front the literal 'kept axes in order' "
    "calibration is demanded. pad(output_shape) with a component smaller than the axis leaves that axis as it is (a pad never "
    "removes data). Negative axes count from the end. Empty arrays as operands are outside the alphabet. The extension tier sets and "
    "restores Dataset._registry (internal name; the tier is skipped and reported as seam_missing when it is absent); custom attributes "
    "of index results are not demanded (indexing constructs through from_array, nothing documented). The one-object tier treats assignment to the public "
    "`array` attribute (it has a setter) and NumPy writes into it as public operations; whether an address is reused by the allocator is not controlled, "
    "the histories only make it as likely as in user code (no evidence count depends on it)."
)
RULE = (
    "BFS with canonical-state dedup from every initial dataset, sharded by (initial, first event); the inner alphabet A_in(ndim) "
    "is applied in every state below the depth bound, the full index alphabet A_full(ndim), the widened argument tier A_wide(ndim) and the spelling tier A_spell(ndim) in every state up to the stated depths; "
    "all tiers are enumerated completely. Every executed variant (copying, in-place) is one transition compared with the "
    "reference model. A transition is non-trivial when it discovers a canonical state not seen before; distinct_nontrivial is the "
    "number of distinct canonical states beyond the initial ones. The extension tier runs its own BFS whose state additionally holds the registry, "
    "the custom attribute values and the lineage of the object (fresh / copy-born / index-born and the registry at that moment). "
    "List-content tier: the Cartesian product index template x list content, every member one transition judged like any index expression. One-object tier: "
    "all histories up to the stated length over probes + in-place mutations (tree family) and all probe x replacement cycles (cycle family), each "
    "executed from a freshly built initial object, once observed step by step and once with nothing but the public calls."
)

TOL_SINGLE = 2e-4
TOL_DOUBLE = 1e-9
TOL_CAL = 1e-9

# For index tuples like d[0, :, [0, 2]] NumPy puts the list axis FIRST in the result, so "the kept axes'
# calibration in order" (the property's wording, and what the library returns) labels the data axes in the
# wrong order. The literal wording is demanded; such transitions are counted (index_list_axis_moved_by_numpy).
# Set to True to demand that calibration entry k describes data axis k (fails on the current tree).
DEMAND_CALIBRATION_FOLLOWS_MOVED_LIST_AXIS = False

# ----------------------------------------------------------------------------- library binding
_L = None


class _Lib:
    pass


def lib():
    """Public classes only. REG is the public ndim -> class map the property talks about."""
    global _L
    if _L is None:
        warnings.simplefilter("ignore")
        import quantem.core.datastructures as ds

        L = _Lib()
        L.Dataset = ds.Dataset
        L.Dataset2d = ds.Dataset2d
        L.Dataset3d = ds.Dataset3d
        L.Dataset4d = ds.Dataset4d
        L.Dataset4dstem = ds.Dataset4dstem
        L.REG = {2: ds.Dataset2d, 3: ds.Dataset3d, 4: ds.Dataset4d}
        L.by_name = {c.__name__: c for c in (ds.Dataset, ds.Dataset2d, ds.Dataset3d, ds.Dataset4d, ds.Dataset4dstem)}
        _define_user_classes(L, ds)
        _L = L
    return _L


def _define_user_classes(L, ds):
    """Harness-defined user classes (extension tier): classes to register later through the documented
    Dataset.register_dimension, and user subclasses with an extra attribute + copy hook, a validating factory, a
    property. Made importable as checks.C03.<name> so that pickle can find them."""

    class Refused(ValueError):
        """Raised by the validating factories below: 'the subclass hook refused'."""

    class H1(ds.Dataset):
        pass

    class H2(ds.Dataset2d):
        pass

    class AttrImage(ds.Dataset2d):
        def _copy_custom_attributes(self, new_dataset):
            super()._copy_custom_attributes(new_dataset)
            new_dataset.hook_runs = getattr(self, "hook_runs", 0) + 1

    class SquareImage(ds.Dataset2d):
        @classmethod
        def from_array(cls, array, *a, **k):
            sh = np.shape(array)
            if len(sh) != 2 or sh[0] != sh[1]:
                raise Refused(f"SquareImage needs a square 2-D array, got shape {sh}")
            return super().from_array(array, *a, **k)

    class SmallStack(ds.Dataset3d):
        LIMIT = 60

        @classmethod
        def from_array(cls, array, *a, **k):
            if np.size(array) > cls.LIMIT:
                raise Refused(f"SmallStack holds at most {cls.LIMIT} elements, got {np.size(array)}")
            return super().from_array(array, *a, **k)

    class PropImage(ds.Dataset2d):
        @property
        def fov(self):
            return tuple(float(n * s) for n, s in zip(self.shape, self.sampling))

        @property
        def label(self):
            return getattr(self, "_label", None)

        @label.setter
        def label(self, v):
            self._label = str(v)

    for c in (Refused, H1, H2, AttrImage, SquareImage, SmallStack, PropImage):
        c.__module__, c.__qualname__ = __name__, c.__name__
        globals()[c.__name__] = c
        setattr(L, c.__name__, c)
        if c is not Refused:
            L.by_name[c.__name__] = c


MODEL_REG = None  # the model's registry (ndim -> class) while the extension tier explores registration events


def model_registry():
    return MODEL_REG if MODEL_REG is not None else lib().REG


def registry_snapshot():
    """Dataset._registry is module-level mutable state; we only read it, but snapshot/verify it anyway
    (internal name: introspected, absence is fine)."""
    reg = getattr(lib().Dataset, "_registry", None)
    return dict(reg) if isinstance(reg, dict) else None


def registry_restore(snap):
    reg = getattr(lib().Dataset, "_registry", None)
    if snap is None or not isinstance(reg, dict):
        return False
    if reg != snap:
        reg.clear()
        reg.update(snap)
        return True
    return False


# ----------------------------------------------------------------------------- initial states
SHAPES = {
    1: [(4,), (1,)],
    2: [(3, 4), (1, 3)],
    3: [(2, 3, 4), (3, 1, 2)],
    4: [(2, 3, 2, 4), (2, 1, 3, 2)],
    5: [(2, 2, 3, 2, 2), (2, 1, 2, 1, 3)],
}
DTYPES = ["int16", "float32", "complex64"]
ORI = [0.5, -1.0, 2.0, 0.25, -3.5]
SAM = [0.5, 2.0, 0.25, 1.5, 4.0]
UNI = ["a", "b", "c", "d", "e"]


def build_initials():
    out = []
    for n in range(1, 6):
        for dt in DTYPES:
            for k in (1, 0):  # the shape without a length-1 axis last: simplest first is the tiny one
                out.append(("Dataset", SHAPES[n][k], dt))
    for ci, (cn, n) in enumerate([("Dataset2d", 2), ("Dataset3d", 3), ("Dataset4d", 4), ("Dataset4dstem", 4)]):
        for j, dt in enumerate(DTYPES):
            out.append((cn, SHAPES[n][(j + ci) % 2], dt))
    return out


INITIALS = build_initials()


def make_init(i, seed):
    cn, shape, dt = INITIALS[i]
    rng = np.random.default_rng([int(seed), 3, int(i)])
    size = int(np.prod(shape))
    if dt == "int16":
        a = (rng.permutation(size) - size // 2).astype(np.int16).reshape(shape)  # distinct values
    elif dt == "float32":
        a = rng.standard_normal(shape).astype(np.float32)
    else:
        a = (rng.standard_normal(shape) + 1j * rng.standard_normal(shape)).astype(np.complex64)
    n = len(shape)
    cls = lib().by_name[cn]
    return cls.from_array(a, name="x", origin=list(ORI[:n]), sampling=list(SAM[:n]), units=list(UNI[:n]))


# ----------------------------------------------------------------------------- alphabets
FORMS = ["0", "-1", ":", "1:", "::2", "::-1", "L", "..."]
_INTS = ("0", "-1")


def decode(code):
    if code == "0":
        return 0
    if code == "-1":
        return -1
    if code == ":":
        return slice(None)
    if code == "1:":
        return slice(1, None)
    if code == "::2":
        return slice(None, None, 2)
    if code == "::-1":
        return slice(None, None, -1)
    if code == "L":
        return [0, 2]
    if code.startswith("L:"):  # a list written out: "L:2,1,0" -> [2, 1, 0] (content alphabet of list indices)
        return [int(x) for x in code[2:].split(",")]
    if code == "...":
        return Ellipsis
    raise ValueError(code)


def _is_list(code):
    return code == "L" or code.startswith("L:")


def code_text(code):
    return "[0, 2]" if code == "L" else ("[" + code[2:].replace(",", ", ") + "]" if code.startswith("L:") else code)


def index_of(ev):
    """ev = ('idx', code, code, ...): a bare index for one code, a tuple otherwise (fresh objects every call)."""
    codes = ev[1:]
    if len(codes) == 1:
        return decode(codes[0])
    return tuple(decode(c) for c in codes)


def _valid_index(codes, n):
    if len(codes) > n:
        return False
    if sum(_is_list(c) for c in codes) > 1 or sum(c == "..." for c in codes) > 1:
        return False
    return sum(c in _INTS for c in codes) < n  # leaves at least one axis


_FULL = {}
_RED = {}


def full_index_alphabet(n):
    if n not in _FULL:
        out = []
        for L in range(1, n + 1):
            for tup in itertools.product(FORMS, repeat=L):
                if _valid_index(tup, n):
                    out.append(("idx",) + tup)
        _FULL[n] = out
    return _FULL[n]


def reduced_index_alphabet(n):
    """R(ndim): each per-axis form on one axis at a time, the Ellipsis forms, a few mixed tuples."""
    if n not in _RED:
        c = [(":",)]
        for k in range(n):
            for f in ("0", "-1", "1:", "::2", "::-1", "L"):
                c.append((":",) * k + (f,))
        c += [("...",), ("...", "0"), ("0", "..."), ("...", "::2"), ("...", "L"), ("1:", "...", "::-1"), ("0", "...", "-1")]
        c += [("0", "::2"), ("1:", "-1"), ("L", "::-1"), ("0", ":", "L"), ("::2", "0", "1:")]
        out, seen = [], set()
        for t in c:
            if t not in seen and _valid_index(t, n):
                seen.add(t)
                out.append(("idx",) + t)
        _RED[n] = out
    return _RED[n]


_FULL_ONLY = {}


def full_only(n):
    if n not in _FULL_ONLY:
        r = set(reduced_index_alphabet(n))
        _FULL_ONLY[n] = [e for e in full_index_alphabet(n) if e not in r]
    return _FULL_ONLY[n]


SETTERS = [("set", f, form) for f in ("origin", "sampling", "units") for form in ("scalar", "list", "badlen")]
PAIRED = (
    [("pad", x) for x in ("w1", "asym", "out")]
    + [("crop", x) for x in ("all_first", "ax0_first", "last_last", "ax02")]
    + [("bin", x) for x in ("2", "tuple", "2_last", "2_mean", "3_last_mean")]
    + [("fr", x) for x in ("plus1", "minus1", "x2_ax0", "half_last")]
)


def enabled(ev, n):
    if ev == ("crop", "ax02"):
        return n >= 3
    if ev[1] in ("rev_axes", "mixed_factors"):
        return n >= 2
    if ev[1].startswith(("out:", "shape:")):
        return len(ev[1].split(":")[1]) == n
    return True


def _vectors(n, smaller, equal, larger, all_smaller):
    """Per-axis choice vectors: every combination for ndim <= 2; for ndim >= 3 all vectors with exactly one
    smaller and one larger component (the others equal) plus all-equal (and all-smaller when asked)."""
    if n <= 2:
        return ["".join(t) for t in itertools.product([smaller, equal] + list(larger), repeat=n)]
    out = []
    for i in range(n):
        for j in range(n):
            if i != j:
                for g in larger:
                    v = [equal] * n
                    v[i], v[j] = smaller, g
                    out.append("".join(v))
    out.append(equal * n)
    if all_smaller:
        out.append(smaller * n)
    return out


_WIDE = {}


def wide_alphabet(n):
    """A_wide(ndim): widened argument domains of the paired operations (applied like A_full: in every state up to a
    stated depth, successors are leaves). pad(output_shape) / fourier_resample(out_shape) with components that are
    independently smaller by 1 (m), equal (e), larger by 1 (p) or 2 (q) than the axis; no-op, mixed, reversed-order
    and negative `axes` forms of crop / bin / fourier_resample."""
    if n not in _WIDE:
        ev = [("pad", "out:" + v) for v in _vectors(n, "m", "e", ("p", "q"), True)]
        ev += [("fr", "shape:" + v) for v in _vectors(n, "m", "e", ("p",), False) if set(v) not in ({"m"}, {"p"})]
        ev += [("crop", x) for x in ("noop", "mixed", "rev_axes", "neg_axis")]
        ev += [("bin", x) for x in ("ones", "mixed123", "rev_axes", "neg_axis")]
        ev += [("fr", x) for x in ("rev_axes", "neg_axis", "mixed_factors")]
        _WIDE[n] = [e for e in ev if enabled(e, n)]
    return _WIDE[n]


def nonindex_alphabet(n):
    return [("copy",)] + SETTERS + [e for e in PAIRED if enabled(e, n)]


def inner_alphabet(n):
    return nonindex_alphabet(n) + reduced_index_alphabet(n)


def deviation_alphabet(n):
    """A_in with the two variants of every paired operation as separate members (the path matters there)."""
    out = [("copy",)] + SETTERS
    for e in PAIRED:
        if enabled(e, n):
            out += [e + ("cp",), e + ("ip",)]
    return out + reduced_index_alphabet(n)


DEFAULT_CYCLE = [
    ("idx", "::2"), ("pad", "w1", "ip"), ("crop", "all_first", "cp"), ("bin", "2", "ip"),
    ("idx", "::2"), ("pad", "w1", "cp"), ("crop", "all_first", "ip"), ("bin", "2", "cp"),
]

SET_VALUES = {
    ("origin", "scalar"): lambda n: 2,  # int scalar on purpose (calibration arrays of integer dtype)
    ("origin", "list"): lambda n: [1.5, -2.0, 0.25, 3.0, -0.5][:n],
    ("origin", "badlen"): lambda n: [0.0] * (n + 1),
    ("sampling", "scalar"): lambda n: 0.5,
    ("sampling", "list"): lambda n: [0.25, 2.0, 0.5, 4.0, 1.0][:n],
    ("sampling", "badlen"): lambda n: [1.0] * (n + 1),
    ("units", "scalar"): lambda n: "nm",
    ("units", "list"): lambda n: ["x0", "x1", "x2", "x3", "x4"][:n],
    ("units", "badlen"): lambda n: ["u"] * (n + 1),
}


def concrete_args(ev, shape):
    """Keyword arguments of the public call for a symbolic paired event in a state of this shape."""
    n = len(shape)
    kind, name = ev[0], ev[1]
    if name.startswith(("out:", "shape:")):
        step = {"m": -1, "e": 0, "p": 1, "q": 2}
        target = tuple(max(L + step[c], 1) for L, c in zip(shape, name.split(":")[1]))
        return {"output_shape": target} if kind == "pad" else {"out_shape": target}
    if kind == "pad":
        if name == "w1":
            return {"pad_width": 1}
        if name == "asym":
            return {"pad_width": tuple((1, 0) if i % 2 == 0 else (0, 2) for i in range(n))}
        if name == "lo1":  # one element before every axis (one-object tier: pad lo1 + crop all_last shifts the content)
            return {"pad_width": tuple((1, 0) for _ in range(n))}
        return {"output_shape": tuple(s + (1 if i % 2 == 0 else 2) for i, s in enumerate(shape))}
    if kind == "crop":
        first = lambda L: (1, L) if L >= 2 else (0, 1)
        last = lambda L: (0, max(L - 1, 1))
        if name == "all_first":
            return {"crop_widths": tuple(first(L) for L in shape)}
        if name == "all_last":
            return {"crop_widths": tuple(last(L) for L in shape)}
        if name == "ax0_first":
            return {"crop_widths": ((1, shape[0]),), "axes": (0,)}
        if name == "last_last":
            return {"crop_widths": (last(shape[-1]),), "axes": (n - 1,)}
        if name == "noop":
            return {"crop_widths": tuple((0, L) for L in shape)}
        if name == "mixed":
            return {"crop_widths": tuple((first, last, lambda L: (0, L))[i % 3](L) for i, L in enumerate(shape))}
        if name == "rev_axes":
            return {"crop_widths": (last(shape[-1]), first(shape[0])), "axes": (n - 1, 0)}
        if name == "neg_axis":
            return {"crop_widths": (first(shape[-1]),), "axes": (-1,)}
        return {"crop_widths": (last(shape[0]), first(shape[2])), "axes": (0, 2)}
    if kind == "bin":
        if name == "2":
            return {"bin_factors": 2}
        if name == "tuple":
            return {"bin_factors": tuple(2 if i % 2 == 0 else 1 for i in range(n))}
        if name == "2_last":
            return {"bin_factors": 2, "axes": n - 1}
        if name == "2_mean":
            return {"bin_factors": 2, "reducer": "mean"}
        if name == "ones":
            return {"bin_factors": 1}
        if name == "mixed123":
            return {"bin_factors": tuple((1, 2, 3)[i % 3] for i in range(n)), "reducer": "mean"}
        if name == "rev_axes":
            return {"bin_factors": (3, 2), "axes": (n - 1, 0)}
        if name == "neg_axis":
            return {"bin_factors": 2, "axes": (-1,)}
        return {"bin_factors": (3,), "axes": (n - 1,), "reducer": "mean"}
    if kind == "fr":
        if name == "plus1":
            return {"out_shape": tuple(s + 1 for s in shape)}
        if name == "minus1":
            return {"out_shape": tuple(max(s - 1, 1) for s in shape)}
        if name == "x2_ax0":
            return {"factors": 2, "axes": 0}
        if name == "rev_axes":
            return {"out_shape": (shape[-1] + 1, max(shape[0] - 1, 1)), "axes": (n - 1, 0)}
        if name == "neg_axis":
            return {"factors": 2, "axes": (-1,)}
        if name == "mixed_factors":
            return {"factors": (2.0, 0.5), "axes": (0, n - 1)}
        return {"factors": (0.5,), "axes": (n - 1,)}
    raise ValueError(ev)


METHOD = {"pad": "pad", "crop": "crop", "bin": "bin", "fr": "fourier_resample"}


# ----------------------------------------------------------------------------- spelling tier
# A_spell(ndim): the SAME request written in another legal spelling (NumPy integer scalars instead of Python ints in
# indices, slice members and arguments; lists / tuples / 1-D arrays; np.float64 factors; ...). Differential oracle: an
# accepted alternative spelling must behave exactly like the canonical spelling of the same state (class, dtype, array
# bytes, calibration; source bit-identical; in-place == copying). A spelling the library REJECTS (raises, object and
# source untouched) is not a failure - the property names "integers, slices, lists and Ellipsis" - it is counted and
# listed in the evidence (coverage.spellings). Event = ("sp", spelling, *canonical_event).
INDEX_SPELLINGS = {
    "int": ["np.int64", "np.int32", "np.intp", "np.uint8", "0d_array"],
    "step": ["step:np.int64", "step:np.int32", "step:np.intp", "step:np.uint8"],
    "start": ["start:np.int64", "step1:np.int64"],
    "slice": ["all:np.int64"],
    "list": ["ndarray", "list_of_np_ints", "bool_mask"],
}
_NPI = {"np.int64": np.int64, "np.int32": np.int32, "np.intp": np.intp, "np.uint8": np.uint8}


def _alt_element(code, spelling, L):
    """The element `code` in the given spelling, or None when the spelling does not apply to this element."""
    if code in _INTS:
        v = int(code)
        if spelling in _NPI:
            return None if (spelling == "np.uint8" and v < 0) else _NPI[spelling](v)
        if spelling == "0d_array":
            return np.array(v)
        return None
    if code == "L":
        if spelling == "ndarray":
            return np.array([0, 2])
        if spelling == "list_of_np_ints":
            return [np.int64(0), np.int64(2)]
        if spelling == "bool_mask":
            m = np.zeros(max(L, 3), dtype=bool)  # too long for L < 3: NumPy rejects it, like [0, 2]
            m[[0, 2]] = True
            return m
        return None
    if code == "...":
        return None
    sl = decode(code)
    if spelling.startswith("step:") and sl.step is not None:
        t = _NPI[spelling[5:]]
        return None if (t is np.uint8 and sl.step < 0) else slice(sl.start, sl.stop, t(sl.step))
    if spelling == "start:np.int64" and sl.start is not None:
        return slice(np.int64(sl.start), sl.stop, sl.step)
    if spelling == "step1:np.int64" and sl.step is None:
        return slice(sl.start, sl.stop, np.int64(1))
    if spelling == "all:np.int64":
        start, stop, step = sl.indices(L)
        if step < 0:
            stop = stop - L if stop >= 0 else -L - 1  # sl.indices gives -1 for "down to the first element"
        return slice(np.int64(start), np.int64(stop), np.int64(step))
    return None


def alt_index(codes, spelling, shape):
    out, hit = [], False
    for k, c in enumerate(codes):
        e = _alt_element(c, spelling, shape[k] if k < len(shape) else 1)
        hit = hit or e is not None
        out.append(decode(c) if e is None else e)
    if not hit:
        return None
    return out[0] if len(out) == 1 else tuple(out)


def _npints(x):
    if isinstance(x, (tuple, list)):
        return tuple(_npints(v) for v in x)
    return np.int64(x)


def _lists(x):
    return [_lists(v) for v in x] if isinstance(x, (tuple, list)) else x


ARG_SPELLINGS = {
    ("pad", "w1"): ["np.int64"],
    ("pad", "asym"): ["list", "ndarray", "np_ints"],
    ("pad", "out"): ["list", "ndarray", "np_ints"],
    ("crop", "all_first"): ["list", "ndarray", "np_ints"],
    ("crop", "ax0_first"): ["axes:list", "axes:ndarray", "axes:np_int_tuple", "axes:np.int64", "axes:int", "axes:negative_np_int"],
    ("bin", "2"): ["np.int64", "np.int32"],
    ("bin", "tuple"): ["list", "ndarray", "np_ints"],
    ("bin", "2_last"): ["axes:list", "axes:ndarray", "axes:np_int_tuple", "axes:np.int64", "axes:negative_np_int"],
    ("fr", "plus1"): ["list", "ndarray", "np_ints"],
    ("fr", "x2_ax0"): ["factors:np.float64", "factors:float", "factors:np.int64", "axes:np.int64", "axes:list"],
    ("fr", "half_last"): ["factors:list", "factors:ndarray", "factors:np_float_tuple"],
}
MAIN_ARG = {"pad": ("pad_width", "output_shape"), "crop": ("crop_widths",), "bin": ("bin_factors",), "fr": ("out_shape",)}
SET_SPELLINGS = {
    ("origin", "list"): ["tuple", "ndarray", "list_of_np.float64"],
    ("origin", "scalar"): ["np.int64", "np.float64", "0d_array"],
    ("sampling", "list"): ["tuple", "ndarray"],
    ("sampling", "scalar"): ["np.float64", "np.float32"],
    ("units", "list"): ["tuple", "ndarray", "list_of_np.str_"],
    ("units", "scalar"): ["np.str_"],
}


def alt_args(ev, args, spelling, n):
    """Keyword arguments of the canonical call `args` rewritten in `spelling`."""
    a = dict(args)
    if spelling.startswith("axes:"):
        ax = a["axes"]
        ax = ax[0] if isinstance(ax, tuple) else ax
        a["axes"] = {"list": [ax], "ndarray": np.array([ax]), "np_int_tuple": (np.int64(ax),), "np.int64": np.int64(ax), "int": int(ax),
                     "negative_np_int": (np.int64(ax - n),)}[spelling[5:]]
        return a
    if spelling.startswith("factors:"):
        f = a["factors"]
        kind = spelling[8:]
        if kind == "np.float64":
            a["factors"] = np.float64(f)
        elif kind == "float":
            a["factors"] = float(f)
        elif kind == "np.int64":
            a["factors"] = np.int64(f)
        elif kind == "list":
            a["factors"] = list(f)
        elif kind == "ndarray":
            a["factors"] = np.array(f)
        else:
            a["factors"] = tuple(np.float64(x) for x in f)
        return a
    key = next(k for k in MAIN_ARG[ev[0]] if k in a)
    v = a[key]
    if spelling in ("np.int64", "np.int32"):
        a[key] = _NPI[spelling](v)
    elif spelling == "list":
        a[key] = _lists(v)
    elif spelling == "ndarray":
        a[key] = np.array(v)
    else:
        a[key] = _npints(v)
    return a


def alt_set_value(field, form, spelling, n):
    v = SET_VALUES[(field, form)](n)
    if spelling == "tuple":
        return tuple(v)
    if spelling == "ndarray":
        return np.array(v)
    if spelling == "list_of_np.float64":
        return [np.float64(x) for x in v]
    if spelling == "list_of_np.str_":
        return [np.str_(x) for x in v]
    if spelling == "0d_array":
        return np.array(v)
    return {"np.int64": np.int64, "np.float64": np.float64, "np.float32": np.float32, "np.str_": np.str_}[spelling](v)


def _spell_index_bases(n):
    forms = ("0", "-1", "1:", "::2", "::-1", "L", ":")
    c = [(f,) for f in forms]
    if n >= 2:
        c += [(":",) * (n - 1) + (f,) for f in forms if f != ":"]
        c += [("0", "::2"), ("1:", "-1"), ("L", "::-1")]
    return [t for t in c if _valid_index(t, n)]


_SPELL = {}


def spell_alphabet(n):
    if n not in _SPELL:
        ev = []
        all_idx = [x for v in INDEX_SPELLINGS.values() for x in v]
        for codes in _spell_index_bases(n):
            for sp in all_idx:
                if alt_index(codes, sp, (4,) * n) is not None:
                    ev.append(("sp", sp, "idx") + codes)
        for (kind, name), sps in ARG_SPELLINGS.items():
            ev += [("sp", sp, kind, name) for sp in sps]
        for (field, form), sps in SET_SPELLINGS.items():
            ev += [("sp", sp, "set", field, form) for sp in sps]
        _SPELL[n] = ev
    return _SPELL[n]


# ----------------------------------------------------------------------------- reference model
class M:
    """Reference state: plain ndarray + float64 origin/sampling + list of units + expected class."""

    __slots__ = ("a", "o", "s", "u", "cls", "tag")

    def __init__(self, a, o, s, u, cls, tag=""):
        self.a, self.o, self.s, self.u, self.cls, self.tag = a, o, s, u, cls, tag


def snapshot(d):
    return M(
        np.array(d.array, copy=True),
        np.array(d.origin, dtype=float, copy=True),
        np.array(d.sampling, dtype=float, copy=True),
        list(d.units),
        type(d),
    )


def _axes_tuple(axes, n):
    if axes is None:
        return tuple(range(n))
    axes = (axes,) if isinstance(axes, int) else tuple(axes)
    return tuple(a + n if a < 0 else a for a in axes)  # negative axes count from the end (NumPy convention)


def model_set(m, field, form):
    n = m.a.ndim
    v = SET_VALUES[(field, form)](n)
    if form == "badlen":
        return None  # must be rejected
    if field == "units":
        u = [v] * n if isinstance(v, str) else list(v)
        return [M(m.a, m.o, m.s, u, m.cls)]
    arr = np.full(n, float(v)) if np.isscalar(v) else np.array(v, dtype=float)
    return [M(m.a, arr, m.s, m.u, m.cls)] if field == "origin" else [M(m.a, m.o, arr, m.u, m.cls)]


def _place(a, before, after):
    shape = tuple(L + b + c for L, b, c in zip(a.shape, before, after))
    out = np.zeros(shape, dtype=a.dtype)
    out[tuple(slice(b, b + L) for L, b in zip(a.shape, before))] = a
    return out


def model_pad(m, pad_width=None, output_shape=None):
    n = m.a.ndim
    if pad_width is not None:
        if isinstance(pad_width, int):
            before = after = [pad_width] * n
        else:
            before, after = [p[0] for p in pad_width], [p[1] for p in pad_width]
        return [M(_place(m.a, before, after), m.o, m.s, m.u, m.cls)]
    # "pad to a desired output shape": a pad never removes data, an axis already at least as long as requested stays
    delta = [max(0, o - L) for o, L in zip(output_shape, m.a.shape)]
    lo, hi = [d // 2 for d in delta], [d - d // 2 for d in delta]
    cands = [M(_place(m.a, lo, hi), m.o, m.s, m.u, m.cls, "extra element after")]
    if lo != hi:
        cands.append(M(_place(m.a, hi, lo), m.o, m.s, m.u, m.cls, "extra element before"))
    return cands


def model_crop(m, crop_widths, axes=None):
    n = m.a.ndim
    axes = _axes_tuple(axes, n)
    a = m.a
    shifted = m.o.copy()
    for ax, (lo, hi) in zip(axes, crop_widths):
        a = a[(slice(None),) * ax + (slice(lo, hi),)]
        shifted[ax] += lo * m.s[ax]
    cands = [M(a, m.o, m.s, m.u, m.cls, "origin unchanged")]
    if not np.array_equal(shifted, m.o):
        cands.append(M(a, shifted, m.s, m.u, m.cls, "origin + min*sampling"))
    return cands


def _acc_dtype(a):
    if np.iscomplexobj(a):
        return np.complex128
    if np.issubdtype(a.dtype, np.integer):
        return np.int64
    return np.float64


def model_bin(m, bin_factors, axes=None, reducer="sum"):
    n = m.a.ndim
    axes = _axes_tuple(axes, n)
    facs = (bin_factors,) * len(axes) if isinstance(bin_factors, int) else tuple(bin_factors)
    a = m.a.astype(_acc_dtype(m.a))
    o, s = m.o.copy(), m.s.copy()
    vol = 1
    for ax, f in zip(axes, facs):
        L = (a.shape[ax] // f) * f
        acc = None
        for j in range(f):
            part = np.take(a, np.arange(j, L, f), axis=ax)
            acc = part if acc is None else acc + part
        a = acc
        o[ax] = o[ax] + 0.5 * (f - 1) * s[ax]
        s[ax] = s[ax] * f
        vol *= f
    if reducer == "mean":
        a = a / vol
    return [M(a, o, s, m.u, m.cls)]


def _signed_freqs(n):
    return range(-(n // 2), (n - 1) // 2 + 1)


_RS = {}


def _resample_matrix(n, mo):
    key = (n, mo)
    if key not in _RS:
        ks = np.array(sorted(set(_signed_freqs(n)) & set(_signed_freqs(mo))), dtype=float)
        j = np.arange(n, dtype=float)
        y = np.arange(mo, dtype=float)
        # W[y, j] = (1/n) sum_k exp(2 pi i k (y/mo - j/n))
        ph = ks[None, None, :] * (y[:, None, None] / mo - j[None, :, None] / n)
        _RS[key] = np.exp(2j * np.pi * ph).sum(axis=2) / n
    return _RS[key]


def model_fr(m, out_shape=None, factors=None, axes=None, observed_shape=None):
    n = m.a.ndim
    axes = _axes_tuple(axes, n)
    if out_shape is not None:
        outs = [int(x) for x in out_shape]
    else:
        facs = (float(factors),) * len(axes) if np.isscalar(factors) else tuple(float(f) for f in factors)
        outs = []
        for ax, f in zip(axes, facs):
            exact = m.a.shape[ax] * f
            allowed = {max(1, int(np.floor(exact))), max(1, int(np.ceil(exact)))}
            got = observed_shape[ax] if observed_shape is not None and len(observed_shape) == n else None
            if got not in allowed:
                raise ModelMismatch(f"output length {got} on axis {ax} is neither floor nor ceil of {m.a.shape[ax]}*{f}")
            outs.append(got)
    a = m.a.astype(np.complex128)
    o, s = m.o.copy(), m.s.copy()
    for ax, mo in zip(axes, outs):
        L = a.shape[ax]
        W = _resample_matrix(L, mo)
        a = np.moveaxis(np.tensordot(W, a, axes=([1], [ax])), 0, ax)
        s_new = s[ax] * L / mo
        o[ax] = o[ax] + 0.5 * (L - 1) * s[ax] - 0.5 * (mo - 1) * s_new
        s[ax] = s_new
    if not np.iscomplexobj(m.a):
        a = a.real
    return [M(a, o, s, m.u, m.cls)]


class ModelMismatch(Exception):
    pass


def expand_index(index, n):
    t = index if isinstance(index, tuple) else (index,)
    real = sum(1 for x in t if x is not Ellipsis)
    out = []
    for x in t:
        if x is Ellipsis:
            out += [slice(None)] * (n - real)
        else:
            out.append(x)
    out += [slice(None)] * (n - len(out))
    return out


def model_getitem(m, index):
    """NumPy decides the data (and whether the expression is legal); the calibration follows the
    property: kept axes in source order, origin entries unchanged, sampling x slice step."""
    a = m.a[index]  # may raise: NumPy rejects the expression
    n = m.a.ndim
    t = expand_index(index, n)
    kept = [ax for ax, x in enumerate(t) if not isinstance(x, (int, np.integer))]
    o = np.array([m.o[ax] for ax in kept], dtype=float)
    s = np.array([m.s[ax] * (t[ax].step if isinstance(t[ax], slice) and t[ax].step is not None else 1) for ax in kept], dtype=float)
    u = [m.u[ax] for ax in kept]
    cls = m.cls if a.ndim == n else model_registry().get(a.ndim, lib().Dataset)  # registered AT THE TIME OF THE CALL
    return [M(a, o, s, u, cls)]


def numpy_moves_list_axis(index, n):
    """True when NumPy puts the list axis first although it is not the first kept axis (an integer and
    the list separated by a slice): the data axes are then permuted relative to 'kept axes in order'."""
    t = expand_index(index, n)
    lists = [i for i, x in enumerate(t) if isinstance(x, list)]
    if not lists:
        return False
    adv = [i for i, x in enumerate(t) if isinstance(x, (list, int))]
    if adv[-1] - adv[0] + 1 == len(adv):
        return False
    kept = [i for i, x in enumerate(t) if not isinstance(x, int)]
    return kept[0] != lists[0]


# ----------------------------------------------------------------------------- observation helpers
def fingerprint(d):
    a = d.array
    o, s = np.asarray(d.origin), np.asarray(d.sampling)
    return (type(d).__name__, a.dtype.str, a.shape, a.tobytes(), o.dtype.str, o.tobytes(), s.dtype.str, s.tobytes(), tuple(d.units))


def canon_of(fp):
    h = hashlib.blake2b(digest_size=8)
    for x in fp:
        h.update(x if isinstance(x, bytes) else repr(x).encode())
        h.update(b"\x00|")
    return h.digest()


FP_FIELDS = ("class", "dtype", "shape", "array bytes", "origin dtype", "origin", "sampling dtype", "sampling", "units")


def fp_diff(a, b):
    return ", ".join(f for f, x, y in zip(FP_FIELDS, a, b) if x != y)


def describe(d):
    try:
        return f"{type(d).__name__}(shape={tuple(d.array.shape)}, dtype={d.array.dtype}, origin={np.asarray(d.origin).tolist()}, sampling={np.asarray(d.sampling).tolist()}, units={list(d.units)})"
    except Exception as e:  # an incoherent object must still be printable
        return f"<{type(d).__name__} not describable: {e!r}>"


def describe_m(m):
    return f"{m.cls.__name__}(shape={tuple(m.a.shape)}, dtype={m.a.dtype}, origin={m.o.tolist()}, sampling={m.s.tolist()}, units={m.u})"


def invariants(d):
    """Checked in every state. Returns [(field, msg)]."""
    out = []
    L = lib()
    try:
        n = d.array.ndim
        if d.ndim != n or tuple(d.shape) != tuple(d.array.shape):
            out.append(("shape", f"ndim/shape properties {d.ndim}/{d.shape} disagree with the array {d.array.shape}"))
        for f in ("origin", "sampling", "units"):
            v = getattr(d, f)
            if f != "units" and np.ndim(v) != 1:
                out.append((f, f"{f} is not one-dimensional: {v!r}"))
            elif len(v) != n:
                out.append((f, f"{f} has {len(v)} entries for {n} axes: {list(v)!r}"))
        if not all(isinstance(u, str) for u in d.units):
            out.append(("units", f"units are not all strings: {d.units!r}"))
    except Exception as e:
        out.append(("access", f"public attributes not readable: {e!r}"))
        return out
    for k, C in model_registry().items():
        if isinstance(d, C) and n != k:
            out.append(("class", f"{type(d).__name__} (registered for {k} dimensions) holds a {n}-dimensional array"))
    return out


class Dev:
    """Worst relative deviations seen by this process (reported in the evidence)."""

    def __init__(self):
        self.single = self.double = self.cal = 0.0


DEV = Dev()


def compare(d, m, exact):
    """None when the live dataset d equals the model state m, else (field, message)."""
    if type(d) is not m.cls:
        return ("class", f"class {type(d).__name__}, expected {m.cls.__name__}")
    a = d.array
    if tuple(a.shape) != tuple(m.a.shape):
        return ("shape", f"shape {tuple(a.shape)}, expected {tuple(m.a.shape)}")
    if exact:
        if a.dtype != m.a.dtype:
            return ("dtype", f"dtype {a.dtype}, expected {m.a.dtype}")
        if a.tobytes() != m.a.tobytes():
            bad = np.argwhere(~np.isclose(a, m.a, rtol=0, atol=0, equal_nan=True))
            return ("array", f"array differs at {len(bad)} of {a.size} elements, first at {bad[0].tolist() if len(bad) else '?'}")
    elif a.size:
        if np.issubdtype(a.dtype, np.integer):
            if not np.array_equal(a.astype(np.int64), m.a):
                return ("array", f"integer array differs from the model (max |diff| {np.abs(a.astype(np.int64) - m.a).max()})")
        else:
            if np.iscomplexobj(a) != np.iscomplexobj(m.a):
                return ("dtype", f"dtype {a.dtype} for a model result of kind {m.a.dtype}")
            scale = max(1.0, float(np.abs(m.a).max()))
            err = float(np.abs(a.astype(m.a.dtype) - m.a).max()) / scale
            single = a.dtype in (np.float32, np.complex64)
            if single:
                DEV.single = max(DEV.single, err) if err <= TOL_SINGLE else DEV.single
            else:
                DEV.double = max(DEV.double, err) if err <= TOL_DOUBLE else DEV.double
            if not err <= (TOL_SINGLE if single else TOL_DOUBLE):
                return ("array", f"array differs from the model by {err:.3g} of max(1,|model|) (tolerance {TOL_SINGLE if single else TOL_DOUBLE:g})")
    for f, exp in (("origin", m.o), ("sampling", m.s)):
        got = np.asarray(getattr(d, f))
        if got.shape != exp.shape:
            return (f, f"{f} {got.tolist()}, expected {exp.tolist()}")
        if got.dtype == np.float64 and got.tobytes() == exp.tobytes():
            continue
        if got.size:
            try:
                err = float(np.max(np.abs(got.astype(float) - exp) / (1.0 + np.abs(exp))))
            except (TypeError, ValueError):
                return (f, f"{f} {got!r} is not numeric")
            if not err <= TOL_CAL:
                return (f, f"{f} {got.tolist()}, expected {exp.tolist()}")
            DEV.cal = max(DEV.cal, err)
    if list(d.units) != list(m.u):
        return ("units", f"units {list(d.units)}, expected {list(m.u)}")
    return None


def compare_any(d, cands, exact):
    first = None
    for m in cands:
        r = compare(d, m, exact)
        if r is None:
            return None, m
        first = first or r
    return first, cands[0]


def alias_check(r, src, array_too):
    out = []
    if array_too and np.shares_memory(r.array, src.array):
        out.append("array")
    for f in ("origin", "sampling"):
        x, y = getattr(r, f), getattr(src, f)
        if isinstance(x, np.ndarray) and isinstance(y, np.ndarray) and np.shares_memory(x, y):
            out.append(f)
    if r.units is src.units:
        out.append("units")
    return out


# ----------------------------------------------------------------------------- one transition on the real code
MODEL = {"pad": model_pad, "crop": model_crop, "bin": model_bin, "fr": model_fr}
EXACT = {"pad": True, "crop": True, "bin": False, "fr": False}


def rebuild(snap):
    return snap.cls.from_array(snap.a.copy(), name="x", origin=snap.o.copy(), sampling=snap.s.copy(), units=list(snap.u))


def call_text(ev, shape):
    k = ev[0]
    if k == "sp":
        return f"{call_text(ev[2:], shape)} spelled '{ev[1]}'"
    if k == "copy":
        return "copy()"
    if k == "set":
        return f"{ev[1]} = {SET_VALUES[(ev[1], ev[2])](len(shape))!r}"
    if k == "idx":
        return "[" + ", ".join(code_text(c) for c in ev[1:]) + "]"
    a = concrete_args(ev, shape)
    return f"{METHOD[k]}(" + ", ".join(f"{x}={y!r}" for x, y in a.items()) + ")"


def execute(live, snap, fp, ev, mode, fails, st):
    """Execute event `ev` in the state (live, snap, fp) on the real object(s) and on the model.

    mode 'both': paired operations run in the copying variant on `live` and in the in-place variant on
    a deep copy, both compared (BFS). mode 'path': the variant named by the event's last member.
    Returns (successor or None, status, n_executions, source_dirty); status 'ok' | 'loop' (rejected as
    the model demands, state unchanged) | 'fail'."""
    kind = ev[0]
    if kind == "sp":
        return execute_spelling(live, snap, fp, ev, fails, st)
    shape = snap.a.shape
    n = len(shape)
    L = lib()
    nfail0 = len(fails)

    def bad(rel, field, msg):
        fails.append(({"relation": rel, "op": kind, "field": field}, f"{describe_m(snap)} . {call_text(ev, shape)}: {msg}"))

    def source_ok(what):
        fp2 = fingerprint(live)
        if fp2 != fp:
            bad("source_bit_identical", fp_diff(fp, fp2), f"{what} changed its source ({fp_diff(fp, fp2)} differ); source is now {describe(live)}")
            return False
        return True

    def judge(r, cands, exact, what, array_alias=True, src=live):
        if not isinstance(r, L.Dataset):
            bad("result_equals_model", "type", f"{what} returned {type(r).__name__}, not a Dataset")
            return False
        inv = invariants(r)
        for f, msg in inv:
            bad("class_matches_dimensionality" if f == "class" else "one_entry_per_axis", f, f"{what}: {msg}")
        if inv:
            return False
        res, m = compare_any(r, cands, exact)
        if res is not None:
            extra = f" [candidate '{m.tag}' of {len(cands)}]" if len(cands) > 1 else ""
            bad("result_equals_model", res[0], f"{what}: {res[1]}; got {describe(r)}, model {describe_m(m)}{extra}")
            return False
        if src is not None:
            al = alias_check(r, src, array_alias)
            if al:
                bad("result_aliases_source", "+".join(al), f"{what}: result shares {'/'.join(al)} with its source (a later write shows through)")
                return False
        return True

    def refused(e, what, obj=None):
        """The user subclass hook refused (extension tier): not a failure, but nothing may have changed."""
        if not isinstance(e, L.Refused):
            return False
        st["refused_by_subclass_hook"] += 1
        if obj is not None and fingerprint(obj) != fp:
            bad("refused_leaves_object_untouched", what, f"{what} was refused by the subclass ({e}) but changed the object: {describe(obj)}")
        return True

    def custom(res, what, copied):
        """Documented copy semantics of custom attributes: copied by .copy() when they have one, else assigned."""
        for name in ("labels", "gain", "_label"):
            if name in vars(live):
                a_, b_ = vars(live)[name], vars(res).get(name, "<missing>")
                if a_ != b_:
                    bad("custom_attributes_follow_copy", name, f"{what}: custom attribute {name} is {b_!r}, the source has {a_!r}")
                    return False
                if copied and isinstance(a_, list) and a_ is b_:
                    bad("custom_attributes_follow_copy", name + ":aliased", f"{what}: custom attribute {name} (has .copy) is the same object as the source's")
                    return False
        if copied and "hook_runs" in vars(live) and vars(res).get("hook_runs", -1) <= vars(live)["hook_runs"]:
            bad("custom_attributes_follow_copy", "hook", f"{what}: the subclass _copy_custom_attributes hook did not run")
            return False
        return True

    # ---- copy
    if kind == "copy":
        try:
            r = live.copy()
        except Exception as e:
            if refused(e, "copy"):
                dirty = not source_ok("refused copy")
                return None, ("fail" if dirty or len(fails) != nfail0 else "loop"), 1, dirty
            bad("unexpected_exception", "-", f"raised {e!r}")
            return None, "fail", 1, not source_ok("copy")
        dirty = not source_ok("copy")
        ok = judge(r, [snap], True, "copy") and custom(r, "copy", True)
        return (r, "ok", 1, dirty) if ok and not dirty else (None, "fail", 1, dirty)

    # ---- setters (in place by nature; executed on a deep copy so that the state itself stays intact)
    if kind == "set":
        field, form = ev[1], ev[2]
        X = copy.deepcopy(live)
        exc = None
        try:
            setattr(X, field, SET_VALUES[(field, form)](n))
        except Exception as e:
            exc = e
        cands = model_set(snap, field, form)
        if cands is None:
            st["setter_rejections"] += 1
            if exc is None:
                bad("wrong_length_rejected", field, f"accepted; object is now {describe(X)}")
            elif fingerprint(X) != fp:
                bad("rejected_leaves_object_untouched", field, f"raised {exc!r} but changed the object: {describe(X)}")
            return None, ("loop" if len(fails) == nfail0 else "fail"), 1, False
        if exc is not None:
            bad("unexpected_exception", field, f"raised {exc!r}")
            return None, "fail", 1, False
        ok = judge(X, cands, True, "setter", src=None)
        return (X, "ok", 1, False) if ok else (None, "fail", 1, False)

    # ---- indexing
    if kind == "idx":
        np_exc = None
        try:
            snap.a[index_of(ev)]
        except Exception as e:  # NumPy itself rejects the expression
            np_exc = e
        r = lib_exc = None
        try:
            r = live[index_of(ev)]
        except Exception as e:
            lib_exc = e
        dirty = not source_ok("indexing")
        if np_exc is not None:
            st["index_rejected_by_numpy"] += 1
            if lib_exc is None:
                bad("numpy_rejected_index_must_raise", "-", f"NumPy raises {np_exc!r}, the library returned {describe(r)}")
            elif not isinstance(lib_exc, type(np_exc)):
                bad("rejected_index_exception_class", "-", f"NumPy raises {type(np_exc).__name__}, the library raised {lib_exc!r}")
            return None, ("loop" if len(fails) == nfail0 else "fail"), 1, dirty
        if lib_exc is not None and refused(lib_exc, "indexing"):
            return None, ("fail" if dirty or len(fails) != nfail0 else "loop"), 1, dirty
        if lib_exc is not None:
            bad("legal_index_raised", type(lib_exc).__name__, f"NumPy accepts the expression (result shape {snap.a[index_of(ev)].shape}), the library raised {lib_exc!r}")
            return None, "fail", 1, dirty
        cands = model_getitem(snap, index_of(ev))
        ok = judge(r, cands, True, "indexing", array_alias=False)
        if ok:
            if r.array.ndim < n:
                st["index_dropped_axis"] += 1
                if type(r) is not type(live):
                    st["index_changed_class"] += 1
            if any(_is_list(c) for c in ev[1:]) and ("0" in ev or "-1" in ev) and numpy_moves_list_axis(index_of(ev), n):
                st["index_list_axis_moved_by_numpy"] += 1
                if DEMAND_CALIBRATION_FOLLOWS_MOVED_LIST_AXIS:
                    bad("calibration_follows_data_axes", "list_axis_moved_by_numpy",
                        f"NumPy puts the list axis first (data shape {tuple(r.array.shape)}), the calibration is still in source order: {describe(r)}")
                    return None, "fail", 1, dirty
        return (r, "ok", 1, dirty) if ok and not dirty else (None, "fail", 1, dirty)

    # ---- pad / crop / bin / fourier_resample
    variant = "both" if mode == "both" else ev[-1]
    sym = ev[:2]
    args = concrete_args(sym, shape)
    meth = METHOD[kind]
    exact = EXACT[kind]
    nexec = 0
    dirty = False
    r = X = None
    cands = None

    def model_for(obj):
        if kind == "fr":
            return model_fr(snap, observed_shape=tuple(obj.array.shape), **args)
        return MODEL[kind](snap, **args)

    r_ok = x_ok = False
    if variant in ("both", "cp"):
        nexec += 1
        try:
            r = getattr(live, meth)(modify_in_place=False, **args)
        except Exception as e:
            if not refused(e, f"copying {meth}"):
                bad("unexpected_exception", "copying", f"copying variant raised {e!r}")
        dirty = not source_ok(f"copying {meth}")
        if r is not None:
            try:
                cands = model_for(r)
                r_ok = judge(r, cands, exact, f"copying {meth}") and custom(r, f"copying {meth}", True)
            except ModelMismatch as e:
                bad("result_equals_model", "shape", f"copying {meth}: {e}")
    if variant in ("both", "ip") and not dirty:
        nexec += 1
        X = copy.deepcopy(live)
        try:
            getattr(X, meth)(modify_in_place=True, **args)
        except Exception as e:
            if not refused(e, f"in-place {meth}", X):
                bad("unexpected_exception", "in_place", f"in-place variant raised {e!r}")
            X = None
        if X is not None and not custom(X, f"in-place {meth}", False):
            X = None
        if X is not None:
            if variant == "both" and r is not None:
                # differential oracle: in-place == copying, byte for byte (calibration by value)
                inv = invariants(X)
                for f, msg in inv:
                    bad("class_matches_dimensionality" if f == "class" else "one_entry_per_axis", f, f"in-place {meth}: {msg}")
                if not inv:
                    fr_, fx = fingerprint(r), fingerprint(X)
                    diff = [f for f, a_, b_ in zip(FP_FIELDS[:4], fr_[:4], fx[:4]) if a_ != b_]
                    for f in ("origin", "sampling"):
                        if not np.array_equal(np.asarray(getattr(r, f), dtype=float), np.asarray(getattr(X, f), dtype=float)):
                            diff.append(f)
                    if list(r.units) != list(X.units):
                        diff.append("units")
                    if diff:
                        bad("inplace_equals_copying", "+".join(diff), f"{meth}: in-place gives {describe(X)}, copying gives {describe(r)} ({', '.join(diff)} differ)")
                    else:
                        x_ok = True
                        st["inplace_vs_copying_compared"] += 1
            else:
                try:
                    x_ok = judge(X, model_for(X), exact, f"in-place {meth}", src=None)
                except ModelMismatch as e:
                    bad("result_equals_model", "shape", f"in-place {meth}: {e}")
    if len(fails) != nfail0 or dirty:
        return None, "fail", nexec, dirty
    succ = X if (variant == "ip" or r is None) else r  # copying variant refused by the subclass: the in-place result is the successor
    if succ is None:
        return None, "loop", nexec, dirty
    return succ, "ok", nexec, dirty


_CANON = {}  # canonical results of the state being expanded: canonical event -> (result | None, exception | None)


def result_diff(a, b):
    """Fields in which two live datasets differ (class, dtype, shape, array bytes, calibration by value, units)."""
    fa, fb = fingerprint(a), fingerprint(b)
    diff = [f for f, x, y in zip(FP_FIELDS[:4], fa[:4], fb[:4]) if x != y]
    for f in ("origin", "sampling"):
        x, y = np.asarray(getattr(a, f)), np.asarray(getattr(b, f))
        if x.shape != y.shape or not np.array_equal(x.astype(float), y.astype(float)):
            diff.append(f)
    if list(a.units) != list(b.units):
        diff.append("units")
    return diff


def execute_spelling(live, snap, fp, ev, fails, st):
    """Differential oracle of the spelling tier: ev = ("sp", spelling, *canonical). Returns like execute();
    status 'same' = behaved exactly like the canonical spelling (or was rejected and changed nothing)."""
    spelling, cev = ev[1], tuple(ev[2:])
    kind = cev[0]
    shape = snap.a.shape
    n = len(shape)
    nfail0 = len(fails)
    dirty = False

    def bad(rel, field, msg):
        fails.append(({"relation": rel, "op": kind, "field": field, "spelling": spelling}, f"{describe_m(snap)} . {call_text(ev, shape)}: {msg}"))

    def source_ok(what):
        fp2 = fingerprint(live)
        if fp2 != fp:
            bad("source_bit_identical", fp_diff(fp, fp2), f"{what} changed its source ({fp_diff(fp, fp2)} differ); source is now {describe(live)}")
            return False
        return True

    def run_copying(call):
        r = exc = None
        try:
            r = call(live)
        except Exception as e:
            exc = e
        return r, exc

    def run_on_copy(call):
        X = copy.deepcopy(live)
        try:
            call(X)
        except Exception as e:
            return X, e
        return X, None

    # the three callables: canonical, alternative (copying or setter), alternative in place
    alt_ip = None
    if kind == "idx":
        if alt_index(cev[1:], spelling, shape) is None:
            return None, "same", 0, False
        canon = lambda d: d[index_of(cev)]
        alt = lambda d: d[alt_index(cev[1:], spelling, shape)]
        in_place = False
    elif kind == "set":
        field, form = cev[1], cev[2]
        canon = lambda d: setattr(d, field, SET_VALUES[(field, form)](n))
        alt = lambda d: setattr(d, field, alt_set_value(field, form, spelling, n))
        in_place = True
    else:
        args = concrete_args(cev, shape)
        meth = METHOD[kind]
        canon = lambda d: getattr(d, meth)(modify_in_place=False, **args)
        alt = lambda d: getattr(d, meth)(modify_in_place=False, **alt_args(cev, args, spelling, n))
        alt_ip = lambda d: getattr(d, meth)(modify_in_place=True, **alt_args(cev, args, spelling, n))
        in_place = False

    if cev not in _CANON:
        if in_place:
            X, exc = run_on_copy(canon)
            _CANON[cev] = (X if exc is None else None, exc)
        else:
            _CANON[cev] = run_copying(canon)
            if not source_ok("canonical spelling"):
                _CANON.pop(cev, None)
                return None, "fail", 1, True
    r_c, exc_c = _CANON[cev]

    nexec = 0
    runs = [("setter" if in_place else "copying", alt, in_place)] + ([("in-place", alt_ip, True)] if alt_ip is not None else [])
    for what, call, on_copy in runs:
        nexec += 1
        if on_copy:
            r_a, exc_a = run_on_copy(call)
        else:
            r_a, exc_a = run_copying(call)
            dirty = dirty or not source_ok(f"{what} variant")
        if exc_a is not None:
            # rejected although the canonical spelling is accepted / both raise (e.g. [0, 2] on a short axis)
            st[("spell_rej_" if exc_c is None else "spell_bth_") + kind + ":" + spelling] += 1
            if on_copy and fingerprint(r_a) != fp:
                bad("rejected_leaves_object_untouched", what, f"{what} variant raised {exc_a!r} but changed the object: {describe(r_a)}")
            continue
        st["spell_acc_" + kind + ":" + spelling] += 1
        if exc_c is not None:
            bad("spelling_equals_canonical", "accepted_where_canonical_raises", f"{what} variant returned {describe(r_a)}; the canonical spelling raises {exc_c!r}")
            continue
        if not isinstance(r_a, lib().Dataset):
            bad("spelling_equals_canonical", "type", f"{what} variant gave {type(r_a).__name__}")
            continue
        inv = invariants(r_a)
        for f, msg in inv:
            bad("class_matches_dimensionality" if f == "class" else "one_entry_per_axis", f, f"{what} variant: {msg}")
        if inv:
            continue
        diff = result_diff(r_a, r_c)
        if diff:
            bad("spelling_equals_canonical", "+".join(diff), f"{what} variant gives {describe(r_a)}, the canonical spelling gives {describe(r_c)} ({', '.join(diff)} differ)")
    if len(fails) != nfail0 or dirty:
        return None, "fail", nexec, dirty
    return None, "same", nexec, False


# ----------------------------------------------------------------------------- exploration
def tier_config(tier):
    """Depth bounds. maxdepth is by the ndim of the INITIAL dataset, dfull by the ndim of the STATE:
    A_full(ndim) is applied in every state of depth <= dfull[ndim] (and below maxdepth)."""
    if tier == "quick":
        # depth 3 for ndim 3 costs another 1.0M transitions (170 CPU-s): measured not to fit the 60 s budget on the shared machine
        return {"maxdepth": {1: 3, 2: 3, 3: 2, 4: 2, 5: 2}, "dfull": {1: 1, 2: 1, 3: 1, 4: 0, 5: 0}, "dwide": {1: 1, 2: 1, 3: 1, 4: 0, 5: 0},
                "dspell": {1: 1, 2: 1, 3: 1, 4: 0, 5: 0}, "ext_depth": 3, "ext_dtwin": 1,
                "lst": {"maxlen": 3, "long_axis": 5, "long_maxlen": 2, "d1_initials": "one_per_ndim_and_subclass", "d1_full_templates": False, "d1_variants": ["cp"]},
                "obj_depth": 4, "obj_cycles": 6}
    return {"maxdepth": {1: 3, 2: 3, 3: 3, 4: 3, 5: 3}, "dfull": {1: 2, 2: 2, 3: 2, 4: 1, 5: 0}, "dwide": {1: 2, 2: 2, 3: 1, 4: 1, 5: 1},
            "dspell": {1: 2, 2: 2, 3: 1, 4: 1, 5: 1}, "ext_depth": 4, "ext_dtwin": 2,
            "lst": {"maxlen": 3, "long_axis": 7, "long_maxlen": 2, "d1_initials": "all", "d1_full_templates": False, "d1_variants": ["cp", "ip"]},
            "obj_depth": 5, "obj_cycles": 8}


FULL_CHUNK = 1500


class Shard:
    """Per-shard bookkeeping: tally, locally seen canonical states, digests for the global count."""

    def __init__(self, init_i):
        self.t = Tally()
        self.seen = set()
        self.out = set()  # coarse observed outcomes (operation kind, status, result class, result ndim)
        self.init_i = init_i
        self.nd0 = len(INITIALS[init_i][1])

    def fail_all(self, fails, hist):
        for cls, msg in fails:
            self.t.fail(cls, {"init": self.init_i, "initial": list(map(str, INITIALS[self.init_i])), "history": [list(e) for e in hist]}, msg)

    def flush_outcomes(self):
        for o in sorted(self.out, key=repr):
            self.t.outcomes.add(digest(list(o)))
        self.out.clear()

    def save(self, scratch, name):
        self.flush_outcomes()
        if scratch:
            arr = np.empty(3 + len(self.seen), dtype=np.uint64)
            arr[:3] = np.array([DEV.single, DEV.double, DEV.cal], dtype=np.float64).view(np.uint64)
            arr[3:] = np.frombuffer(b"".join(sorted(self.seen)), dtype=np.uint64) if self.seen else []
            np.save(os.path.join(scratch, f"c03_nd{self.nd0}_{name}.npy"), arr)


def expand_state(sh, live, fp, hist, depth, events, collect, st):
    """Apply `events` in the state `live` (depth `depth`). New expandable successors go to `collect`."""
    t = sh.t
    if fingerprint(live) != fp:
        # only possible when an operation on another object wrote through shared memory; that operation has
        # already been recorded as a source modification (run() checks that it has) - this state cannot be trusted
        st["states_skipped_changed_after_creation"] += 1
        return
    snap = snapshot(live)
    nd = snap.a.ndim
    _CANON.clear()
    for ev in events:
        fails = []
        succ, status, nexec, dirty = execute(live, snap, fp, ev, "both", fails, st)
        t.n += nexec
        st[f"tr_nd{sh.nd0}"] += nexec
        sh.out.add((ev[0], status, type(succ).__name__ if succ is not None else None, succ.array.ndim if succ is not None else nd))
        if fails:
            sh.fail_all(fails, hist + [ev])
        if dirty:
            live = rebuild(snap)
            fp = fingerprint(live)
            _CANON.clear()
        if status != "ok":
            st[{"loop": "rejected_selfloops", "same": "spellings_same_as_canonical"}.get(status, "failed_transitions")] += 1
            continue
        fps = fingerprint(succ)
        k = canon_of(fps)
        if k in sh.seen:
            continue
        sh.seen.add(k)
        st[f"new_d{depth + 1}_nd{sh.nd0}"] += 1
        if succ.array.size == 0:
            st["empty_terminal_states"] += 1
            continue
        if collect is not None:
            collect.append((succ, fps, hist + [ev]))


def bfs_below(sh, start, start_fp, hist, depth, cfg, st):
    """BFS below a state of depth `depth` (already in sh.seen)."""
    maxdepth = cfg["maxdepth"][sh.nd0]
    frontier = [(start, start_fp, list(hist))]
    while frontier and depth < maxdepth:
        nxt = [] if depth + 1 < maxdepth else None
        for live, fp, h in frontier:
            nd = live.array.ndim
            expand_state(sh, live, fp, h, depth, inner_alphabet(nd), nxt, st)
            if depth <= cfg["dfull"][nd]:
                expand_state(sh, live, fp, h, depth, full_only(nd), None, st)
            if depth <= cfg["dwide"][nd]:
                expand_state(sh, live, fp, h, depth, wide_alphabet(nd), None, st)
            if depth <= cfg["dspell"][nd]:
                expand_state(sh, live, fp, h, depth, spell_alphabet(nd), None, st)
        frontier = nxt or []
        depth += 1


def shard(item, seed=0, cfg=None, scratch=None):
    warnings.simplefilter("ignore")
    kind, init_i = item[0], item[1]
    sh = Shard(0 if kind == "ext" else init_i)
    st = sh.t.extra
    reg = registry_snapshot()
    DEV.single = DEV.double = DEV.cal = 0.0
    try:
        if kind == "ext":
            live0 = fp0 = None
        else:
            live0 = make_init(init_i, seed)
            fp0 = fingerprint(live0)
            sh.seen.add(canon_of(fp0))
        nd = sh.nd0
        if kind == "full":
            lo, hi = item[2], item[3]
            expand_state(sh, live0, fp0, [], 0, full_only(nd)[lo:hi], None, st)
            sh.save(scratch, f"full_{init_i}_{lo}")
        elif kind == "wide":
            expand_state(sh, live0, fp0, [], 0, wide_alphabet(nd), None, st)
            expand_state(sh, live0, fp0, [], 0, spell_alphabet(nd), None, st)
            sh.save(scratch, f"wide_{init_i}")
        elif kind == "bfs":
            ev = inner_alphabet(nd)[item[2]]
            fails = []
            succ, status, _, _ = execute(live0, snapshot(live0), fp0, ev, "both", fails, st.__class__())  # judged and counted by the parent
            if status == "ok" and succ.array.size:
                fps = fingerprint(succ)
                sh.seen.add(canon_of(fps))
                bfs_below(sh, succ, fps, [ev], 1, cfg, st)
            sh.save(scratch, f"bfs_{init_i}_{item[2]}")
        elif kind == "ext":
            ext_shard(sh, item[1], seed, cfg["ext_depth"], cfg["ext_dtwin"], st)
        elif kind in ("lst", "lst1"):
            list_shard(sh, item, seed, cfg, st)
            sh.save(scratch, "_".join(map(str, item)))
        elif kind in ("obj", "cyc"):
            obj_shard(sh, item, seed, cfg, st)
            sh.seen.clear()  # one-object histories are not part of the BFS state count
            sh.save(scratch, "_".join(map(str, item)))
        elif kind in ("dev", "dev0"):
            run_dev(sh, item, seed, st)
            sh.seen.clear()  # deep histories are not part of the BFS state count
            sh.save(scratch, "_".join(map(str, item)))
        else:
            raise ValueError(item)
    finally:
        if registry_restore(reg):
            sh.t.fail({"relation": "registry_unchanged", "op": "-", "field": "-"}, {"init": init_i, "history": []}, "Dataset._registry was modified by the explored operations")
    return sh.t


# ----------------------------------------------------------------------------- extension tier
# Histories with (a) REGISTRATION events - Dataset.register_dimension(n) of a harness class for a dimensionality
# without a class (1) and a replacement for 2 - interleaved with copying / in-place operations and indexing; the
# model: the class of every result is the class registered for its dimensionality AT THE TIME OF THE CALL, whatever
# the history of the object (fresh, copy-born, in-place-born); (b) USER SUBCLASSES as initial states (extra attributes
# + copy hook, validating factories that refuse some results, a property): a refusal must leave the source (or the
# object of an in-place call) bit-identical and usable, custom attributes follow the documented copy semantics;
# (c) TWINS made by copy.copy / copy.deepcopy / pickle / .copy(): equal to the original, behave like it, and in-place
# operations on one never change the other. Dataset._registry is owned like module state: set per state, restored
# after every shard / history. State = (live dataset, registry, custom attribute values).
EXT_INITIALS = {
    "Dataset2d": ("Dataset2d", (3, 4), "float32"),
    "Dataset": ("Dataset", (2, 3, 4), "int16"),
    "Dataset3d": ("Dataset3d", (2, 3, 4), "complex64"),
    "AttrImage": ("AttrImage", (3, 4), "float32"),
    "SquareImage": ("SquareImage", (4, 4), "int16"),
    "SmallStack": ("SmallStack", (2, 3, 4), "float32"),
    "PropImage": ("PropImage", (3, 4), "complex64"),
}
REG_EVENTS = [("reg", 1, "H1"), ("reg", 2, "H2")]
TWIN_KINDS = ("copy.copy", "copy.deepcopy", "pickle", ".copy()")
TWIN_INPLACE = [("pad", "w1"), ("crop", "ax0_first"), ("bin", "2_last"), ("fr", "plus1"), ("set", "origin", "scalar"), ("set", "units", "list")]
TWIN_FOLLOW = [("copy",), ("idx", "0"), ("idx", "::2"), ("crop", "ax0_first")]


def ext_alphabet(n):
    ev = [("copy",), ("set", "origin", "scalar"), ("pad", "w1"), ("crop", "ax0_first"), ("crop", "all_first"), ("bin", "2_last"), ("fr", "plus1")]
    ev += [("idx",) + c for c in (("0",), ("1:",), ("::2",), ("...", "0"), ("0", "0"), (":", "1:")) if _valid_index(c, n)]
    return ev


def make_ext_init(name, seed):
    cn, shape, dt = EXT_INITIALS[name]
    rng = np.random.default_rng([int(seed), 3, 1000 + sorted(EXT_INITIALS).index(name)])
    if dt == "int16":
        a = (rng.permutation(int(np.prod(shape))) - 5).astype(np.int16).reshape(shape)
    elif dt == "float32":
        a = rng.standard_normal(shape).astype(np.float32)
    else:
        a = (rng.standard_normal(shape) + 1j * rng.standard_normal(shape)).astype(np.complex64)
    n = len(shape)
    d = lib().by_name[cn].from_array(a, name="x", origin=list(ORI[:n]), sampling=list(SAM[:n]), units=list(UNI[:n]))
    if cn == "AttrImage":
        d.labels, d.gain, d.hook_runs = ["left", "right"], 1.5, 0
    if cn == "PropImage":
        d.label = "sample-1"
    return d


def set_registry(reg):
    """Own the module-level registry: make it (and the model's) exactly `reg`."""
    global MODEL_REG
    real = lib().Dataset._registry
    real.clear()
    real.update(reg)
    MODEL_REG = dict(reg)


def reg_sig(reg):
    return tuple(sorted((k, c.__name__) for k, c in reg.items()))


def ext_canon(fpv, reg, live, born):
    """`born` = (how the object came to be: fresh / copy / index, registry at that moment): objects that look the same
    but were made before / after a registration, or by a copying operation instead of a constructor, are different
    states (harness-side lineage, nothing read from the library) - otherwise dedup would hide exactly those."""
    custom = [(k, repr(vars(live)[k])) for k in ("labels", "gain", "_label") if k in vars(live)]
    return canon_of(fpv) + canon_of((reg_sig(reg), tuple(custom), born))


def make_twin(kind, d):
    import pickle

    if kind == "copy.copy":
        return copy.copy(d)
    if kind == "copy.deepcopy":
        return copy.deepcopy(d)
    if kind == "pickle":
        return pickle.loads(pickle.dumps(d))
    return d.copy()


def _apply_inplace(d, ev):
    if ev[0] == "set":
        setattr(d, ev[1], SET_VALUES[(ev[1], ev[2])](d.array.ndim))
    else:
        getattr(d, METHOD[ev[0]])(modify_in_place=True, **concrete_args(ev, d.array.shape))


def _apply_copying(d, ev):
    if ev[0] == "copy":
        return d.copy()
    if ev[0] == "idx":
        return d[index_of(ev)]
    return getattr(d, METHOD[ev[0]])(modify_in_place=False, **concrete_args(ev, d.array.shape))


def execute_twin(live, snap, fp, ev, fails, st):
    """("twin", kind): leaf event. Returns the number of executions."""
    kind = ev[1]
    L = lib()
    nexec = 0
    n = snap.a.ndim

    def bad(rel, field, msg):
        fails.append(({"relation": rel, "op": "twin", "field": field, "kind": kind}, f"{describe_m(snap)} . twin by {kind}: {msg}"))

    def twin_of(d):
        try:
            return make_twin(kind, d), None
        except Exception as e:
            return None, e

    T, exc = twin_of(live)
    nexec += 1
    if fingerprint(live) != fp:
        bad("source_bit_identical", "twin", f"making the twin changed the original: {describe(live)}")
        return nexec, True
    if exc is not None:
        if isinstance(exc, L.Refused):
            st["refused_by_subclass_hook"] += 1
            return nexec, False
        bad("twin_equals_original", "raised", f"raised {exc!r}")
        return nexec, False
    if fingerprint(T) != fp:
        bad("twin_equals_original", fp_diff(fp, fingerprint(T)), f"twin is {describe(T)}")
        return nexec, False
    for name in ("labels", "gain", "_label"):
        if name in vars(live) and vars(T).get(name, "<missing>") != vars(live)[name]:
            bad("twin_equals_original", name, f"custom attribute {name} is {vars(T).get(name, '<missing>')!r}, original has {vars(live)[name]!r}")
    # used further: the twin behaves exactly like the original
    for f in TWIN_FOLLOW:
        if not applicable(f, n) or (f[0] == "idx" and not _valid_index(f[1:], n)):
            continue
        outs = []
        for d in (live, T):
            try:
                outs.append((_apply_copying(d, f), None))
            except Exception as e:
                outs.append((None, e))
        nexec += 1
        (r0, e0), (r1, e1) = outs
        if fingerprint(live) != fp:
            bad("source_bit_identical", call_text(f, snap.a.shape), "the follow-up operation changed the original")
            return nexec, True
        if (e0 is None) != (e1 is None):
            bad("twin_behaves_like_original", call_text(f, snap.a.shape), f"{call_text(f, snap.a.shape)}: original gives {describe(r0) if e0 is None else repr(e0)}, twin gives {describe(r1) if e1 is None else repr(e1)}")
        elif e0 is None:
            diff = result_diff(r0, r1)
            if diff:
                bad("twin_behaves_like_original", call_text(f, snap.a.shape), f"{call_text(f, snap.a.shape)}: original gives {describe(r0)}, twin gives {describe(r1)} ({', '.join(diff)} differ)")
    # in-place operations on one never change the other
    for op in TWIN_INPLACE:
        ref = copy.deepcopy(live)
        try:
            _apply_inplace(ref, op)
        except Exception:
            continue  # judged by the ordinary alphabet
        for mutate_twin in (True, False):
            A = copy.deepcopy(live)
            T2, exc = twin_of(A)
            if exc is not None:
                continue
            nexec += 1
            changed, other = (T2, A) if mutate_twin else (A, T2)
            try:
                _apply_inplace(changed, op)
            except Exception as e:
                bad("twin_behaves_like_original", call_text(op, snap.a.shape), f"in-place {call_text(op, snap.a.shape)} on the {'twin' if mutate_twin else 'original'} raised {e!r}")
                continue
            if fingerprint(other) != fp:
                bad("twin_isolated_from_original", call_text(op, snap.a.shape), f"in-place {call_text(op, snap.a.shape)} on the {'twin' if mutate_twin else 'original'} changed the {'original' if mutate_twin else 'twin'}: {describe(other)} ({fp_diff(fp, fingerprint(other))} differ)")
            diff = result_diff(changed, ref)
            if diff:
                bad("twin_behaves_like_original", call_text(op, snap.a.shape), f"in-place {call_text(op, snap.a.shape)} on the {'twin' if mutate_twin else 'original'} gives {describe(changed)}, on an independent object {describe(ref)}")
    return nexec, False


def ext_step(live, snap, fp, reg, ev, fails, st):
    """One event of the extension tier in the state (live, reg). Returns (successor live | None, successor registry,
    status, n_executions, dirty). The module registry is `reg` on entry and on exit."""
    L = lib()
    if ev[0] == "reg":
        n, cls = ev[1], L.by_name[ev[2]]
        L.Dataset.register_dimension(n)(cls)  # the documented hook
        now = dict(L.Dataset._registry)
        set_registry(reg)
        want = dict(reg)
        want[n] = cls
        if now != want:
            fails.append(({"relation": "registration_takes_effect", "op": "reg", "field": str(n)}, f"register_dimension({n})({cls.__name__}): registry is {now}, expected {want}"))
            return None, reg, "fail", 1, False
        if fingerprint(live) != fp:
            fails.append(({"relation": "source_bit_identical", "op": "reg", "field": "-"}, "a registration changed an existing dataset"))
            return None, reg, "fail", 1, True
        return live, want, ("ok" if want != reg else "loop"), 1, False
    if ev[0] == "twin":
        nexec, dirty = execute_twin(live, snap, fp, ev, fails, st)
        set_registry(reg)
        return None, reg, ("fail" if fails else "same"), nexec, dirty
    succ, status, nexec, dirty = execute(live, snap, fp, ev, "both", fails, st)
    if dict(L.Dataset._registry) != reg:
        fails.append(({"relation": "registry_unchanged", "op": ev[0], "field": "-"}, f"{call_text(ev, snap.a.shape)} changed Dataset._registry"))
        set_registry(reg)
    return succ, reg, status, nexec, dirty


def ext_shard(sh, name, seed, depth, dtwin, st):
    global MODEL_REG
    L = lib()
    reg0 = registry_snapshot()
    try:
        live0 = make_ext_init(name, seed)
        for f, msg in invariants(live0):
            sh.t.fail({"relation": "one_entry_per_axis", "op": "init", "field": f}, {"init": "ext:" + name, "history": []}, msg)
        fp0 = fingerprint(live0)
        born0 = ("fresh", reg_sig(reg0))
        seen = {ext_canon(fp0, reg0, live0, born0)}
        frontier = [(live0, fp0, dict(reg0), [], born0)]
        for d in range(depth):
            nxt = []
            for live, fp, reg, hist, born in frontier:
                set_registry(reg)
                if fingerprint(live) != fp:
                    st["states_skipped_changed_after_creation"] += 1
                    continue
                snap = snapshot(live)
                nd = snap.a.ndim
                events = [e for e in REG_EVENTS] + ext_alphabet(nd) + ([("twin", k) for k in TWIN_KINDS] if d <= dtwin else [])
                for ev in events:
                    fails = []
                    succ, reg2, status, nexec, dirty = ext_step(live, snap, fp, reg, ev, fails, st)
                    sh.t.n += nexec
                    st["ext_transitions"] += nexec
                    sh.out.add(("ext", ev[0], status, type(succ).__name__ if succ is not None else None))
                    for cls, msg in fails:
                        sh.t.fail(cls, {"init": "ext:" + name, "initial": list(map(str, EXT_INITIALS[name])), "history": [list(e) for e in hist + [ev]]}, msg)
                    if dirty:
                        live = rebuild_like(live, snap)
                        fp = fingerprint(live)
                    if status != "ok":
                        continue
                    if ev[0] == "idx" and type(succ) in (L.H1, L.H2):
                        st["ext_results_of_a_class_registered_later"] += 1
                    fps = fingerprint(succ)
                    born2 = born if ev[0] in ("reg", "set") else (("index" if ev[0] == "idx" else "copy"), reg_sig(reg))
                    k = ext_canon(fps, reg2, succ, born2)
                    if k in seen:
                        continue
                    seen.add(k)
                    st["ext_states"] += 1
                    if succ.array.size and d + 1 < depth:
                        nxt.append((succ, fps, reg2, hist + [ev], born2))
            frontier = nxt
        st["ext_states"] += 1
    finally:
        MODEL_REG = None
        real = getattr(L.Dataset, "_registry", None)
        if isinstance(real, dict) and reg0 is not None:
            real.clear()
            real.update(reg0)
    sh.flush_outcomes()


def rebuild_like(live, snap):
    """A fresh object equal to the snapshot, keeping the custom attributes (after a detected source modification)."""
    try:
        d = rebuild(snap)
    except Exception:  # a validating factory refuses the snapshot shape: fall back to a deep copy with the old array
        d = copy.deepcopy(live)
        d._array = snap.a.copy()
    for k in ("labels", "gain", "_label", "hook_runs"):
        if k in vars(live):
            setattr(d, k, copy.deepcopy(vars(live)[k]))
    return d


# ----------------------------------------------------------------------------- deviation-bounded deep histories
DEV_LEN = 8
TERMINAL = None


class Node:
    __slots__ = ("live", "snap", "fp")

    def __init__(self, live):
        self.live, self.snap, self.fp = live, None, None

    def fill(self):
        if self.snap is None:
            self.snap = snapshot(self.live)
            self.fp = fingerprint(self.live)


def applicable(ev, nd):
    """Deep histories use the alphabet of the INITIAL ndim. In a state whose ndim has dropped, an operation whose
    arguments cannot be formed, or an index expression that would leave no axis (excluded by the property's
    quantifier), is not applicable: the state stays and nothing is executed."""
    if ev[0] == "sp":
        return applicable(tuple(ev[2:]), nd)
    if ev[0] in METHOD:
        return enabled(ev[:2], nd)
    if ev[0] == "idx":
        return sum(c in _INTS for c in ev[1:]) < nd
    return True


def dev_step(sh, node, ev, hist, st, count=True):
    """One step of a deep history; never mutates `node` (shared between branches). Returns a Node or TERMINAL."""
    node.fill()
    if not applicable(ev, node.snap.a.ndim):
        if count:
            st["dev_not_applicable"] += 1
        return node
    fails = []
    succ, status, nexec, dirty = execute(node.live, node.snap, node.fp, ev, "path", fails, st if count else st.__class__())
    if count:
        sh.t.n += nexec
        st["dev_steps"] += nexec
        if fails:
            sh.fail_all(fails, hist)
    if dirty:
        node.live = rebuild(node.snap)
        node.fp = fingerprint(node.live)
    if status == "loop":
        return node
    if status != "ok":
        return TERMINAL
    if succ.array.size == 0:
        if count:
            st["dev_empty_terminal"] += 1
        return TERMINAL
    return Node(succ)


def dev_pool(nd, p):
    return [a for a in deviation_alphabet(nd) if a != DEFAULT_CYCLE[p]]


def run_dev(sh, item, seed, st):
    kind, init_i = item[0], item[1]
    nd = sh.nd0
    A = deviation_alphabet(nd)
    node = Node(make_init(init_i, seed))
    if kind == "dev0":  # the undeviated history
        hist = []
        for ev in DEFAULT_CYCLE:
            hist.append(ev)
            node = dev_step(sh, node, ev, hist, st)
            if node is TERMINAL:
                break
        st["dev_histories"] += 1
        return
    b, p, lo, hi = item[2], item[3], item[4], item[5]
    prefix = list(DEFAULT_CYCLE[:p])
    for q in range(p):  # verified and counted by the dev0 shard
        node = dev_step(sh, node, DEFAULT_CYCLE[q], prefix[: q + 1], st, count=False)
        if node is TERMINAL:
            return
    suffix_default = list(DEFAULT_CYCLE[p + 1 :])
    for r in dev_pool(nd, p)[lo:hi]:
        h0 = prefix + [r]
        child = dev_step(sh, node, r, h0, st)
        cache = {(): child}
        for _, suf in deviation_histories(suffix_default, A, b - 1):
            st["dev_histories"] += 1
            key = tuple(suf)
            j = len(key)
            while key[:j] not in cache:
                j -= 1
            state = cache[key[:j]]
            for q in range(j, len(key)):
                if state is TERMINAL:
                    st["dev_histories_cut_short"] += 1
                    break
                state = dev_step(sh, state, key[q], h0 + list(key[: q + 1]), st)
                cache[key[: q + 1]] = state


def dev_initials():
    """b = 2 for one base-class initial per ndim (dtype rotating) and one initial per subclass; b = 1 for all others."""
    two = []
    for n in range(1, 6):
        want = ("Dataset", SHAPES[n][0], DTYPES[n % 3])
        two.append(INITIALS.index(want))
    for ci, cn in enumerate(("Dataset2d", "Dataset3d", "Dataset4d", "Dataset4dstem")):
        two.append(next(i for i, x in enumerate(INITIALS) if x[0] == cn and x[2] == DTYPES[ci % 3]))
    return two


# ----------------------------------------------------------------------------- list-content tier
# A_list: the CONTENT of a list index is an alphabet of its own. For an axis of length L every list of length <= 3
# over the whole index range -L .. L-1 (ascending, descending, reaching index 0 / -L, constant stride and not,
# duplicates, unsorted, negative spellings - simply all of them), lists of length <= 2 additionally with the two
# out-of-range neighbours -L-1 and L (NumPy raises IndexError, the library must too), placed in every template the index
# alphabet knows: alone on axis k behind k full slices, behind / before an Ellipsis, next to other slice forms, next to
# an integer. Applied to every initial dataset and (plain and Ellipsis templates) to the states reached by one
# shape-changing operation. Oracle: the ordinary one of indexing (NumPy-indexed data, kept-axis calibration).
LIST_OOR_MAXLEN = 2
LIST_D1_OPS = [("pad", "w1"), ("crop", "all_first"), ("bin", "2"), ("fr", "plus1"), ("idx", "::2"), ("idx", "::-1"), ("idx", "0"), ("idx", "1:")]
_LISTS = {}


def list_codes(L, maxlen):
    key = (L, maxlen)
    if key not in _LISTS:
        out = []
        for k in range(1, maxlen + 1):
            vals = range(-L - 1, L + 1) if k <= LIST_OOR_MAXLEN else range(-L, L)
            out += ["L:" + ",".join(map(str, t)) for t in itertools.product(vals, repeat=k)]
        _LISTS[key] = out
    return _LISTS[key]


def list_templates(n, full):
    """Index tuples with a placeholder X for the list."""
    t = [(":",) * k + ("X",) for k in range(n)] + [("...", "X")]
    if full:
        t += [("X", "...")]
        if n >= 2:
            t += [("...", "X", ":"), ("::-1", "X"), ("X", "::2"), ("1:", "X"), ("0", "X"), ("X", "-1")]
        if n >= 3:
            t += [("0", ":", "X"), ("X", "...", "::2")]
    out = []
    for x in t:
        if x not in out and _valid_index(tuple("L" if c == "X" else c for c in x), n):
            out.append(x)
    return out


def template_axis(t, n):
    pos = t.index("X")
    return n - (len(t) - pos) if "..." in t[:pos] else pos


def list_events(shape, full, maxlen, long_axis, long_maxlen):
    n = len(shape)
    out = []
    for t in list_templates(n, full):
        L = shape[template_axis(t, n)]
        pos = t.index("X")
        for code in list_codes(L, maxlen if L < long_axis else long_maxlen):
            out.append(("idx",) + t[:pos] + (code,) + t[pos + 1 :])
    return out


def list_d1_initials(which):
    return list(range(len(INITIALS))) if which == "all" else dev_initials()


def list_shard(sh, item, seed, cfg, st):
    """("lst", i): A_list in the initial state; ("lst1", i, op, variant): in the state one operation later."""
    lc = cfg["lst"]
    live = make_init(item[1], seed)
    fp = fingerprint(live)
    hist = []
    depth = 0
    if item[0] == "lst1":
        ev, variant = LIST_D1_OPS[item[2]], item[3]
        if variant == "cp":
            succ, status, _, _ = execute(live, snapshot(live), fp, ev, "both", [], st.__class__())  # judged by the BFS parent
            if status != "ok":
                return
        else:
            succ = copy.deepcopy(live)
            try:
                _apply_inplace(succ, ev)
            except Exception:
                return  # judged by the BFS
        if succ.array.size == 0:
            return
        live, fp, hist, depth = succ, fingerprint(succ), [ev + (("ip",) if variant == "ip" else ())], 1
        sh.seen.add(canon_of(fp))
    shape = tuple(live.array.shape)
    events = list_events(shape, depth == 0 or lc["d1_full_templates"], lc["maxlen"], lc["long_axis"] if depth else 10**9, lc["long_maxlen"])
    n0, r0 = sh.t.n, st["index_rejected_by_numpy"]
    expand_state(sh, live, fp, hist, depth, events, None, st)
    st["list_content_cases"] += sh.t.n - n0
    st["list_content_rejected_by_numpy"] += st["index_rejected_by_numpy"] - r0
    st[f"list_content_cases_depth{depth}"] += sh.t.n - n0


# ----------------------------------------------------------------------------- one-object tier
# Every tier above hands each operation a NEW object (the copying result, or a deep copy for the in-place variant). Here
# ONE object lives through the whole history: mutations are executed in place on the object itself (pad / crop in place,
# the array setter with a fresh array of the same shape and dtype, built and handed over without keeping a reference,
# so that the old array is released), probes are the copying variants of the data-dependent operations executed on that
# very object (which must not change it). Anything the object remembers between two calls (derived data kept across a
# replacement of the array, identity-keyed memos - the address of a released array is handed to the next one) shows up
# as a probe result that differs from the reference model, from the in-place variant on a deep copy, or from the same
# operation on a freshly built dataset holding the same content.
#   tree family:  every history of length <= obj_depth over OBJ_PROBES + OBJ_MUTATIONS (every step judged by the model;
#                 the last step of every history additionally in-place-vs-copying and fresh-dataset differential);
#   cycle family: P (R P)^obj_cycles for every probe P and every compound replacement R (executed raw, nothing in
#                 between) that brings the object back to the same shape and dtype with other content - the same-sized
#                 arrays released and allocated again and again make address reuse as likely as in user code.
OBJ_PROBES = [("fr", "plus1"), ("bin", "2"), ("pad", "w1"), ("crop", "all_first")]
OBJ_MUTATIONS = [(("pad", "lo1"),), (("crop", "all_last"),), (("crop", "all_first"),), (("arr",),)]
OBJ_CYCLE_PROBES = OBJ_PROBES + [("fr", "minus1"), ("fr", "x2_ax0")]
OBJ_REPLACEMENTS = {
    "pad_then_crop": (("pad", "lo1"), ("crop", "all_last")),
    "crop_then_pad": (("crop", "all_first"), ("pad", "lo1")),
    "assign_1": (("arr",),),
    "assign_2": (("arr",), ("arr",)),
    "assign_3": (("arr",), ("arr",), ("arr",)),
    "assign_same_content": (("arr_same",),),
    "refill_in_place": (("fill",),),  # array[...] = other content: same array object, same shape and dtype
    "resample_up_down": (("fr", "plus1"), ("fr", "minus1")),
}
OBJ_TREE_INITIALS = [("Dataset", (4,), "float32"), ("Dataset2d", (3, 4), "int16"), ("Dataset", (2, 3, 4), "complex64")]


def obj_alphabet():
    return [("pr",) + p for p in OBJ_PROBES] + [("mu",) + m for m in OBJ_MUTATIONS]


def obj_content(pool, seed, init_i, shape, dtype, k):
    """Content number k (mod 8) for the array setter: seeded, a member of the alphabet like the initial contents."""
    key = (tuple(shape), np.dtype(dtype).str, k % 8)
    if key not in pool:
        rng = np.random.default_rng([int(seed), 31, int(init_i), k % 8] + [int(x) for x in shape])
        if np.issubdtype(dtype, np.integer):
            a = rng.integers(-40, 40, size=shape).astype(dtype)
        elif np.issubdtype(dtype, np.complexfloating):
            a = (rng.standard_normal(shape) + 1j * rng.standard_normal(shape)).astype(dtype)
        else:
            a = rng.standard_normal(shape).astype(dtype)
        pool[key] = a
    return pool[key]


def fresh_diff(r, rf, exact, st):
    """Fields in which a result differs from the result of the same operation on a freshly built dataset. The two
    computations are the same code on the same numbers; bit equality is expected and counted, but for the
    floating-point operations (bin, fourier_resample) only agreement within the model tolerance is demanded."""
    diff = result_diff(r, rf)
    if diff and not exact and all(d in ("array bytes", "dtype") for d in diff) and r.array.size:
        a, b = np.asarray(r.array), np.asarray(rf.array)
        if np.iscomplexobj(a) == np.iscomplexobj(b):
            scale = max(1.0, float(np.abs(b).max()))
            err = float(np.abs(a.astype(np.complex128) - b.astype(np.complex128)).max()) / scale
            if err <= (TOL_SINGLE if a.dtype in (np.float32, np.complex64) else TOL_DOUBLE):
                st["obj_fresh_result_close_not_bitwise"] += 1
                return []
    return diff


def obj_apply_raw(target, subs, contents):
    """The sub-events of one mutation, executed in place on `target` one after the other with nothing in between."""
    k = 0
    for sub in subs:
        if sub[0] == "arr":
            target.array = np.array(contents[k])  # a fresh array, no reference kept: the previous array is released
            k += 1
        elif sub[0] == "fill":
            target.array[...] = contents[k]  # NumPy write through the public attribute: the array object stays
            k += 1
        elif sub[0] == "arr_same":
            target.array = np.array(target.array)  # same content, new identity
        else:
            getattr(target, METHOD[sub[0]])(modify_in_place=True, **concrete_args(sub, tuple(target.array.shape)))


def obj_event_text(ev, shape):
    if ev[0] == "pr":
        pev = tuple(ev[1:])
        return "probe " + (call_text(pev, shape) if shape or pev[0] not in METHOD else f"{METHOD[pev[0]]}({pev[1]})")
    parts = []
    for sub in ev[1:]:
        sub = tuple(sub)
        parts.append({"arr": "array = <fresh array, same shape and dtype, other content>", "arr_same": "array = np.array(array)", "fill": "array[...] = <other content>"}.get(sub[0]) or
                     ("in-place " + (METHOD[sub[0]] + "(" + sub[1] + ")" if not shape else call_text(sub, shape))))
    return "on the object itself: " + "; ".join(parts)


def run_obj_history(init_i, seed, hist, st, fails_out, judge_all=True, pool=None, verbose=False, trace=None):
    """One history on ONE object, observed and judged step by step. Returns (number of executions, number of steps
    done). Stops at the first failure; fails_out gets (class, message, length of the failing prefix). `trace` (a list)
    receives per step (fingerprint of the object after the step, fingerprint of the probe result | None) or None for a
    step that is not applicable."""
    pool = {} if pool is None else pool
    trace = [] if trace is None else trace
    obj = make_init(init_i, seed)
    nexec = arr_k = 0
    at_probe = []
    for j, ev in enumerate(hist):
        ev = tuple(tuple(x) if isinstance(x, list) else x for x in ev)
        snap = snapshot(obj)
        shape = tuple(snap.a.shape)
        n = len(shape)
        fails = []
        if ev[0] == "pr":
            pev = ev[1:]
            if not applicable(pev, n):
                trace.append(None)
                continue
            fp = fingerprint(obj)
            key = (shape, snap.a.dtype.str)
            if any(k == key and b != fp[3] for k, b in at_probe):
                st["obj_probes_after_content_replaced_at_same_shape"] += 1
            at_probe.append((key, fp[3]))
            full = judge_all or j == len(hist) - 1
            _CANON.clear()
            if full or pev[0] not in METHOD:
                succ, status, ne, dirty = execute(obj, snap, fp, pev, "both", fails, st)
            else:
                succ, status, ne, dirty = execute(obj, snap, fp, pev + ("cp",), "path", fails, st)
            nexec += ne
            if fails:  # say that this is a probe on an object with a history
                where = f"one object, step {j + 1} of the history [" + "; ".join(obj_event_text(e, ()) for e in hist[: j + 1]) + "]: "
                fails[:] = [(dict(c, tier="one_object"), where + m) for c, m in fails]
            if full and status == "ok" and not fails and pev[0] in METHOD:
                rf = exc = None
                try:
                    rf = _apply_copying(rebuild(snap), pev)
                except Exception as e:
                    exc = e
                nexec += 1
                diff = ["raised " + repr(exc)] if exc is not None else fresh_diff(succ, rf, EXACT[pev[0]], st)
                if diff:
                    fails.append(({"relation": "equals_same_operation_on_fresh_dataset", "op": pev[0], "field": "+".join(diff)},
                                  f"{describe_m(snap)} . {call_text(pev, shape)} on an object with a history gives {describe(succ)}, on a freshly built dataset "
                                  f"holding the same content {describe(rf) if rf is not None else exc!r} ({', '.join(diff)} differ)"))
                else:
                    st["obj_fresh_compared"] += 1
            if verbose:
                print(f"  step {j + 1}: {obj_event_text(ev, shape)} -> {status}: {describe(succ) if succ is not None else '-'}; object {describe(obj)}")
        else:
            subs = ev[1:]
            cands, exact, contents, exc = [snap], True, [], None
            cur = shape
            try:  # the model first (it also fixes the contents handed to the setter)
                for sub in subs:
                    if sub[0] in ("arr", "fill"):
                        c = obj_content(pool, seed, init_i, cur, cands[0].a.dtype, arr_k)  # (the setter never follows a resample inside one compound)
                        arr_k += 1
                        contents.append(c)
                        cands = [M(c, m.o, m.s, m.u, m.cls, m.tag) for m in cands]
                    elif sub[0] != "arr_same":
                        args = concrete_args(sub, cur)
                        exact = exact and EXACT[sub[0]]
                        cands = [m2 for m in cands for m2 in (model_fr(m, **args) if sub[0] == "fr" else MODEL[sub[0]](m, **args))]
                    cur = tuple(cands[0].a.shape)
            except ModelMismatch as e:
                raise Broken(f"one-object tier: the model cannot follow {ev}: {e}")
            fresh = rebuild(snap)
            try:
                obj_apply_raw(obj, subs, contents)
            except Exception as e:
                exc = e
            nexec += len(subs)

            def bad(rel, field, msg):
                fails.append(({"relation": rel, "op": "+".join(s_[0] for s_ in subs), "field": field, "tier": "one_object"}, f"{describe_m(snap)} . {obj_event_text(ev, shape)}: {msg}"))

            if exc is not None:
                bad("unexpected_exception", "in_place", f"raised {exc!r}")
            else:
                inv = invariants(obj)
                for f, msg in inv:
                    bad("class_matches_dimensionality" if f == "class" else "one_entry_per_axis", f, msg)
                if not inv:
                    res, m = compare_any(obj, cands, exact)
                    if res is not None:
                        bad("result_equals_model", res[0], f"{res[1]}; object is {describe(obj)}, model {describe_m(m)}")
                    else:
                        try:
                            obj_apply_raw(fresh, subs, contents)
                            diff = fresh_diff(obj, fresh, exact, st)
                        except Exception as e:
                            diff = ["raised " + repr(e)]
                        nexec += len(subs)
                        if diff:
                            bad("equals_same_operation_on_fresh_dataset", "+".join(diff), f"the object is {describe(obj)}, a freshly built dataset after the same calls {describe(fresh)}")
            if verbose:
                print(f"  step {j + 1}: {obj_event_text(ev, shape)} -> object {describe(obj)}")
        if fails:
            fails_out.extend((c, m, j + 1) for c, m in fails)
            return nexec, j + 1
        trace.append((fingerprint(obj), fingerprint(succ) if ev[0] == "pr" and status == "ok" and succ is not None else None))
        if obj.array.size == 0:
            return nexec, j + 1
    return nexec, len(hist)


def run_obj_raw(init_i, seed, hist, pool):
    """The same history on ONE fresh object the way user code runs it: nothing but the public calls, no snapshot, no
    model, no second object in between (the only harness activity is taking fingerprints, which creates no arrays).
    Returns (trace like run_obj_history, exception | None, number of executions)."""
    obj = make_init(init_i, seed)
    trace, arr_k, nexec = [], 0, 0
    for ev in hist:
        ev = tuple(tuple(x) if isinstance(x, list) else x for x in ev)
        try:
            if ev[0] == "pr":
                if not applicable(ev[1:], obj.array.ndim):
                    trace.append(None)
                    continue
                r = _apply_copying(obj, ev[1:])
                nexec += 1
                trace.append((fingerprint(obj), fingerprint(r)))
                del r
            else:
                contents = []
                for sub in ev[1:]:
                    if sub[0] in ("arr", "fill"):
                        contents.append(obj_content(pool, seed, init_i, obj.array.shape, obj.array.dtype, arr_k))
                        arr_k += 1
                obj_apply_raw(obj, ev[1:], contents)
                nexec += len(ev) - 1
                trace.append((fingerprint(obj), None))
        except Exception as e:
            return trace, e, nexec
        if obj.array.size == 0:
            break
    return trace, None, nexec


def fp_close(a, b, st):
    """Two fingerprints that differ in the array bytes only, by less than the model tolerance (floating-point operations)."""
    if any(x != y for k, (x, y) in enumerate(zip(a, b)) if k != 3):
        return False
    x, y = (np.frombuffer(f[3], dtype=np.dtype(f[1])).astype(np.complex128) for f in (a, b))
    err = float(np.abs(x - y).max()) / max(1.0, float(np.abs(y).max())) if x.size else 0.0
    if err <= (TOL_SINGLE if np.dtype(a[1]) in (np.float32, np.complex64) else TOL_DOUBLE):
        st["obj_raw_result_close_not_bitwise"] += 1
        return True
    return False


def fp_text(fp):
    return f"{fp[0]}(shape={fp[2]}, dtype={np.dtype(fp[1])}, array={np.frombuffer(fp[3], dtype=np.dtype(fp[1])).tolist()[:8]}{'...' if len(fp[3]) > 8 * np.dtype(fp[1]).itemsize else ''}, origin={np.frombuffer(fp[5], dtype=np.dtype(fp[4])).tolist()}, sampling={np.frombuffer(fp[7], dtype=np.dtype(fp[6])).tolist()}, units={list(fp[8])})"


def obj_both_runs(init_i, seed, hist, st, fails_out, judge_all, pool, verbose=False):
    """The observed run (every step judged) and, when it has no failure, the unobserved run of the same history; the two
    must agree step by step: object after the step and probe result, bit for bit (floating-point results: within the
    model tolerance). What the observed run has checked against the model then holds for the unobserved run too."""
    trace = []
    nexec, done = run_obj_history(init_i, seed, hist, st, fails_out, judge_all=judge_all, pool=pool, verbose=verbose, trace=trace)
    if fails_out:
        return nexec
    raw, exc, ne = run_obj_raw(init_i, seed, hist, pool)
    nexec += ne
    st["obj_unobserved_runs"] += 1
    for j, (a, b) in enumerate(zip(raw, trace)):
        if a is None or b is None:
            continue
        ev = hist[j]
        for k, what in ((0, "the object after the step"), (1, "the probe result")):
            if a[k] is None or b[k] is None or a[k] == b[k]:
                continue
            if k == 1 and not EXACT.get(ev[1], True) and fp_close(a[k], b[k], st):
                continue
            if k == 0 and ev[0] == "mu" and not all(EXACT.get(s_[0], True) for s_ in ev[1:]) and fp_close(a[k], b[k], st):
                continue
            fails_out.append(({"relation": "unobserved_run_equals_observed_run", "op": ev[1] if ev[0] == "pr" else "+".join(s_[0] for s_ in ev[1:]), "field": fp_diff(b[k], a[k]), "tier": "one_object"},
                              f"step {j + 1} ({obj_event_text(ev, ())}) of a history executed on one object with nothing in between: {what} is {fp_text(a[k])}; "
                              f"in the same history observed step by step (every step checked against the model) it is {fp_text(b[k])}", j + 1))
            if verbose:
                print(f"  unobserved run, step {j + 1}: {what} differs from the observed run")
            return nexec
    if exc is not None or len(raw) != len(trace):
        fails_out.append(({"relation": "unobserved_run_equals_observed_run", "op": "-", "field": "raised" if exc is not None else "length", "tier": "one_object"},
                          f"the history executed on one object with nothing in between stopped after {len(raw)} steps ({exc!r}); observed step by step it runs through {len(trace)} steps", min(len(raw) + 1, len(hist))))
    return nexec


def obj_case(init_i, hist, judge_all):
    return {"kind": "obj", "init": init_i, "initial": list(map(str, INITIALS[init_i])), "judge_all": bool(judge_all), "history": [[list(x) if isinstance(x, tuple) else x for x in e] for e in hist]}


def obj_shard(sh, item, seed, cfg, st):
    init_i = item[1]
    pool = {}
    if item[0] == "obj":  # tree family below one first event
        O = obj_alphabet()
        failed = []
        for length in range(1, cfg["obj_depth"] + 1):
            for rest in itertools.product(O, repeat=length - 1):
                hist = [O[item[2]]] + list(rest)
                if any(hist[: len(f)] == f for f in failed):
                    st["obj_histories_below_a_failed_prefix"] += 1
                    continue
                fails = []
                nexec = obj_both_runs(init_i, seed, hist, st, fails, False, pool)
                sh.t.case(nontrivial=False, n=nexec)
                st["obj_executions"] += nexec
                st["obj_tree_histories"] += 1
                for cls, msg, upto in fails:
                    failed.append(hist[:upto])
                    sh.t.fail(cls, obj_case(init_i, hist[:upto], False), msg)
    else:  # cycle family
        nd = sh.nd0
        for P in OBJ_CYCLE_PROBES:
            if not applicable(P, nd):
                continue
            for rname in sorted(OBJ_REPLACEMENTS):
                hist = [("pr",) + P] + [("mu",) + OBJ_REPLACEMENTS[rname], ("pr",) + P] * cfg["obj_cycles"]
                fails = []
                nexec = obj_both_runs(init_i, seed, hist, st, fails, True, pool)
                sh.t.case(nontrivial=False, n=nexec)
                st["obj_executions"] += nexec
                st["obj_cycle_histories"] += 1
                sh.out.add(("cyc", P[0], rname, bool(fails)))
                for cls, msg, upto in fails:
                    sh.t.fail(cls, obj_case(init_i, hist[:upto], True), msg)


# ----------------------------------------------------------------------------- driver
def run_history(init_i, seed, hist, fails_out, verbose=False):
    """Re-execute one history with all checks at every step (self-test and replay). Owns Dataset._registry."""
    global MODEL_REG
    ext = isinstance(init_i, str) and init_i.startswith("ext:")
    reg0 = registry_snapshot()
    try:
        live = make_ext_init(init_i[4:], seed) if ext else make_init(int(init_i), seed)
        reg = dict(reg0) if (ext and reg0 is not None) else None
        for f, msg in invariants(live):
            fails_out.append(({"relation": "one_entry_per_axis", "op": "init", "field": f}, msg))
        trace = [canon_of(fingerprint(live)).hex()]
        st = Tally().extra
        for i, ev in enumerate(hist):
            ev = tuple(ev)
            if not applicable(ev, live.array.ndim):
                if verbose:
                    print(f"  step {i + 1}: {list(ev)} not applicable to a {live.array.ndim}-dimensional state, skipped")
                continue
            snap, fp = snapshot(live), fingerprint(live)
            mode = "path" if ev[0] in METHOD and ev[-1] in ("cp", "ip") else "both"
            fails = []
            _CANON.clear()
            if reg is not None:
                set_registry(reg)
                succ, reg, status, _, _ = ext_step(live, snap, fp, reg, ev, fails, st)
            else:
                succ, status, _, _ = execute(live, snap, fp, ev, mode, fails, st)
            fails_out.extend(fails)
            if verbose:
                text = list(ev) if ev[0] in ("reg", "twin") else call_text(ev, snap.a.shape)
                print(f"  step {i + 1}: {text} [{mode if mode == 'both' else ev[-1]}] -> {status}: {describe(succ) if succ is not None else describe(live)}")
            if status == "fail":
                break
            if status == "ok":
                live = succ
            trace.append(canon_of(fingerprint(live)).hex())
            if live.array.size == 0:
                break
        return trace, live
    finally:
        MODEL_REG = None
        real = getattr(lib().Dataset, "_registry", None)
        if isinstance(real, dict) and reg0 is not None:
            real.clear()
            real.update(reg0)


def run(ctx):
    lib()
    cfg = tier_config(ctx.tier)
    reg0 = registry_snapshot()
    if reg0 is None:
        ctx.seam_missing.append("Dataset._registry (only snapshotted for hygiene; the public classes are used for the verdict)")
    ctx.assume(
        "crop: the origin may stay or move by min*sampling (neither property nor docstring fixes it); pad(output_shape): either side may take the odd element; fourier_resample(factors): floor or ceil of n*factor",
        "indexing may return views of the source array (NumPy semantics); aliasing of the array is only forbidden for copy/pad/crop/bin/fourier_resample",
        "for index tuples where NumPy moves the list axis to the front (integer and list separated by a slice) the literal 'kept axes' calibration in order' is demanded although the data axes are then permuted (counted as index_list_axis_moved_by_numpy)",
        "states holding an empty array are compared but not expanded; crop widths with max == 0 are outside the alphabet; negative axes count from the end",
        "pad(output_shape) with a component smaller than the axis: that axis stays as it is (a pad never removes data)",
        "result dtypes of bin / fourier_resample are not demanded (only that both variants agree); values are compared in double precision",
    )

    written = [
        (INITIALS.index(("Dataset", (2, 3, 4), "float32")), [("idx", "0", "...", "::2"), ("fr", "plus1"), ("bin", "2_last"), ("set", "origin", "scalar"), ("idx", "L", "::-1")]),
        (len(INITIALS) - 1, [("pad", "out"), ("idx", "...", "0"), ("crop", "all_first"), ("copy",)]),
        (INITIALS.index(("Dataset", (2, 2, 3, 2, 2), "complex64")), [("idx", "0", ":", "L"), ("bin", "2_last"), ("fr", "half_last")]),
    ]

    if reg0 is not None:
        written.append(("ext:SquareImage", [("copy",), ("reg", 1, "H1"), ("crop", "ax0_first"), ("idx", "0"), ("twin", "pickle")]))

    def once():
        out = []
        for i, h in written:
            f = []
            trace, live = run_history(i, ctx.seed, h, f)
            out.append((trace, [m for _, m in f], describe(live)))
        return out

    ctx.selftest(once)
    for (i, h), (trace, msgs, final) in zip(written, once()):
        ctx.sample({"initial": list(map(str, EXT_INITIALS[i[4:]] if isinstance(i, str) else INITIALS[i])), "history": [call_text(e, ()) if e[0] in ("idx", "copy") else list(e) for e in h],
                    "states_visited": len(trace), "reached": final, "failures": msgs})

    # depth 1 in the parent: judged here, deduplicated, one shard per distinct successor
    parent = Tally()
    st = parent.extra
    root_digests = {n: set() for n in range(1, 6)}
    items = []
    DEV.single = DEV.double = DEV.cal = 0.0
    for i in range(len(INITIALS)):
        sh = Shard(i)
        sh.t = parent
        live0 = make_init(i, ctx.seed)
        for f, msg in invariants(live0):
            parent.fail({"relation": "one_entry_per_axis", "op": "init", "field": f}, {"init": i, "history": []}, msg)
        if type(live0).__name__ != INITIALS[i][0]:
            raise Broken(f"initial {INITIALS[i]} was built as {type(live0).__name__}")
        fp0 = fingerprint(live0)
        nd = sh.nd0
        sh.seen.add(canon_of(fp0))
        A = inner_alphabet(nd)
        succs = []
        expand_state(sh, live0, fp0, [], 0, A, succs, st)
        if cfg["maxdepth"][nd] > 1:
            items += [("bfs", i, A.index(h[0])) for _, _, h in succs]
        root_digests[nd] |= sh.seen
        sh.flush_outcomes()
        items.append(("wide", i))
        F = len(full_only(nd))
        for lo in range(0, F, FULL_CHUNK):
            items.append(("full", i, lo, min(F, lo + FULL_CHUNK)))
    # list-content tier and one-object tier (see the sections above)
    lc = cfg["lst"]
    for i in range(len(INITIALS)):
        items.append(("lst", i))
    for i in list_d1_initials(lc["d1_initials"]):
        nd = len(INITIALS[i][1])
        for k, ev in enumerate(LIST_D1_OPS):
            if ev[0] == "idx" and not _valid_index(ev[1:], nd):
                continue
            for variant in lc["d1_variants"]:
                if variant == "cp" or ev[0] in METHOD:
                    items.append(("lst1", i, k, variant))
    for spec in OBJ_TREE_INITIALS:
        items += [("obj", INITIALS.index(spec), k) for k in range(len(obj_alphabet()))]
    items += [("cyc", i) for i in range(len(INITIALS))]
    parent_dev = (DEV.single, DEV.double, DEV.cal)
    ctx.tally.merge(parent)
    sizes = {n: {"A_in": len(inner_alphabet(n)), "A_in_executions_per_state": len(inner_alphabet(n)) + sum(1 for e in inner_alphabet(n) if e[0] in METHOD),
                 "R": len(reduced_index_alphabet(n)), "A_full": len(full_index_alphabet(n)), "A_wide": len(wide_alphabet(n)), "A_spell": len(spell_alphabet(n))} for n in range(1, 6)}
    ctx.say(f"{len(INITIALS)} initial datasets; alphabets per ndim: " + ", ".join(f"{n}: |A_in|={v['A_in']} |A_full|={v['A_full']}" for n, v in sizes.items()))
    ctx.say(f"{len(items)} shards (distinct depth-1 successors + root chunks of A_full), bounds {json.dumps(cfg)}")
    # heavy shards first (scheduling only; the result does not depend on the order)
    items.sort(key=lambda it: (it[0] != "bfs", it[0] != "obj", -cfg["maxdepth"][len(INITIALS[it[1]][1])], -len(INITIALS[it[1]][1]), it[1], it[2] if len(it) > 2 else -1))
    if reg0 is not None:
        items = [("ext", name) for name in EXT_INITIALS] + items  # extension tier: one shard per initial, started first
    # preliminary counts (depth 1 only), overwritten below; keeps partial evidence valid if the ceiling is hit
    n1 = sum(len(v) for v in root_digests.values())
    ctx.coverage.update(states=n1, transitions=parent.n, traces_validated_against_impl=parent.n, distinct_nontrivial=n1 - len(INITIALS), evaluations=parent.n)
    import shutil
    import tempfile

    side = tempfile.mkdtemp(prefix="c03-digests-", dir=ctx.scratch if ctx.scratch and os.path.isdir(ctx.scratch) else None)
    try:
        _explore(ctx, cfg, items, parent, parent_dev, root_digests, sizes, side)
    finally:
        shutil.rmtree(side, ignore_errors=True)  # exact path
    if registry_restore(reg0):
        ctx.fail({"relation": "registry_unchanged", "op": "-", "field": "-"}, {"init": 0, "history": []}, "Dataset._registry was modified")


def _explore(ctx, cfg, items, parent, parent_dev, root_digests, sizes, side):
    reg0_present = registry_snapshot() is not None
    from collections import Counter

    merged = ctx.pmap(shard, items, chunk=1, label="bfs", seed=ctx.seed, cfg=cfg, scratch=side)
    extra = Counter(parent.extra)
    extra.update(merged.extra)

    dev_cov = None
    if not ctx.quick:
        two = dev_initials()
        ditems = []
        nhist_expected = 0
        for i in range(len(INITIALS)):
            nd = len(INITIALS[i][1])
            b = 2 if i in two else 1
            ditems.append(("dev0", i))
            Am1 = len(deviation_alphabet(nd)) - 1
            nhist_expected += 1 + DEV_LEN * Am1 + (b == 2) * (DEV_LEN * (DEV_LEN - 1) // 2) * Am1 * Am1
            for p in range(DEV_LEN):
                if DEFAULT_CYCLE[p] not in deviation_alphabet(nd):
                    raise Broken(f"default event {DEFAULT_CYCLE[p]} is not in the deviation alphabet for ndim {nd}")
                step = 4 if b == 2 else 32
                for lo in range(0, Am1, step):
                    ditems.append(("dev", i, b, p, lo, min(Am1, lo + step)))
        ditems.sort(key=lambda it: (it[0] == "dev0", -(it[2] if it[0] == "dev" else 0), -len(INITIALS[it[1]][1]), it[3] if it[0] == "dev" else 0))
        dm = ctx.pmap(shard, ditems, chunk=1, label="deviation histories", seed=ctx.seed, cfg=cfg, scratch=side)
        extra.update(dm.extra)
        if dm.extra["dev_histories"] != nhist_expected and not ctx.tally.nfails:
            raise Broken(f"deviation histories executed {dm.extra['dev_histories']} != enumerated space {nhist_expected}")
        dev_cov = {
            "length": DEV_LEN, "max_deviations": {"initials_with_b2": [list(map(str, INITIALS[i])) for i in two], "all_other_initials": 1},
            "default_cycle": [list(e) for e in DEFAULT_CYCLE], "alphabet_sizes": {str(n): len(deviation_alphabet(n)) for n in range(1, 6)},
            "histories": int(dm.extra["dev_histories"]), "steps_executed_and_compared": int(dm.extra["dev_steps"]),
            "histories_cut_short_by_empty_or_failed_state": int(dm.extra["dev_histories_cut_short"]),
        }

    # global state count from the digests the shards wrote (exact union, per ndim of the initial dataset)
    per_nd_states = {}
    worst = list(parent_dev)
    all_states = []
    for n in range(1, 6):
        parts = [np.frombuffer(b"".join(sorted(root_digests[n])), dtype=np.uint64)]
        for fn in sorted(os.listdir(side)):
            if fn.startswith(f"c03_nd{n}_") and fn.endswith(".npy"):
                arr = np.load(os.path.join(side, fn))
                w = arr[:3].view(np.float64)
                worst = [max(a, float(b)) for a, b in zip(worst, w)]
                parts.append(arr[3:])
        u = np.unique(np.concatenate(parts))
        per_nd_states[n] = int(len(u))
        all_states.append(u)
    states = int(len(np.unique(np.concatenate(all_states)))) + int(extra.get("ext_states", 0))

    spellings = {}
    for k in sorted(extra):
        if k.startswith(("spell_acc_", "spell_rej_", "spell_bth_")):
            what = {"spell_acc_": "accepted_and_identical_to_canonical", "spell_rej_": "rejected_while_canonical_is_accepted", "spell_bth_": "both_spellings_raise"}[k[:10]]
            spellings.setdefault(k[10:], {"accepted_and_identical_to_canonical": 0, "rejected_while_canonical_is_accepted": 0, "both_spellings_raise": 0})[what] += int(extra[k])
            ctx.tally.extra.pop(k, None)  # reported as one map instead of ~100 counters
    ctx.coverage["spellings"] = spellings
    ext_tr, ext_states = int(extra.get("ext_transitions", 0)), int(extra.get("ext_states", 0))
    transitions = sum(int(v) for k, v in extra.items() if k.startswith("tr_nd")) + ext_tr
    dev_steps = int(extra.get("dev_steps", 0)) + int(extra.get("obj_executions", 0))  # everything executed outside the BFS
    per_ndim = {}
    for n in range(1, 6):
        depths = [int(k.split("_")[1][1:]) for k, v in extra.items() if k.startswith("new_d") and k.endswith(f"_nd{n}") and v > 0]
        per_ndim[str(n)] = dict(sizes[n], states=per_nd_states[n], transitions=int(extra.get(f"tr_nd{n}", 0)),
                                traces_validated_against_impl=int(extra.get(f"tr_nd{n}", 0)), max_depth=max(depths) if depths else 0,
                                depth_bound_for_initials_of_this_ndim=cfg["maxdepth"][n], A_full_applied_in_states_up_to_depth=cfg["dfull"][n],
                                A_wide_applied_in_states_up_to_depth=cfg["dwide"][n], A_spell_applied_in_states_up_to_depth=cfg["dspell"][n],
                                initials=sum(1 for x in INITIALS if len(x[1]) == n))
    ctx.coverage.update(
        states=states,
        transitions=transitions + dev_steps,
        traces_validated_against_impl=transitions + dev_steps,
        bfs_transitions=transitions,
        evaluations=transitions + dev_steps,
        distinct_nontrivial=states - len(INITIALS),
        max_depth=max(v["max_depth"] for v in per_ndim.values()),
        initial_states=len(INITIALS),
        per_ndim=per_ndim,
        alphabet={"per_axis_index_forms": FORMS, "non_indexing": [list(e) for e in nonindex_alphabet(5)], "wide_arguments_ndim3": [list(e) for e in wide_alphabet(3)],
                  "reduced_index_set_ndim3": [call_text(e, ()) for e in reduced_index_alphabet(3)]},
        extension_tier={"initials": {k: list(map(str, v)) for k, v in EXT_INITIALS.items()}, "registration_events": [list(e) for e in REG_EVENTS],
                        "alphabet_ndim3": [list(e) for e in ext_alphabet(3)], "twin_kinds": list(TWIN_KINDS), "depth": cfg["ext_depth"],
                        "twins_in_states_up_to_depth": cfg["ext_dtwin"], "states": ext_states, "transitions": ext_tr,
                        "refused_by_subclass_hook": int(extra.get("refused_by_subclass_hook", 0)),
                        "index_results_of_a_class_registered_later": int(extra.get("ext_results_of_a_class_registered_later", 0))},
        list_content_tier={
            "lists": "every list of length <= maxlen over -L..L-1 for an axis of length L; lists of length <= %d also with the out-of-range neighbours -L-1 and L" % LIST_OOR_MAXLEN,
            "bounds": cfg["lst"], "lists_per_axis_length": {str(L): len(list_codes(L, cfg["lst"]["maxlen"])) for L in range(1, 5)},
            "templates_initial_states_ndim3": [list(t) for t in list_templates(3, True)], "templates_depth1_ndim3": [list(t) for t in list_templates(3, cfg["lst"]["d1_full_templates"])],
            "depth1_states_after": [list(e) for e in LIST_D1_OPS], "depth1_initials": [list(map(str, INITIALS[i])) for i in list_d1_initials(cfg["lst"]["d1_initials"])],
            "cases": int(extra.get("list_content_cases", 0)), "cases_in_initial_states": int(extra.get("list_content_cases_depth0", 0)),
            "cases_one_operation_later": int(extra.get("list_content_cases_depth1", 0)), "rejected_by_numpy_and_by_the_library": int(extra.get("list_content_rejected_by_numpy", 0)),
        },
        one_object_tier={
            "probes": [list(e) for e in OBJ_PROBES], "mutations_on_the_object_itself": [[list(x) for x in m] for m in OBJ_MUTATIONS], "tree_depth": cfg["obj_depth"],
            "tree_initials": [list(map(str, x)) for x in OBJ_TREE_INITIALS], "tree_histories": int(extra.get("obj_tree_histories", 0)),
            "cycle_probes": [list(e) for e in OBJ_CYCLE_PROBES], "cycle_replacements": {k: [list(x) for x in v] for k, v in OBJ_REPLACEMENTS.items()},
            "cycle_repetitions": cfg["obj_cycles"], "cycle_initials": len(INITIALS), "cycle_histories": int(extra.get("obj_cycle_histories", 0)),
            "executions": int(extra.get("obj_executions", 0)), "results_compared_with_a_fresh_dataset": int(extra.get("obj_fresh_compared", 0)),
            "of_these_close_but_not_bitwise": int(extra.get("obj_fresh_result_close_not_bitwise", 0)),
            "probes_after_the_content_was_replaced_at_the_same_shape_and_dtype": int(extra.get("obj_probes_after_content_replaced_at_same_shape", 0)),
        },
        bounds=cfg,
        worst_deviation={"single_precision_data": worst[0], "double_precision_data": worst[1], "calibration": worst[2],
                         "tolerances": {"single": TOL_SINGLE, "double": TOL_DOUBLE, "calibration": TOL_CAL}},
        exhaustive=True,
    )
    if dev_cov:
        ctx.coverage["deviation_histories"] = dev_cov
    lt, ot = ctx.coverage["list_content_tier"], ctx.coverage["one_object_tier"]
    ctx.say(f"list-content tier: {lt['cases']} index expressions ({lt['cases_in_initial_states']} in initial states, {lt['cases_one_operation_later']} one operation later, "
            f"{lt['rejected_by_numpy_and_by_the_library']} rejected like NumPy); one-object tier: {ot['tree_histories']} tree + {ot['cycle_histories']} cycle histories, {ot['executions']} executions, "
            f"{ot['probes_after_the_content_was_replaced_at_the_same_shape_and_dtype']} probes after a same-shape replacement, {ot['results_compared_with_a_fresh_dataset']} fresh-dataset comparisons "
            f"({ot['of_these_close_but_not_bitwise']} close but not bitwise)")
    ctx.say(f"worst deviations: single-precision data {worst[0]:.3g} (tol {TOL_SINGLE:g}), double-precision data {worst[1]:.3g} (tol {TOL_DOUBLE:g}), calibration {worst[2]:.3g} (tol {TOL_CAL:g})")
    if extra.get("states_skipped_changed_after_creation", 0) and not ctx.tally.nfails:
        raise Broken("states changed after their creation although no operation was seen to modify its source")
    # vacuity guards
    if sum(v["accepted_and_identical_to_canonical"] for v in spellings.values()) < 1000 and not ctx.tally.nfails:
        raise Broken("degenerate enumeration: fewer than 1000 alternative spellings were accepted and compared")
    if reg0_present and not ctx.tally.nfails and (extra.get("refused_by_subclass_hook", 0) < 20 or extra.get("ext_results_of_a_class_registered_later", 0) < 20):
        raise Broken("degenerate extension tier: too few refusals by the subclass hooks / results of classes registered later")
    if not ctx.tally.nfails:
        want = len(OBJ_TREE_INITIALS) * sum(len(obj_alphabet()) ** k for k in range(1, cfg["obj_depth"] + 1))
        if extra.get("obj_tree_histories", 0) != want:
            raise Broken(f"one-object tier executed {extra.get('obj_tree_histories', 0)} tree histories != enumerated space {want}")
        if extra.get("obj_probes_after_content_replaced_at_same_shape", 0) < 1000 or extra.get("obj_fresh_compared", 0) < 1000:
            raise Broken("degenerate one-object tier: too few probes after a replacement of the content at the same shape and dtype")
        if extra.get("list_content_cases", 0) < 20000 or extra.get("list_content_rejected_by_numpy", 0) < 500:
            raise Broken("degenerate list-content tier")
    need = {"index_dropped_axis": 100, "index_changed_class": 50, "index_rejected_by_numpy": 100, "inplace_vs_copying_compared": 500, "setter_rejections": 50}
    for k, lo in need.items():
        if extra.get(k, 0) < lo and not ctx.tally.nfails:
            raise Broken(f"degenerate enumeration: {k} = {extra.get(k, 0)} < {lo}")
    if states < 2000 and not ctx.tally.nfails:
        raise Broken(f"state space suspiciously small ({states} states)")


def replay(ctx, case):
    fails = []
    if case.get("kind") == "obj":
        i = int(case["init"])
        print(f"  initial {INITIALS[i]} (seed {ctx.seed}); ONE object lives through the history of {len(case['history'])} events (mutations in place on the object, probes = copying variants on it):")
        obj_both_runs(i, ctx.seed, [tuple(tuple(x) if isinstance(x, list) else x for x in e) for e in case["history"]], Tally().extra, fails, bool(case.get("judge_all", True)), {}, verbose=True)
        for cls, msg, _ in fails:
            ctx.fail(cls, case, msg)
            print(f"  observed vs expected: {msg}")
        return
    i = case["init"]
    i = i if isinstance(i, str) and i.startswith("ext:") else int(i)
    print(f"  initial {EXT_INITIALS[i[4:]] if isinstance(i, str) else INITIALS[i]} (seed {ctx.seed}); history of {len(case['history'])} events:")
    _, live = run_history(i, ctx.seed, case["history"], fails, verbose=True)
    for cls, msg in fails:
        ctx.fail(cls, case, msg)
        print(f"  observed vs expected: {msg}")
    print("  final state:", describe(live))
