#!/venv/bin/python
"""Print the as-built coverage table from /verif/evidence/*.json (whatever tier was run last)."""
import glob
import json
import os

HERE = os.path.dirname(os.path.dirname(os.path.abspath(__file__)))
print("| id | level | tier of the committed evidence | evaluations | distinct non-trivial | states / transitions | exhaustive | known findings seen | wall s |")
print("|---|---|---|---|---|---|---|---|---|")
for f in sorted(glob.glob(os.path.join(HERE, "evidence", "C*.json"))):
    e = json.load(open(f))
    c = e["coverage"]
    st = f"{c['states']:,} / {c['transitions']:,}" if "states" in c else "—"
    print(f"| {e['property_id']} | {e['level']} | {e['tier']} (seed {e['seed']}) | {c.get('evaluations', 0):,} | {c.get('distinct_nontrivial', 0):,} | {st} | {c.get('exhaustive')} | {c.get('known_findings_seen', 0)} | {e['wall_s']:.0f} |")
