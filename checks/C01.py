"""C01 — serializer round trip: load(save(x)) is structurally equal to x, for both stores, every
compression level, str and Path targets, both write modes; saving the loaded object again is a fixed point.

Shape L (configuration lattice), level exploration. Every graph of the grammar G(d, w) of
checks/_serial.py is saved and loaded by the real `AutoSerialize.save` / `quantem.core.io.load` into
both stores and judged by three relations:

  R1  load(save(x)) ~ x                      (slack: NumPy scalars and all-numeric sequences by numeric value)
  R2  load(save_zip(x)) == load(save_dir(x)) (exact types)
  R3  load(save(y)) == y for y = load(save(x))  (fixed point, exact types)

and a core of graphs is pushed through the full product store x compression {None, 0..9} x path
{str, Path} x mode {w, o, o onto an existing target of another class}; every point must satisfy R1 and be
exactly equal to the default-configuration result of the same store (configuration independence).

A HISTORY part drives one live object through every sequence of {save to a new zip/dir target, mode='o' save
onto the previous target, delete the previous target and save with mode='w' onto its path, load(previous target),
in-place mutations of tensors (requires_grad_ flip, writes through .data and through .numpy(), add_), ndarray
writes, attribute replacement by another kind, append / pop / setitem / delete, changes inside a nested object}
up to depth 3 (quick) / 4 (thorough): every load (after every save in the quick tier) must equal the object as
it was at the save that wrote the target, and earlier targets must still load to what the object was then. A WIDTH family
stores containers of 9..101 elements (slot names of 1, 2 and 3 digits). FAILED-OPERATION histories: a save that raises (an unsaveable generator / memoryview / object whose __getstate__
raises, at the root, in a nested child, inside containers) or a load that raises (damaged file) is followed, after the repair,
by save + load of the same root, of a sibling root sharing the child and of the child alone: all as in a fresh process.
RE-ENTRANT calls: hooks the loader really runs (__attrs_post_init__, __setattr__, __setstate__/__getstate__ of dill values) load
a companion archive or save another object while the outer load / save is in progress. An ALIASING family stores graphs in which one object (AutoSerialize child, ndarray, tensor, list, dict, set, Path, module)
occurs several times (two attributes, twice in a list, list and dict, diamond, two depths): every occurrence must load back
equal (identity between occurrences after load is counted, not claimed); true cycles are measured (refused loudly = counted;
saved and loaded = must equal the input). A GLOBAL-MODE family saves and/or loads a reduced graph set under torch.no_grad,
set_grad_enabled(False), inference_mode, default dtype float64, warnings as errors, np.errstate(all='raise'), a relative
target after chdir and a private TMPDIR: the result must be what the default mode gives. A LAYOUT family stores tensors and arrays of every
memory layout (partial / strided / scalar / transposed / expanded / narrowed / empty views, non-leaf views, Fortran order,
negative strides, read-only, broadcast) x requires_grad x dtype as direct attribute, inside list / tuple / dict and inside a
nested object. A KEY-SPELLING family uses dict keys and attribute names with dots (also one key being a prefix of another up
to a dot), spaces, unicode, digits only, the empty string, look-alikes of the serializer's suffixes, punctuation, 200
characters, with values of every kind that needs a side flag or a node, so that a flag attached to the wrong key shows.
A MEMORY-ALIASING family stores two DISTINCT values that view the same memory in one graph: every ordered pair (with the
diagonal) of the members of five bases -- a trainable tensor {itself, .detach(), .data, view_as, [:], view(-1), t(), two row
blocks, an int32 bit-cast, .numpy()}, an nn.Parameter (trainable / frozen) {itself, .data, .detach(), views}, a plain tensor
{itself, nn.Parameter(w), a requires_grad alias, ...}, an ndarray {itself, views, slices, transposed, reshaped, an int64 view,
torch.from_numpy(w) without / with requires_grad} -- in every placement {two attributes, list, tuple, dict, attribute +
attribute of a nested object}, both stores: each of the two values must load back equal to ITSELF (kind, Parameter-vs-Tensor,
dtype, shape, values, requires_grad); whether they still share memory after load is counted, not claimed.
A CLASS-IDENTITY family stores every ordered pair of same-named classes (checks/_serial.TWIN_CLASSES: equal __name__ / __qualname__ in
different modules, a subclass named like its base, 'Outer.Params' next to 'Params', 'Param' / 'Params' / 'Params2', a namesake of
_serial.NodeA) in one graph in every placement (the first also as the ROOT holding the second) and in two successive save/load round
trips of one process (root/root, root/nested, nested/root; saves and loads in three orders): `type(loaded) is type(original)` at
every node, values equal. A class nested in a class (dotted __qualname__) loads like any other since fix finding 47.

Excluded from the input alphabet exactly as the quantifier says: reserved metadata names, names
containing '/' (and what zarr treats as path syntax: '\\', '.', '..'), non-native byte order and
object dtype, integers beyond int64 inside all-numeric sequences. rng / logger: same kind only.
No tolerance anywhere: every comparison is exact (byte-wise for arrays and tensors, NaN == NaN).
"""
from __future__ import annotations

from mc.harness import Broken, Tally

from checks import _serial as S

LEVEL = "exploration"
TECHNIQUE = "exhaustive enumeration of an object-graph grammar x stores x configurations on the real save/load, structural-equality oracle"
CLAIM = (
    "Every object graph of the grammar G(d,w) (about 140 leaf values covering every dispatch branch of the serializer and every "
    "dtype x shape pair of a 10 x 7 array alphabet; every leaf as attribute and inside every container kind; every ordered "
    "pair of dispatch classes as siblings inside every container kind; every chain of container kinds up to depth d; "
    "AutoSerialize objects nested to depth 3 through every combination of attribute/list/tuple/dict links; all numeric and "
    "mixed sequences up to the stated length) is saved and loaded by the real code into the zip and the directory store and "
    "compared with a structural-equality oracle (same class, identical attribute-name set, container kinds, dict key sets, "
    "array dtype/shape/bytes, tensor dtype/shape/values/requires_grad, module state_dict): load(save(x)) equals x, the two "
    "stores give the same object, and saving the loaded object again is a fixed point; a core of graphs additionally runs "
    "through the full product of store x compression level x path type x write mode, containers of 9..101 elements are stored "
    "for every container and element kind, and one live object is driven through every history of saves (new target, mode 'o') "
    "(also delete-then-write onto the same path), loads of the previous target and in-place mutations up to depth 3 (quick) / 4 "
    "(thorough) with load(target) executed and compared to a deep-copy model after every save and earlier targets re-read; every ordered pair of distinct values "
    "that share memory (trainable tensor / nn.Parameter / plain tensor / ndarray with their detached, .data, same-geometry, re-shaped, transposed, offset, "
    "bit-cast, numpy and from_numpy aliases) is stored in one graph in every placement and each value must come back as itself; every ordered pair of classes that "
    "share a name (same __name__ / __qualname__ in different modules, a subclass named like its base, a class nested in a class next to the module-level one, "
    "names that are prefixes of one another, a namesake of a class loaded elsewhere) is stored in one graph in every placement (also root vs nested) and in two successive "
    "round trips of one process in every order, and every loaded node must be an instance of the very same class object. Exploration is the right level: the "
    "property is a statement about a lattice of value kinds and configurations, each point decided exactly by one execution."
)
NOTE = (
    "Trusted: the equality relation and the builders in checks/_serial.py; the graph grammar as a cover of 'all object graphs' "
    "(depth and width bounded, leaf contents seeded); all-numeric sets are given the same numeric-value slack as all-numeric "
    "sequences; optimizers and schedulers are compared by class and state_dict; aliasing between attributes is not compared."
)
RULE = (
    "Full enumeration of the graph families of checks/_serial.grammar(tier) x {zip, dir} with three relations per point, plus "
    "core graphs x {zip, dir} x compression {None,0..9} x path {str, Path} x mode {w, o, o-onto-existing}, plus every event "
    "sequence up to the stated depth that ends in a save on four live objects (sequences with a non-applicable event are dropped and counted), plus every ordered "
    "pair of memory-sharing values of checks/_serial.MEM_BASES x placement x {zip, dir} (quick: all pairs as two attributes and in a list, the pairs containing the "
    "base value itself in a dict and across a nested object; tuple placement and the fixed point are left to the thorough tier), plus every ordered "
    "pair of checks/_serial.TWIN_CLASSES x placement x {zip, dir} and x session x order of saves and loads (quick: all pairs as two attributes, the related pairs of the "
    "five core members in the other placements and in every session, the remaining related pairs as root-then-root; no tuple placement, no fixed point, two of the three orders). A point is "
    "non-trivial when the loaded object has at least one attribute to compare; distinct = distinct (graph descriptor, store[, configuration])."
)

STORES = ("zip", "dir")
COMPRESSIONS = [None, 0, 1, 2, 3, 4, 5, 6, 7, 8, 9]
PATH_KINDS = ("str", "Path")
MODES = ("w", "o", "o_existing")

_BLAME = {}


def _blame(desc, store, seed, symptom, excname, wd):
    """Which single node (leaves first), alone as an attribute or alone in its container kind, reproduces the exception?"""
    for node, ck in S.node_occurrences(desc):
        cands = [("attribute", S.O("Root", x=node))]
        if ck is not None and (ck != "set" or S.desc_hashable(node)):
            cands.append(("container", S.O("Root", x=S.CK(ck, node))))
        for pos, g in cands:
            if S.excluded_by_quantifier(g):
                continue
            key = (repr(g), store, seed)
            if key not in _BLAME:
                st, r = S.save_load(S.build(g, seed), wd, store, name=f"blame{len(_BLAME)}")
                _BLAME[key] = (st, type(r).__name__ if st != "ok" else None)
            if _BLAME[key] == (symptom, excname):
                return {"kind": S.node_kind(node), "position": pos}, f"smallest reproducer: {S.show(g)}"
    return {"kind": "combination", "classes": sorted(S.dispatch_classes(desc))}, "no single node reproduces it alone"


def _exc_failure(relation, symptom, exc, desc, store, seed, wd, what, blame=True):
    if blame:
        b, note = _blame(desc, store, seed, symptom, type(exc).__name__, wd)
    else:
        b, note = {"kind": "loaded_graph", "position": "root"}, ""
    cls = {"relation": relation, "symptom": symptom, "exc": type(exc).__name__}
    cls.update(b)
    msg = f"store={store} graph {S.show(desc)}: {what} raised {type(exc).__name__}: {str(exc)[:200]} (expected: no exception). {note}"
    return cls, msg


def run_graph(desc, seed, scratch, keep=None):
    """All three relations for one graph in both stores. Returns (fails, outcome, nontrivial, roundtrips).
    `keep` (a dict) receives the loaded objects per store."""
    fails, loaded, outcome, rts, has_attrs = [], {}, {}, 0, False
    with S.Workdir(scratch, "C01") as wd:
        for store in STORES:
            x = S.build(desc, seed)
            st, y = S.save_load(x, wd, store, name="a")
            rts += 1
            if st != "ok":
                fails.append(_exc_failure("load_save_equals_input", st, y, desc, store, seed, wd, "save(x)" if st == "save_raises" else "load(save(x))"))
                outcome[store] = [st, type(y).__name__]
                continue
            outcome[store] = S.summary(y)
            has_attrs = has_attrs or len(vars(y)) > 0
            d1 = S.diff(S.build(desc, seed), y, slack=True)
            if d1:
                fails.append((S.cls_of(d1[0], relation="load_save_equals_input"), f"store={store} graph {S.show(desc)}: load(save(x)) differs from x: {S.fmt(d1)}"))
                continue
            loaded[store] = y
            if keep is not None:
                keep[store] = y
            st2, z = S.save_load(y, wd, store, name="b")
            rts += 1
            if st2 != "ok":
                fails.append(_exc_failure("fixed_point", st2, z, desc, store, seed, wd, "saving / reloading the loaded object", blame=False))
                continue
            d3 = S.diff(y, z, slack=False)
            if d3:
                fails.append((S.cls_of(d3[0], relation="fixed_point"), f"store={store} graph {S.show(desc)}: load(save(y)) differs from y = load(save(x)): {S.fmt(d3)}"))
        if len(loaded) == 2:
            d2 = S.diff(loaded["zip"], loaded["dir"], slack=False)
            if d2:
                fails.append((S.cls_of(d2[0], relation="zip_equals_dir"), f"graph {S.show(desc)}: zip result (expected) differs from dir result (observed): {S.fmt(d2)}"))
    nontrivial = has_attrs
    # the same failure class in both stores is one failing point (the message names both)
    folded, seen = [], {}
    for cls, msg in fails:
        k = repr(sorted(cls.items(), key=repr))
        if k in seen:
            folded[seen[k]] = (cls, folded[seen[k]][1] + " || " + msg[:400])
        else:
            seen[k] = len(folded)
            folded.append((cls, msg))
    return folded, outcome, nontrivial, rts


def eval_graph(item, seed=0, scratch="/tmp"):
    t = Tally()
    desc = item["g"]
    keep = {} if item["fam"] in ("aliasing", "container_subclass") else None
    fails, outcome, nontrivial, rts = run_graph(desc, seed, scratch, keep=keep)
    if item["fam"] == "container_subclass":
        # a kind the tree refuses loudly at save time is counted, not flagged; whether the subclass itself comes back is counted
        if any(c.get("symptom") == "save_raises" for c, _ in fails):
            t.extra["container_subclass_graphs_refused_at_save"] += 1
            fails = [(c, m) for c, m in fails if c.get("symptom") != "save_raises"]
        if desc[2][0][0] == "x" and desc[2][0][1][0] == "L":
            for y in keep.values():
                t.extra["container_subclass_as_attribute_loaded"] += 1
                t.extra["container_subclass_as_attribute_came_back_as_the_subclass"] += int(type(vars(y).get("x")) is type(vars(S.build(desc, seed))["x"]))
        keep = None
    if keep:
        exp = S.build(desc, seed)
        for y in keep.values():
            g, pres = S.alias_account(exp, y)
            t.extra["alias_groups_loaded"] += g
            t.extra["alias_groups_still_one_object_after_load"] += pres
    for store in STORES:
        t.case(key=[desc, store], nontrivial=nontrivial, outcome=outcome.get(store))
    t.extra["roundtrips"] += rts
    t.extra["graphs"] += 1
    t.extra["graphs_" + item["fam"]] += 1
    for cls, msg in fails:
        t.fail(dict(cls, **item.get("tag", {})), {"kind": "graph", "fam": item["fam"], "graph": desc, "seed": seed, "tag": item.get("tag", {})}, msg)
    if item["fam"] in ("pair_of_dispatch_classes", "object_nesting", "container_nesting", "layout", "key_spelling", "aliasing", "container_subclass"):
        t.sample({"family": item["fam"], "graph": S.show(desc), "stores": list(STORES), "relations": ["load_save_equals_input", "zip_equals_dir", "fixed_point"], "observed": "equal" if not fails else f"{len(fails)} failure(s)"}, cap=1)
    return t


# ----------------------------------------------------------------------------- true cycles (measured, not claimed)
def run_cycle(item, seed, scratch):
    """An object that contains itself. The property does not cover it; the library may refuse loudly (counted).
    If it saves AND loads, nothing may be silently dropped: the loaded graph must equal the input (cycle-aware)."""
    import inspect
    import sys

    name, desc, store = item["name"], item["g"], item["store"]
    fails = []
    with S.Workdir(scratch, "C01") as wd:
        x = S.build(desc, seed)
        old = sys.getrecursionlimit()
        # the refusal on HEAD is a RecursionError after ~1000 nested zarr groups (minutes); a lower limit gives the same
        # answer in seconds. 110 frames above the current depth = a few dozen nested groups.
        sys.setrecursionlimit(len(inspect.stack()) + 110)
        try:
            st, y = S.save_load(x, wd, store, name="cyc")
        finally:
            sys.setrecursionlimit(old)
        if st != "ok":
            return fails, [st, type(y).__name__]
        d = S.diff(S.build(desc, seed), y, slack=True)
        if d:
            cls = S.cls_of(d[0], relation="cycle_not_silently_dropped", cycle=name)
            fails.append((cls, f"store={store} cyclic graph {S.show(desc)}: save and load succeeded but the loaded graph differs from the input (silently dropped data): {S.fmt(d)}"))
        return fails, ["round_trips", S.summary(y)]


def eval_cycle(item, seed=0, scratch="/tmp"):
    t = Tally()
    fails, outcome = run_cycle(item, seed, scratch)
    t.case(key=["cycle", item["name"], item["store"]], nontrivial=True, outcome=outcome)
    t.extra["cycles"] += 1
    t.extra["cycles_refused_loudly" if outcome[0] != "round_trips" else "cycles_saved_and_loaded"] += 1
    for cls, msg in fails:
        t.fail(cls, {"kind": "cycle", "name": item["name"], "graph": item["g"], "store": item["store"], "seed": seed}, msg)
    return t


# ----------------------------------------------------------------------------- memory aliasing between values of one graph
# Two DISTINCT values that view the same memory (S.MEM_BASES: a trainable tensor and its .detach() / .data, an nn.Parameter
# and its .data, same-geometry / re-shaped / transposed / offset / bit-cast views, an ndarray and torch.from_numpy of it, ...)
# stored in one graph. Oracle: the ordinary structural equality per value against a fresh build (kind, Parameter-vs-Tensor,
# dtype, shape, values, requires_grad). Whether the two still share memory after load is counted, not claimed.
def mem_placements(quick):
    # tuples share the list decoder: thorough tier only (as in family B of the grammar)
    return [p for p in S.MEM_PLACEMENTS if not (quick and p == "tuple")]


MEM_FULL_PRODUCT_QUICK = ("two_attributes", "list")


def mem_items(quick):
    """thorough: every ordered pair x every placement, with the fixed point. quick (a sub-lattice): every ordered pair as two
    attributes and as two list entries; in a dict and as attribute + attribute of a nested object the pairs that contain the
    base value itself (both orders); no tuple placement, no fixed point."""
    out = []
    for b, x, y in S.mem_pairs():
        for pl in mem_placements(quick):
            if quick and pl not in MEM_FULL_PRODUCT_QUICK and "self" not in (x, y):
                continue
            out.append({"base": b, "first": x, "second": y, "placement": pl, "fixed_point": not quick})
    return out


def run_memalias(item, seed, scratch):
    """(fails, outcome per store, round trips, [input shares memory, loaded pairs that still share memory])."""
    base, first, second, placement = item["base"], item["first"], item["second"], item["placement"]
    label = f"memory-aliasing graph {{{S.mem_show(base, first, second, placement)}}}"
    tag = {"family": "memory_aliasing", "base": base}
    fails, outcome, loaded, rts = [], {}, {}, 0
    pair = S.mem_pair_of(S.mem_build(base, first, second, placement, seed), placement)
    shares = [int(pair is not None and S.mem_shares(*pair)), 0]
    with S.Workdir(scratch, "C01") as wd:
        for store in STORES:
            st, y = S.save_load(S.mem_build(base, first, second, placement, seed), wd, store, name="a")
            rts += 1
            if st != "ok":
                fails.append((dict(tag, relation="load_save_equals_input", symptom=st, exc=type(y).__name__), f"store={store} {label}: {'save(x)' if st == 'save_raises' else 'load(save(x))'} raised {type(y).__name__}: {str(y)[:200]} (each of the two values alone is saved and loaded)"))
                outcome[store] = [st, type(y).__name__]
                continue
            outcome[store] = S.summary(y)
            d1 = S.diff(S.mem_build(base, first, second, placement, seed), y, slack=True)
            if d1:
                fails.append((S.cls_of(d1[0], relation="load_save_equals_input", **tag), f"store={store} {label}: load(save(x)) differs from x: {S.fmt(d1)}"))
                continue
            loaded[store] = y
            lp = S.mem_pair_of(y, placement)
            shares[1] += int(lp is not None and S.mem_shares(*lp))
            if item.get("fixed_point"):
                st2, z = S.save_load(y, wd, store, name="b")
                rts += 1
                if st2 != "ok":
                    fails.append((dict(tag, relation="fixed_point", symptom=st2, exc=type(z).__name__), f"store={store} {label}: saving / reloading the loaded object raised {type(z).__name__}: {str(z)[:200]}"))
                    continue
                d3 = S.diff(y, z, slack=False)
                if d3:
                    fails.append((S.cls_of(d3[0], relation="fixed_point", **tag), f"store={store} {label}: load(save(y)) differs from y = load(save(x)): {S.fmt(d3)}"))
        if len(loaded) == 2:
            d2 = S.diff(loaded["zip"], loaded["dir"], slack=False)
            if d2:
                fails.append((S.cls_of(d2[0], relation="zip_equals_dir", **tag), f"{label}: zip result (expected) differs from dir result (observed): {S.fmt(d2)}"))
    folded, seen = [], {}
    for cls, msg in fails:  # the same failure class in both stores is one failing point
        k = repr(sorted(cls.items(), key=repr))
        if k in seen:
            folded[seen[k]] = (cls, folded[seen[k]][1] + " || " + msg[:400])
        else:
            seen[k] = len(folded)
            folded.append((cls, msg))
    return folded, outcome, rts, shares


def eval_memalias(item, seed=0, scratch="/tmp"):
    t = Tally()
    fails, outcome, rts, shares = run_memalias(item, seed, scratch)
    for store in STORES:
        t.case(key=["memalias", item["base"], item["first"], item["second"], item["placement"], store], nontrivial=True, outcome=outcome.get(store))
    t.extra["memalias_graphs"] += 1
    t.extra["memalias_graphs_whose_two_values_share_memory"] += shares[0]
    t.extra["memalias_loaded_graphs_whose_two_values_still_share_memory"] += shares[1]
    t.extra["roundtrips"] += rts
    for cls, msg in fails:
        t.fail(cls, dict(item, kind="memalias", seed=seed), msg)
    if item["first"] == "self" and item["second"] == "detach":
        t.sample({"family": "memory_aliasing", "graph": S.mem_show(item["base"], item["first"], item["second"], item["placement"]), "stores": list(STORES),
                  "observed": "each value equal to itself" if not fails else f"{len(fails)} failure(s)"}, cap=1)
    return t


# ----------------------------------------------------------------------------- failed operations, then good ones
# A save that raises (an unsaveable leaf somewhere in the graph) or a load that raises (a damaged file) must leave
# nothing behind in the process: after the leaf is removed or replaced, saving + loading the same root, a sibling root
# that shares the nested child, and the child alone must give exactly what a fresh process gives.
BAD_LEAVES = ["generator", "memoryview", "getstate_raises"]  # (a lambda holding a lock is pickled by dill: not unsaveable)
BAD_POSITIONS = ["root_attribute", "nested_attribute", "in_root_list", "in_nested_dict"]


def _bad_leaf(kind):
    import threading

    if kind == "generator":
        return (i for i in range(3))
    if kind == "memoryview":
        return memoryview(b"not picklable")
    if kind == "getstate_raises":
        return S.RefusesPickling()
    raise ValueError(kind)


def _failed_graph(seed, leaf=None, position=None, replacement=None):
    """(root, sibling root sharing the child, child). `leaf` placed at `position`; None = absent; replacement = a str there instead."""
    child = S.build(S.O("NodeA", v=S.L("i-1"), t=S.L("t_f32_grad"), d=S.D(("k", S.L("arr:i16:(3,)")))), seed)
    root = S.build(S.O("Root", a=S.L("arr:f64:(2, 3)"), l=S.C("list", S.L("s"), S.L("arr:u8:(3,)")), z=S.L("path_rel")), seed)
    root.child = child
    sib = S.build(S.O("Root", other=S.L("s_unicode"), arr=S.L("arr:i64:()")), seed)
    sib.child = child
    val = leaf if leaf is not None else replacement
    if val is not None:
        if position == "root_attribute":
            root.m_bad = val
        elif position == "nested_attribute":
            child.m_bad = val
        elif position == "in_root_list":
            root.l.append(val)
        elif position == "in_nested_dict":
            child.d["m_bad"] = val
    return root, sib, child


def run_failed_save(item, seed, scratch):
    leaf, pos, repair, store = item["leaf"], item["position"], item["repair"], item["store"]
    fails, outcome = [], []
    base = {"relation": "history:good_save_after_failed_save"}  # leaf / position / repair go to the message and the case
    label = f"failed-save history store={store}: unsaveable {leaf} at {pos}; save raises; leaf {'removed' if repair == 'remove' else 'replaced by a str'};"
    with S.Workdir(scratch, "C01") as wd:
        root, sib, child = _failed_graph(seed, leaf=_bad_leaf(leaf), position=pos)
        p = S.target(wd, store, "bad")
        try:
            with S.quiet():
                root.save(p, store=store)
            return fails, ["unsaveable_leaf_was_saved"], "leaf_was_saved"
        except Exception as e:
            outcome.append(type(e).__name__)
        # repair in place, on the very same objects
        rep = None if repair == "remove" else "s"
        if pos == "root_attribute":
            delattr(root, "m_bad") if rep is None else setattr(root, "m_bad", rep)
        elif pos == "nested_attribute":
            delattr(child, "m_bad") if rep is None else setattr(child, "m_bad", rep)
        elif pos == "in_root_list":
            root.l.pop()
            if rep is not None:
                root.l.append(rep)
        else:
            child.d.pop("m_bad")
            if rep is not None:
                child.d["m_bad"] = rep
        eroot, esib, echild = _failed_graph(seed, replacement=rep, position=pos)
        for name, obj, exp in (("same_root", root, eroot), ("sibling_root_sharing_the_child", sib, esib), ("child_alone", child, echild)):
            st, y = S.save_load(obj, wd, store, name="good_" + name)
            if st != "ok":
                fails.append((dict(base, followup=name, symptom=st, exc=type(y).__name__), f"{label} then save+load of {name}: {st.replace('_', ' ')} {type(y).__name__}: {str(y)[:200]} (expected: as in a fresh process)"))
                outcome.append([name, st])
                continue
            d = S.diff(exp, y, slack=True)
            outcome.append([name, "ok" if not d else "differs"])
            if d:
                fails.append((S.cls_of(d[0], **dict(base, followup=name)), f"{label} then save+load of {name} differs from a fresh build: {S.fmt(d)}"))
    return fails, outcome, "ran"


def run_failed_load(item, seed, scratch):
    """A damaged file makes load raise; a good file loaded afterwards must be right."""
    import os

    store, damage = item["store"], item["damage"]
    fails = []
    desc = MODE_GRAPHS["nested_objects"]
    with S.Workdir(scratch, "C01") as wd:
        good, bad = S.target(wd, store, "good"), S.target(wd, store, "bad")
        with S.quiet():
            S.build(desc, seed).save(good, store=store)
            S.build(MODE_GRAPHS["tensors"], seed).save(bad, store=store)
        if store == "zip":
            data = open(bad, "rb").read()
            open(bad, "wb").write(data[: len(data) // 2] if damage == "truncated" else data[:100] + b"garbage" + data[107:])
        else:
            victims = sorted(os.path.join(dp, f) for dp, _, fs in os.walk(bad) for f in fs if f == "zarr.json" and dp != bad)
            v = victims[len(victims) // 2]
            if damage == "truncated":
                open(v, "wb").write(open(v, "rb").read()[:20])
            else:
                os.remove(v)
        try:
            with S.quiet():
                S.q_load(bad)
            first = "damaged_file_loaded"
        except Exception as e:
            first = type(e).__name__
        try:
            with S.quiet():
                y = S.q_load(good)
        except Exception as e:
            fails.append(({"relation": "history:good_load_after_failed_load", "damage": damage, "symptom": "load_raises", "exc": type(e).__name__}, f"store={store}: load of a {damage} file ({first}), then load of a good file raised {type(e).__name__}: {str(e)[:200]}"))
            return fails, [first, "load_raises"]
        d = S.diff(S.build(desc, seed), y, slack=True)
        if d:
            fails.append((S.cls_of(d[0], relation="history:good_load_after_failed_load", damage=damage), f"store={store}: load of a {damage} file ({first}), then the good file loads differently from its input: {S.fmt(d)}"))
    return fails, [first, "ok" if not d else "differs"]


def eval_failed(item, seed=0, scratch="/tmp"):
    t = Tally()
    if item["kind"] == "failed_save":
        fails, outcome, status = run_failed_save(item, seed, scratch)
        t.extra["failed_save_histories"] += 1
        t.extra["failed_save_histories_where_the_leaf_was_saved_after_all"] += int(status != "ran")
    else:
        fails, outcome = run_failed_load(item, seed, scratch)
        t.extra["failed_load_histories"] += 1
    t.case(key=["failed_op", item], nontrivial=True, outcome=outcome)
    for cls, msg in fails:
        t.fail(cls, dict(item, seed=seed), msg)
    return t


# ----------------------------------------------------------------------------- re-entrant loads and saves
# Hooks the loader / pickler really runs (measured on HEAD): `__attrs_post_init__` (called on ANY class that defines it, after
# the object's attributes are restored), `__setattr__` (every attribute is restored through setattr: the hook runs in the
# middle of the object's restore), `__setstate__` / `__getstate__` of a plain object in the dill fallback. Each hook loads a
# companion archive (zip or dir) or saves another object while the outer load / save is in progress; the outer result must
# be what it is without the nesting.
REENTRANT_HOOKS = ["post_init_loads", "setattr_loads", "setstate_loads", "post_init_saves", "getstate_saves"]


def _reentrant_graph(hook, wd, comp_store, seed, layout):
    """(root to save, expected loaded root, side path or None). Built with the hooks switched off."""
    comp_desc = MODE_GRAPHS["nested_objects"] if layout == "other_layout" else S.O("Root", a_first=S.L("arr:f64:(2, 3)"), z_last=S.L("t_f64"), l=S.C("list", S.L("s"), S.L("arr:u8:(3,)")))
    comp_path = S.target(wd, comp_store, "companion")
    side_path = S.target(wd, comp_store, "side")
    S.HOOKS_ENABLED[0] = False
    try:
        with S.quiet():
            S.build(comp_desc, seed + 1).save(comp_path, store=comp_store)

        def make(expected):
            root = S.build(S.O("Root", a_first=S.L("arr:f64:(2, 3)"), z_last=S.L("t_f64"), l=S.C("list", S.L("s"), S.L("arr:u8:(3,)")), m_tuple=S.C("tuple", S.L("i-1"), S.L("s"))), seed)
            if hook in ("post_init_loads", "post_init_saves", "setattr_loads"):
                h = (S.HookedSetattr if hook == "setattr_loads" else S.HookedPostInit)()
                object.__setattr__(h, "arr", S.make_array("i16", (3,), seed + 3))
                object.__setattr__(h, "companion", ["load", comp_path] if hook != "post_init_saves" else ["save", side_path, comp_store])
                object.__setattr__(h, "tail", S.make_array("f32", (2,), seed + 4))
                if expected and hook != "post_init_saves":
                    object.__setattr__(h, "loaded", S.build(comp_desc, seed + 1))
                root.hooked = h
                # a second hooked sibling: whatever order the loader reads the groups in, one nested call happens before another sibling is read
                h2 = (S.HookedSetattr if hook == "setattr_loads" else S.HookedPostInit)()
                object.__setattr__(h2, "arr", S.make_array("i16", (3,), seed + 5))
                object.__setattr__(h2, "companion", ["load", comp_path] if hook != "post_init_saves" else ["save", side_path, comp_store])
                object.__setattr__(h2, "tail", S.make_array("f32", (2,), seed + 6))
                if expected and hook != "post_init_saves":
                    object.__setattr__(h2, "loaded", S.build(comp_desc, seed + 1))
                root.b_hooked2 = h2
            else:
                ph = S.PickleHook(["load", comp_path] if hook == "setstate_loads" else ["save_on_getstate", side_path, comp_store])
                if expected and hook == "setstate_loads":
                    ph.loaded = S.build(comp_desc, seed + 1)
                root.hooked = ph
                ph2 = S.PickleHook(["load", comp_path] if hook == "setstate_loads" else ["save_on_getstate", side_path, comp_store], "p2")
                if expected and hook == "setstate_loads":
                    ph2.loaded = S.build(comp_desc, seed + 1)
                root.b_hooked2 = ph2
                root.n_list = [S.PickleHook(None, "q"), "s"]
            return root

        return make(False), make(True), (side_path if hook in ("post_init_saves", "getstate_saves") else None)
    finally:
        S.HOOKS_ENABLED[0] = True


def _pickle_hook_diff(exp, got):
    """PickleHook objects compare by tag/companion through ==; their `loaded` payload is compared here."""
    for name in ("hooked", "b_hooked2"):
        e, g = getattr(exp, name, None), getattr(got, name, None)
        if isinstance(e, S.PickleHook) and isinstance(g, S.PickleHook) and hasattr(e, "loaded"):
            if not hasattr(g, "loaded"):
                return [{"path": f"x.{name}.loaded", "position": "attribute", "what": "attr_set", "expected": "loaded", "observed": "absent", "kind": "object", "missing": ["loaded"]}]
            d = S.diff(e.loaded, g.loaded, slack=True, root=f"x.{name}.loaded")
            if d:
                return d
    return []


def run_reentrant(item, seed, scratch):
    hook, store, comp_store, layout = item["hook"], item["store"], item["companion_store"], item["layout"]
    fails = []
    base = {"relation": "reentrant_call_independent", "hook": hook, "outer_store": store, "companion_store": comp_store}
    label = f"re-entrant {hook}: outer store={store}, companion store={comp_store} ({layout})"
    with S.Workdir(scratch, "C01") as wd:
        root, exp, side = _reentrant_graph(hook, wd, comp_store, seed, layout)
        st, y = S.save_load(root, wd, store, name="outer")
        if st != "ok":
            fails.append((dict(base, symptom=st, exc=type(y).__name__), f"{label}: {st.replace('_', ' ')} {type(y).__name__}: {str(y)[:200]} (expected: the result of the same graph without the nested call)"))
            return fails, [st, type(y).__name__]
        d = S.diff(exp, y, slack=True) or _pickle_hook_diff(exp, y)
        if d:
            fails.append((S.cls_of(d[0], **base), f"{label}: the outer load differs from the in-memory graph (with the companion attached): {S.fmt(d)}"))
        if side is not None:
            try:
                with S.quiet():
                    z = S.q_load(side)
                ok = isinstance(z, S.NodeC) and set(vars(z)) == {"v", "arr"} and list(z.arr) == [0, 1, 2, 3]
            except Exception as e:
                ok, z = False, e
            if not ok:
                fails.append((dict(base, what="side_file", symptom="side_save_wrong"), f"{label}: the object saved by the hook does not load back: {S.short(z)}"))
    return fails, S.summary(y)


def eval_reentrant(item, seed=0, scratch="/tmp"):
    t = Tally()
    fails, outcome = run_reentrant(item, seed, scratch)
    t.case(key=["reentrant", item], nontrivial=True, outcome=outcome)
    t.extra["reentrant_points"] += 1
    for cls, msg in fails:
        t.fail(cls, dict(item, kind="reentrant", seed=seed), msg)
    if item["hook"] == "setattr_loads" and item["store"] == "zip" and item["companion_store"] == "zip":
        t.sample({"family": "reentrant", "hook": item["hook"], "outer_store": item["store"], "companion_store": item["companion_store"], "layout": item["layout"], "observed": "outer load equals the in-memory graph" if not fails else f"{len(fails)} failure(s)"}, cap=1)
    return t


# ----------------------------------------------------------------------------- global modes
MODE_GRAPHS = S.mode_graphs()
# (save mode, load mode): quick sub-lattice; thorough = every mode in all three phases
MODE_PHASES_QUICK = [
    ("no_grad", "default"), ("default", "no_grad"), ("no_grad", "no_grad"),
    ("set_grad_enabled_false", "default"), ("set_grad_enabled_false", "set_grad_enabled_false"),
    ("inference_mode", "default"), ("inference_mode", "inference_mode"),
    ("default_dtype_float64", "default_dtype_float64"), ("warnings_as_errors", "warnings_as_errors"), ("np_errstate_raise", "np_errstate_raise"),
    ("cwd_relative_target", "cwd_relative_target"), ("private_tmpdir", "private_tmpdir"),
]


def mode_phases(quick):
    if quick:
        return list(MODE_PHASES_QUICK)
    out = []
    for m in S.GLOBAL_MODES:
        out += [(m, "default"), ("default", m), (m, m)]
    return out


def run_mode(item, seed, scratch):
    """One graph saved under one global mode and loaded under another, both stores: the loaded graph must equal the
    in-memory graph exactly as in the default mode. A save/load that raises because a warning became an error is counted."""
    gname, sm, lm = item["graph"], item["save_mode"], item["load_mode"]
    desc = MODE_GRAPHS[gname]
    fails, outcomes, counted = [], {}, 0
    base = {"relation": "global_mode_independent", "save_mode": sm, "load_mode": lm}
    with S.Workdir(scratch, "C01") as wd:
        for store in STORES:
            x = S.build(desc, seed)  # built in the default mode
            st, y = S.save_load_under(x, wd, store, sm, lm, name="m" + store)
            if st != "ok":
                outcomes[store] = [st, type(y).__name__]
                if isinstance(y, Warning) and "warnings_as_errors" in (sm, lm):
                    counted += 1
                    continue
                fails.append((dict(base, symptom=st, exc=type(y).__name__, graph=gname), f"graph {gname} {S.show(desc)[:200]} store={store} save under {sm}, load under {lm}: {st.replace('_', ' ')} {type(y).__name__}: {str(y)[:200]} (works in the default mode)"))
                continue
            outcomes[store] = S.summary(y)
            d = S.diff(S.build(desc, seed), y, slack=True)
            if d:
                fails.append((S.cls_of(d[0], **base), f"graph {gname} store={store} save under {sm}, load under {lm}: load(save(x)) differs from x: {S.fmt(d)}"))
    return fails, outcomes, counted


def eval_mode(item, seed=0, scratch="/tmp"):
    t = Tally()
    fails, outcomes, counted = run_mode(item, seed, scratch)
    for store in STORES:
        t.case(key=["mode", item, store], nontrivial=True, outcome=outcomes.get(store))
    t.extra["mode_points"] += len(STORES)
    t.extra["mode_points_where_a_warning_became_an_error"] += counted
    folded = {}
    for cls, msg in fails:
        k = repr(sorted(cls.items(), key=repr))
        folded[k] = (cls, folded[k][1] + " || " + msg[:300]) if k in folded else (cls, msg)
    for cls, msg in folded.values():
        t.fail(cls, {"kind": "mode", "graph": item["graph"], "save_mode": item["save_mode"], "load_mode": item["load_mode"], "seed": seed}, msg)
    if item["graph"] == "tensor_views":
        t.sample({"family": "global_mode", "graph": item["graph"], "save_mode": item["save_mode"], "load_mode": item["load_mode"], "stores": list(STORES), "observed": "equal to the input" if not fails else f"{len(fails)} failure(s)"}, cap=1)
    return t


# ----------------------------------------------------------------------------- configuration product
def _old_object(desc, seed):
    """An object of another class whose attributes collide by name, but not by kind, with the new graph's."""
    import numpy as np

    o = S.Old()
    for n, _ in desc[2]:
        setattr(o, n, ["old", 1])
    o.only_old = np.arange(3)
    o.only_old_scalar = "old"
    return o


def run_config(core_i, desc, store, comp, seed, scratch):
    """Reference = default configuration of the same store; then path kind x mode for one compression level."""
    fails, points = [], []
    with S.Workdir(scratch, "C01") as wd:
        st, yref = S.save_load(S.build(desc, seed), wd, store, name="ref")
        if st != "ok":
            fails.append(_exc_failure("load_save_equals_input", st, yref, desc, store, seed, wd, "default-configuration save/load") + ({},))
            return fails, points
        d = S.diff(S.build(desc, seed), yref, slack=True)
        if d:
            fails.append((S.cls_of(d[0], relation="load_save_equals_input"), f"store={store} core graph {core_i} {S.show(desc)[:300]}: default configuration: {S.fmt(d)}", {}))
            return fails, points
        n = 0
        for pk in PATH_KINDS:
            for mode in MODES:
                n += 1
                cfg = {"store": store, "compression_level": comp, "path": pk, "mode": mode}
                name = f"t{n}"
                if mode == "o_existing":
                    p = S.target(wd, store, name, "str")
                    with S.quiet():
                        _old_object(desc, seed).save(p, store=store)
                    import os

                    if not os.path.exists(p):
                        raise Broken(f"could not create the pre-existing target {p}")
                st, y = S.save_load(
                    S.build(desc, seed), wd, store, name=name, path_kind=pk,
                    save_kw={"mode": "w" if mode == "w" else "o", "compression_level": comp},
                )
                if st != "ok":
                    cls = {"relation": "load_save_equals_input", "symptom": st, "exc": type(y).__name__, "kind": "configuration", "position": "root"}
                    fails.append((cls, f"core graph {core_i} config {cfg}: {st.replace('_', ' ')} {type(y).__name__}: {str(y)[:200]} (the default configuration works)", cfg))
                    points.append((cfg, [st], False))
                    continue
                points.append((cfg, S.summary(y), len(vars(y)) > 0))
                d1 = S.diff(S.build(desc, seed), y, slack=True)
                if d1:
                    fails.append((S.cls_of(d1[0], relation="load_save_equals_input", config="non-default"), f"core graph {core_i} config {cfg}: load(save(x)) differs from x: {S.fmt(d1)}", cfg))
                    continue
                d2 = S.diff(yref, y, slack=False)
                if d2:
                    fails.append((S.cls_of(d2[0], relation="config_independent"), f"core graph {core_i} config {cfg}: result differs from the default-configuration result: {S.fmt(d2)}", cfg))
    return fails, points


def eval_config(item, seed=0, scratch="/tmp"):
    t = Tally()
    fails, points = run_config(item["core"], item["g"], item["store"], item["compression"], seed, scratch)
    for cfg, outcome, nontrivial in points:
        t.case(key=[item["core"], cfg], nontrivial=nontrivial, outcome=outcome)
    t.extra["config_points"] += len(points)
    t.extra["roundtrips"] += len(points) + 1
    for cls, msg, cfg in fails:
        t.fail(cls, {"kind": "config", "core": item["core"], "graph": item["g"], "store": item["store"], "compression": item["compression"], "seed": seed, "config": cfg}, msg)
    if item["compression"] in (None, 9) and item["core"] == 0 and not fails:
        t.sample({"family": "configuration_product", "core_graph": S.show(item["g"])[:200], "store": item["store"], "compression": item["compression"], "paths": list(PATH_KINDS), "modes": list(MODES), "observed": "equal to input and to the default-configuration result"}, cap=1)
    return t


# ----------------------------------------------------------------------------- histories on one live object
# Every other part of this check builds a fresh graph and saves it once. Here ONE live object goes through a
# history of events: saves to new targets in either store, mode='o' saves onto the previous target, deleting the
# previous target and saving with mode='w' onto the same path, in-place mutations between them (among them the
# "removing" ones: delete an array attribute, shorten a list, delete a dict key, replace a nested object by a
# scalar), and load(previous target). All histories up to a depth are enumerated and replayed from a fresh build.
# Loads have side effects of their own (a loader may keep what it unpacked), so they are events, not only verdicts:
#   mode "every_save": after EVERY save, load(target) is executed and judged on the spot against a deep copy of
#                      the object taken at that save, so a load lies between any two saves of the history;
#   mode "as_written": loads only where the history has a `load` event (judged on the spot against the snapshot
#                      of the save that wrote that target) and once per existing target after the last event.
# In both modes every earlier target that was not overwritten must, at the end, still load to what the object was
# when it was written. Histories end in a save: shorter prefixes are histories of their own.
def _hist_graphs():
    L, C, D, O = S.L, S.C, S.D, S.O
    T, G, A = L("t_f64"), L("t_f32_grad_2x3"), L("arr:f64:(2, 3)")  # both tensors hold ordinary values next to nan/-0/inf
    M = lambda op, *path: ["mut", op, list(path)]  # noqa: E731
    SET = lambda desc, *path: ["mut", "set", list(path), desc]  # noqa: E731
    TH = lambda ev: ev + ["thorough"]  # noqa: E731  (events explored in the thorough tier only; quick: five mutations per object)
    RM = lambda ev: ev + ["removing"]  # noqa: E731  (takes a non-scalar member out of the graph: what a later save must not resurrect)
    return {
        "tensor_top": (
            O("Root", t=T, g=G, n=L("i-1")),
            [M("rg_flip", "t"), M("data_mul2", "g"), M("data_set", "t"), M("numpy_set", "t"), RM(M("del", "g")),
             TH(M("rg_flip", "g")), TH(RM(SET(L("arr:i16:(3,)"), "t"))), TH(M("inplace_add", "t")), TH(M("del", "n"))],
        ),
        "tensor_in_containers": (
            O("Root", l=C("list", L("s"), T), d=D(("k", G), ("m", L("s")))),
            [M("rg_flip", "l", 1), M("data_mul2", "d", "k"), M("rg_flip", "d", "k"), RM(M("pop", "l")), RM(M("del", "d", "k")),
             TH(M("numpy_set", "l", 1)), TH(["mut", "append", ["l"], L("s_unicode")]), TH(RM(SET(C("tuple", L("s"), L("none")), "l"))), TH(SET(L("i2^40"), "d", "k2"))],
        ),
        "arrays_and_containers": (
            O("Root", a=A, l=C("list", L("s"), L("arr:i16:(3,)")), d=D(("k", L("arr:i16:(3,)")), ("m", L("i-1"))), v=L("s")),
            [M("nd_set", "a"), RM(M("del", "a")), RM(M("pop", "l")), RM(M("del", "d", "k")), RM(SET(L("s_unicode"), "a")),
             TH(M("nd_set", "d", "k")), TH(["mut", "append", ["l"], L("f1.5")]), TH(SET(L("arr:u8:(3,)"), "v")), TH(M("del", "v")), TH(SET(L("none"), "d", "n"))],
        ),
        "nested_object": (
            O("Root", child=O("NodeA", t=T, a=L("arr:i16:(3,)"), v=L("i-1")), v=L("s")),
            [M("rg_flip", "child", "t"), M("nd_set", "child", "a"), RM(M("del", "child", "a")), RM(SET(L("s"), "child")), SET(G, "child", "new"),
             TH(M("data_set", "child", "t")), TH(SET(L("s"), "child", "v")), TH(RM(SET(C("list", L("i-1"), L("s")), "child")))],
        ),
    }


HIST_GRAPHS = _hist_graphs()
# save to a new target (zip / dir); mode='o' onto the previous target; delete the previous target, then mode='w' onto its path
HIST_SAVES = [["save_new", "zip"], ["save_new", "dir"], ["save_o"], ["save_rm_w"]]
HIST_LOAD = ["load"]  # load(previous target), judged on the spot against the snapshot taken when that target was written
_MARKS = ("thorough", "removing")


def _resolve(root, path):
    cur = root
    for step in path:
        if isinstance(cur, S.AutoSerialize):
            cur = vars(cur)[step]
        else:
            cur = cur[step]
    return cur


def _apply_mutation(root, ev, seed):
    """Apply one mutation event to the live object. False = not enabled in this state (history is dropped)."""
    import numpy as np
    import torch

    op, path = ev[1], ev[2]
    try:
        if op in ("set", "del"):
            parent, name = _resolve(root, path[:-1]), path[-1]
            if op == "set":
                v = S.build(ev[3], seed)
                if isinstance(parent, S.AutoSerialize):
                    setattr(parent, name, v)
                elif isinstance(parent, (dict, list)):
                    parent[name] = v
                else:
                    return False
            else:
                if isinstance(parent, S.AutoSerialize):
                    delattr(parent, name)
                elif isinstance(parent, dict):
                    del parent[name]
                else:
                    return False
            return True
        x = _resolve(root, path)
        if op == "append":
            if not isinstance(x, list):
                return False
            x.append(S.build(ev[3], seed))
        elif op == "pop":
            if not isinstance(x, list) or not x:
                return False
            x.pop()
        elif op == "nd_set":
            if not isinstance(x, np.ndarray) or x.size == 0:
                return False
            x.reshape(-1)[0] = 42
        elif op in ("rg_flip", "data_mul2", "data_set", "numpy_set", "inplace_add"):
            if not isinstance(x, torch.Tensor) or x.numel() == 0 or not x.is_leaf:
                return False
            if op == "rg_flip":
                if not (x.is_floating_point() or x.is_complex()):
                    return False
                x.requires_grad_(not x.requires_grad)
            elif op == "data_mul2":
                x.data.mul_(2)
            elif op == "data_set":
                x.data.view(-1)[0] = 7.5
            elif op == "numpy_set":
                if x.requires_grad:
                    return False
                x.numpy().reshape(-1)[-1] = -3.25
            else:
                if x.requires_grad:
                    return False
                x.add_(1)
        else:
            raise ValueError(op)
        return True
    except (KeyError, IndexError, AttributeError, TypeError):
        return False


def hist_enabled(gname, hist, seed):
    """Dry run without any I/O: every mutation applicable, every mode='o' save preceded by a save."""
    root = S.build(HIST_GRAPHS[gname][0], seed)
    saved = False
    for ev in hist:
        if ev[0] == "save_new":
            saved = True
        elif ev[0] in ("save_o", "save_rm_w", "load"):
            if not saved:
                return False
        elif not _apply_mutation(root, ev, seed):
            return False
    return True


def run_history(gname, hist, seed, scratch, mode="every_save"):
    """Replay one history on a fresh live object. Returns (fails, outcome, saves, loads).

    mode "every_save": after EVERY save event load(target) is executed and judged on the spot (so a load lies
                       between any two saves: save(T) -> load(T) -> mutate -> save(mode='o', T) -> load(T));
         "as_written": loads happen only where the history has a `load` event, plus, after the last event, one
                       load of every target that exists (the last one against the object as it is now, the
                       earlier ones against what the object was when they were written)."""
    import copy
    import os
    import shutil

    fails = []
    root = S.build(HIST_GRAPHS[gname][0], seed)
    targets = {}  # path -> (store, model = deep copy of the object when it was last saved there, index of that save)
    last = None
    last_mut = None
    nsaves = nloads = 0
    outcome = None
    label = f"graph {gname} {S.show(HIST_GRAPHS[gname][0])} history {_show_hist(hist)}" + (" [load after every save]" if mode == "every_save" else "")

    def judge(p, rel, when):
        nonlocal nloads, outcome
        store, model, i = targets[p]
        nloads += 1
        try:
            with S.quiet():
                y = S.q_load(p)
        except Exception as e:
            fails.append(({"relation": rel, "symptom": "load_raises", "exc": type(e).__name__, "last_mutation": last_mut}, f"{label}: {when}: loading the target of save event {i} raised {type(e).__name__}: {str(e)[:200]}"))
            return
        if p == last[0]:
            outcome = S.summary(y)
        d = S.diff(model, y, slack=True)
        if d:
            what = "the object as it was at that save" if rel != "history:earlier_target_unchanged" else f"the object as it was at save event {i} (the file changed afterwards)"
            fails.append((S.cls_of(d[0], relation=rel, last_mutation=last_mut), f"{label}: {when}: load(target of save event {i}, store={store}) differs from {what}: {S.fmt(d)}"))

    with S.Workdir(scratch, "C01") as wd:
        for i, ev in enumerate(hist):
            if ev[0] == "mut":
                if not _apply_mutation(root, ev, seed):
                    raise Broken(f"history {hist} was enumerated as enabled but event {i} is not applicable")
                last_mut = ev[1]
                continue
            if ev[0] == "load":
                judge(last[0], "history:load_equals_current_object", f"load event {i}")
                continue
            if ev[0] == "save_new":
                store = ev[1]
                p = S.target(wd, store, f"h{i}")
                smode = "w"
            else:
                p, store = last
                smode = "o"
                if ev[0] == "save_rm_w":
                    smode = "w"
                    if os.path.isdir(p):
                        shutil.rmtree(p)
                    elif os.path.exists(p):
                        os.remove(p)
            model = copy.deepcopy(root)
            try:
                with S.quiet():
                    root.save(p, store=store, mode=smode)
            except Exception as e:
                cls = {"relation": "history:load_equals_current_object", "symptom": "save_raises", "exc": type(e).__name__, "last_mutation": last_mut}
                fails.append((cls, f"{label}: save event {i} raised {type(e).__name__}: {str(e)[:200]} (expected: no exception)"))
                return fails, ["save_raises"], nsaves, nloads
            nsaves += 1
            targets[p] = (store, model, i)
            last = (p, store)
            if mode == "every_save":
                judge(p, "history:load_equals_current_object", f"right after save event {i}")
        # ---- after the last event (a save): every target that was not just judged
        for p in list(targets):
            if p == last[0]:
                if mode != "every_save":
                    judge(p, "history:load_equals_current_object", "after the last event")
            else:
                judge(p, "history:earlier_target_unchanged", "after the last event")
    return fails, outcome, nsaves, nloads


def _show_hist(hist):
    out = []
    for ev in hist:
        if ev[0] == "save_new":
            out.append(f"save({ev[1]})")
        elif ev[0] == "save_o":
            out.append("save(mode='o', same target)")
        elif ev[0] == "save_rm_w":
            out.append("delete target, save(mode='w', same path)")
        elif ev[0] == "load":
            out.append("load(previous target)")
        else:
            tgt = ".".join(str(x) for x in ev[2])
            out.append(f"{ev[1]}({tgt}{', ' + S.show(ev[3]) if len(ev) > 3 else ''})")
    return "[" + " ; ".join(out) + "]"


def hist_events(gname, quick, removing_only=False):
    out = []
    for e in HIST_GRAPHS[gname][1]:
        marks = []
        while isinstance(e[len(e) - 1 - len(marks)], str) and e[len(e) - 1 - len(marks)] in _MARKS:
            marks.append(e[len(e) - 1 - len(marks)])
        if quick and "thorough" in marks:
            continue
        if removing_only and "removing" not in marks:
            continue
        out.append(e[: len(e) - len(marks)])
    return out


def enumerate_histories(depth, quick=False):
    """Family 1: all event sequences of length 1..depth over {mutations, saves} that end in a save (mode='o' and
    delete-then-'w' need an earlier save), executed with a load after every save; thorough: full mutation alphabet
    up to length 3 and the five quick mutations at length 4; those of length <= 3 with at least two saves also
    without the intermediate loads. Family 2 (thorough): sequences that contain explicit `load` events,
    over the removing mutations only, loads exactly where the history says. State-dependent enabledness is decided
    in the worker by a dry run."""
    import itertools

    items = []
    needs_prior = ("save_o", "save_rm_w", "load")
    for gname in HIST_GRAPHS:
        for n in range(1, depth + 1):
            # thorough: the full mutation alphabet up to length 3, the five quick mutations at length 4
            alphabet = hist_events(gname, quick or n >= 4) + HIST_SAVES
            for prefix in itertools.product(alphabet, repeat=n - 1):
                if prefix and prefix[0][0] in needs_prior:
                    continue
                for sv in HIST_SAVES:
                    if sv[0] in needs_prior and not any(e[0] == "save_new" for e in prefix):
                        continue
                    hist = [list(e) for e in prefix] + [list(sv)]
                    items.append({"graph": gname, "history": hist, "mode": "every_save"})
                    if not quick and n <= 3 and sum(1 for e in hist if e[0] != "mut") >= 2:
                        items.append({"graph": gname, "history": hist, "mode": "as_written"})
        if not quick:
            alphabet2 = hist_events(gname, quick, removing_only=True) + HIST_SAVES + [HIST_LOAD]
            for n in range(3, depth + 1):
                for first in HIST_SAVES[:2]:
                    for mid in itertools.product(alphabet2, repeat=n - 2):
                        if not any(e[0] == "load" for e in mid):
                            continue
                        for sv in HIST_SAVES:
                            items.append({"graph": gname, "history": [list(first)] + [list(e) for e in mid] + [list(sv)], "mode": "as_written"})
    return items


def eval_history(item, seed=0, scratch="/tmp"):
    t = Tally()
    gname, hist, mode = item["graph"], item["history"], item.get("mode", "every_save")
    if not hist_enabled(gname, hist, seed):
        t.extra["histories_not_enabled"] += 1
        return t
    fails, outcome, nsaves, nloads = run_history(gname, hist, seed, scratch, mode)
    nmut = sum(1 for e in hist if e[0] == "mut")
    t.case(key=["history", gname, hist, mode], nontrivial=len(hist) >= 2, outcome=outcome)
    t.extra["histories"] += 1
    t.extra["histories_" + mode] += 1
    t.extra["history_saves"] += nsaves
    t.extra["history_loads"] += nloads
    if nsaves >= 2 and nmut >= 1:
        t.extra["histories_with_mutation_between_two_saves"] += int(any(hist[i][0] == "mut" and any(e[0] not in ("mut", "load") for e in hist[:i]) for i in range(len(hist))))
    for cls, msg in fails:
        t.fail(cls, {"kind": "history", "graph": gname, "history": hist, "mode": mode, "seed": seed}, msg)
    if len(hist) == 3 and hist[0][0] == "save_new" and hist[1][0] == "mut":
        t.sample({"family": "history", "graph": gname, "history": _show_hist(hist), "mode": mode, "observed": "every load equals the snapshot of its save; earlier targets unchanged" if not fails else f"{len(fails)} failure(s)"}, cap=1)
    return t


# ----------------------------------------------------------------------------- class identity of same-named classes
# "yields an object of the same class". Members S.TWIN_CLASSES: classes that share __name__ / __qualname__ across modules (one a
# subclass of its namesake), a class nested in a class ('Outer.Params') next to the module-level 'Params', names that are
# prefixes of one another, a namesake of the NodeA every other family loads. Every ORDERED pair (with the diagonal) is placed
# (i) in one graph (two attributes / list / dict / the first as ROOT holding the second / attribute + list of a nested object),
# (ii) in two successive save/load round trips of one process (root then root, root then nested, nested then root; saves and
# loads interleaved, saves first, saves first and loads in reverse). Oracle: `type(loaded) is type(original)` at every
# AutoSerialize node (class OBJECTS, module included), then the ordinary value equality; zip result == dir result.
# A class nested in a class WAS refused at load on the pinned tree (finding 47, repaired) (AttributeError: the qualified name was looked up
# with one getattr): such a load is counted, not flagged; if it loads, the class must be right.
TWIN_CORE = ["a.Params", "b.Params", "c.Params(a.Params)", "a.NodeA", "s.NodeA"]  # quick: the members multiplied into every placement / session


def _twin_related(x, y):
    """Same __name__, or one __name__ a prefix of the other."""
    nx, ny = S.TWIN_CLASSES[x].__name__, S.TWIN_CLASSES[y].__name__
    return nx.startswith(ny) or ny.startswith(nx)


def twin_items(quick):
    """thorough: every ordered pair (with the diagonal) x every placement x both stores with the fixed point, and every ordered pair
    x session x order x every ordered pair of stores. quick (a sub-lattice): every ordered pair as two attributes (store alternating);
    the related pairs of TWIN_CORE in every other placement but tuple, both stores; sessions: the related distinct pairs of TWIN_CORE x
    session x two orders, every other related distinct pair as root-then-root (store alternating)."""
    ms = list(S.TWIN_CLASSES)
    out = []
    n = 0
    for x in ms:
        for y in ms:
            core = x in TWIN_CORE and y in TWIN_CORE and _twin_related(x, y)
            for pl in S.TWIN_PLACEMENTS:
                if not quick:
                    out.append({"shape": "graph", "first": x, "second": y, "placement": pl, "stores": list(STORES), "fixed_point": True})
                elif pl == "two_attributes":
                    n += 1
                    out.append({"shape": "graph", "first": x, "second": y, "placement": pl, "stores": [STORES[n % 2]], "fixed_point": False})
                elif core and pl != "tuple":
                    out.append({"shape": "graph", "first": x, "second": y, "placement": pl, "stores": list(STORES), "fixed_point": False})
    for x in ms:
        for y in ms:
            core = x in TWIN_CORE and y in TWIN_CORE
            for ss in S.TWIN_SESSIONS:
                for od in S.TWIN_ORDERS:
                    if x == y and (quick or (ss == "root_then_root" and od != "save_load_save_load")):
                        continue
                    if not quick:
                        out += [{"shape": "session", "first": x, "second": y, "session": ss, "order": od, "stores": [s1, s2]} for s1 in STORES for s2 in STORES]
                        continue
                    if not _twin_related(x, y) or od == "save_save_load_load" or (not core and (ss != "root_then_root" or od != "save_load_save_load")):
                        continue
                    n += 1
                    out.append({"shape": "session", "first": x, "second": y, "session": ss, "order": od, "stores": [STORES[n % 2]] * 2})
    return out


def _twin_judge(exp, st, y, label, tag, has_inner, rel="load_save_equals_input"):
    """(fails, outcome, refused) for one load against the freshly built expected graph."""
    if st != "ok":
        # (a class defined inside another class was refused at load on the pinned tree: finding 47, repaired; a refusal
        # is a violation like any other load that raises)
        return [(dict(tag, relation=rel, symptom=st, exc=type(y).__name__), f"{label}: {'save(x)' if st == 'save_raises' else 'load(save(x))'} raised {type(y).__name__}: {str(y)[:200]} (expected: no exception)")], [st, type(y).__name__], 0
    outcome = [S.class_names(y), S.summary(y)]
    ci = S.class_identity_diff(exp, y)
    if ci:
        r = ci[0]
        return [(dict(tag, relation="class_identity", what="class"), f"{label}: the loaded object at {r['path']} is an instance of {r['observed']} (observed), the saved one of {r['expected']} (expected: the very same class)" + (f"; {len(ci) - 1} more node(s)" if len(ci) > 1 else ""))], outcome, 0
    d = S.diff(exp, y, slack=True)
    if d:
        return [(S.cls_of(d[0], relation=rel, **tag), f"{label}: load(save(x)) differs from x: {S.fmt(d)}")], outcome, 0
    return [], outcome, 0


def run_twin(item, seed, scratch):
    """(fails, {case label: outcome}, round trips, loads refused because of an inner class)."""
    first, second = item["first"], item["second"]
    fails, outcomes, rts, refused = [], {}, 0, 0
    with S.Workdir(scratch, "C01") as wd:
        if item["shape"] == "graph":
            pl = item["placement"]
            tag = {"family": "class_twins", "placement": pl}
            inner = S.twin_is_inner(first) or S.twin_is_inner(second)
            loaded = {}
            for store in item.get("stores", STORES):
                label = f"store={store} same-named-classes graph {S.twin_show(first, second, pl)}"
                st, y = S.save_load(S.twin_graph(first, second, pl, seed), wd, store, name="a")
                rts += 1
                f, outcomes[store], r = _twin_judge(S.twin_graph(first, second, pl, seed), st, y, label, tag, inner)
                fails += f
                refused += r
                if st != "ok" or f:
                    continue
                loaded[store] = y
                if item.get("fixed_point"):
                    st2, z = S.save_load(y, wd, store, name="b")
                    rts += 1
                    f2, _, _ = _twin_judge(y, st2, z, label + " [fixed point: the loaded object saved and loaded again]", tag, inner, rel="fixed_point")
                    fails += f2
            if len(loaded) == 2:
                d2 = S.diff(loaded["zip"], loaded["dir"], slack=False)
                if d2:
                    fails.append((S.cls_of(d2[0], relation="zip_equals_dir", **tag), f"same-named-classes graph {S.twin_show(first, second, pl)}: zip result (expected) differs from dir result (observed): {S.fmt(d2)}"))
        else:
            ss, od, stores = item["session"], item["order"], item["stores"]
            tag = {"family": "class_twins", "session": ss}
            roles = {"root_then_root": ("root", "root"), "root_then_nested": ("root", "nested"), "nested_then_root": ("nested", "root")}[ss]
            steps = [(1, first, roles[0], stores[0]), (2, second, roles[1], stores[1])]
            show = lambda k, m, role: f"<{m}>(v, n, s)" if role == "root" else f"Root(c=<{m}>(v, n, s), n)"  # noqa: E731
            whole = f"one process, {od.replace('_', ' ')}: 1st {show(*steps[0][:3])} store={stores[0]}, 2nd {show(*steps[1][:3])} store={stores[1]}"
            paths, dead = {}, set()

            def save(k, m, role, store):
                p = S.target(wd, store, f"s{k}")
                try:
                    with S.quiet():
                        S.twin_session_graph(m, role, seed, k).save(p, store=store)
                    paths[k] = p
                except Exception as e:
                    dead.add(k)
                    outcomes[f"step{k}"] = ["save_raises", type(e).__name__]
                    fails.append((dict(tag, relation="load_save_equals_input", symptom="save_raises", exc=type(e).__name__), f"{whole}: save of graph {k} raised {type(e).__name__}: {str(e)[:200]}"))

            def load(k, m, role, store):
                nonlocal fails, refused, rts
                if k in dead:
                    return
                rts += 1
                try:
                    with S.quiet():
                        st, y = "ok", S.q_load(paths[k])
                except Exception as e:
                    st, y = "load_raises", e
                f, outcomes[f"step{k}"], r = _twin_judge(S.twin_session_graph(m, role, seed, k), st, y, f"{whole}: graph {k}", tag, S.twin_is_inner(m))
                fails += f
                refused += r

            if od == "save_load_save_load":
                seq = [("s", 0), ("l", 0), ("s", 1), ("l", 1)]
            elif od == "save_save_load_load":
                seq = [("s", 0), ("s", 1), ("l", 0), ("l", 1)]
            else:
                seq = [("s", 0), ("s", 1), ("l", 1), ("l", 0)]
            for op, i in seq:
                (save if op == "s" else load)(*steps[i])
    folded, seen = [], {}
    for cls, msg in fails:  # the same failure class twice (both stores / both steps) is one failing point
        k = repr(sorted(cls.items(), key=repr))
        if k in seen:
            folded[seen[k]] = (cls, folded[seen[k]][1] + " || " + msg[:400])
        else:
            seen[k] = len(folded)
            folded.append((cls, msg))
    return folded, outcomes, rts, refused


def eval_twin(item, seed=0, scratch="/tmp"):
    t = Tally()
    fails, outcomes, rts, refused = run_twin(item, seed, scratch)
    for k in sorted(outcomes):
        t.case(key=["twin", item, k], nontrivial=True, outcome=outcomes[k])
    t.extra["twin_" + item["shape"] + "s"] += 1
    t.extra["twin_loads"] += rts
    t.extra["twin_loads_refused_because_of_a_class_nested_in_a_class"] += refused
    t.extra["twin_loads_judged_for_class_identity"] += sum(1 for o in outcomes.values() if o and isinstance(o[0], list))
    for cls, msg in fails:
        t.fail(cls, dict(item, kind="twin", seed=seed), msg)
    if item["first"] == "a.Params" and item["second"] == "b.Params":
        t.sample({"family": "class_twins", "item": {k: v for k, v in item.items() if k != "fixed_point"}, "classes_loaded": {k: (o[0] if o and isinstance(o[0], list) else o) for k, o in outcomes.items()},
                  "observed": "every node of the very same class, values equal" if not fails else f"{len(fails)} failure(s)"}, cap=2)
    return t


# ----------------------------------------------------------------------------- driver
def run(ctx):
    ctx.assume(
        "attribute names and dict keys: no reserved metadata names, no '/', and none of what zarr treats as path syntax ('\\\\', '.', '..')",
        "arrays: native byte order, no object dtype, no numpy.ma / numpy.matrix; integers beyond int64 never inside an all-numeric sequence",
        "NumPy scalars and all-numeric sequences (and all-numeric sets) are compared by numeric value between input and loaded graph; exactly between two loaded graphs",
        "random generators and loggers only have to come back as the same kind of object",
        "leaf contents are seeded (VERIF_SEED); the set of graphs and configurations does not depend on the seed",
    )
    items, bounds = S.grammar(ctx.tier)
    ncore = 3 if ctx.quick else 20
    core = S.config_core(ncore)

    probe = S.O(
        "Root", a=S.L("arr:f64:(2, 3)"), s=S.C("set", S.L("s"), S.L("i-1")), t=S.L("t_f32_grad"),
        l=S.C("list", S.L("complex"), S.D(("k", S.L("arr:i64:()"))), S.O("NodeA", p=S.L("path_rel"))), m=S.L("linear"), o=S.L("optimizer"),
    )

    def once():
        # what must be reproducible is the harness: the built input and the verdict (failure classes). The
        # loaded bytes of a *faulty* serializer may legitimately differ between runs (gzip time stamps).
        f, outcome, _, _ = run_graph(probe, ctx.seed, ctx.scratch)
        return (S.summary(S.build(probe, ctx.seed)), sorted(repr(sorted(c.items(), key=repr)) for c, _ in f), sorted(outcome))

    ctx.selftest(once)
    ctx.say(f"grammar: {bounds}")
    # the wide containers are scheduled on their own, most expensive first, one per chunk
    wide_items = sorted((it for it in items if it["fam"] == "wide_container"), key=lambda it: -S.wide_cost(it["g"]))
    merged_w = ctx.pmap(eval_graph, wide_items, chunk=1, label="wide containers", seed=ctx.seed, scratch=ctx.scratch)
    merged = ctx.pmap(eval_graph, [it for it in items if it["fam"] != "wide_container"], label="graphs", seed=ctx.seed, scratch=ctx.scratch)
    merged.merge(merged_w)
    cfg_items = [
        {"core": i, "g": g, "store": s, "compression": c}
        for i, g in enumerate(core) for s in STORES for c in COMPRESSIONS
    ]
    merged_cfg = ctx.pmap(eval_config, cfg_items, chunk=2, label="configurations", seed=ctx.seed, scratch=ctx.scratch)
    cyc = S.cycle_graphs()
    cyc_items = [{"name": n, "g": g, "store": st} for i, (n, g) in enumerate(cyc) for st in STORES if not ctx.quick or (st == "zip" and i < 3) or (st == "dir" and i == 3)]
    merged_c = ctx.pmap(eval_cycle, cyc_items, chunk=1, label="cycles (measured)", seed=ctx.seed, scratch=ctx.scratch)
    mode_items = [{"graph": g, "save_mode": sm, "load_mode": lm} for sm, lm in mode_phases(ctx.quick) for g in MODE_GRAPHS]
    merged_m = ctx.pmap(eval_mode, mode_items, chunk=2, label="global modes", seed=ctx.seed, scratch=ctx.scratch)
    fitems = [{"kind": "failed_save", "leaf": lf, "position": pos, "repair": rp, "store": st}
              for lf in BAD_LEAVES for pos in BAD_POSITIONS for rp in (["remove"] if ctx.quick else ["remove", "replace"])
              for st in (STORES if not ctx.quick else [STORES[(BAD_LEAVES.index(lf) + BAD_POSITIONS.index(pos)) % 2]])]
    fitems += [{"kind": "failed_load", "store": st, "damage": dm} for st in STORES for dm in ("truncated", "member_missing")]
    merged_f = ctx.pmap(eval_failed, fitems, chunk=1, label="failed operations", seed=ctx.seed, scratch=ctx.scratch)
    ritems = [{"hook": h, "store": st, "companion_store": cs, "layout": lay} for h in REENTRANT_HOOKS for st in STORES for cs in STORES
              for lay in (["same_layout"] if ctx.quick else ["same_layout", "other_layout"])]
    merged_r = ctx.pmap(eval_reentrant, ritems, chunk=1, label="re-entrant calls", seed=ctx.seed, scratch=ctx.scratch)
    maitems = mem_items(ctx.quick)
    merged_ma = ctx.pmap(eval_memalias, maitems, label="memory aliasing", seed=ctx.seed, scratch=ctx.scratch)
    twitems = twin_items(ctx.quick)
    merged_tw = ctx.pmap(eval_twin, twitems, label="same-named classes", seed=ctx.seed, scratch=ctx.scratch)
    hdepth = 3 if ctx.quick else 4
    hitems = enumerate_histories(hdepth, ctx.quick)
    merged_h = ctx.pmap(eval_history, hitems, label="histories", seed=ctx.seed, scratch=ctx.scratch)

    covered = set()
    for it in items:
        covered |= S.dispatch_classes(it["g"])
    need = set(S.REPS) | set(S.KINDS)
    ctx.coverage.update(
        failed_operations={"unsaveable_leaves": BAD_LEAVES, "positions": BAD_POSITIONS, "followups": ["same_root", "sibling_root_sharing_the_child", "child_alone"],
                           "failed_save_histories": int(merged_f.extra["failed_save_histories"]), "where_the_leaf_was_saved_after_all": int(merged_f.extra["failed_save_histories_where_the_leaf_was_saved_after_all"]),
                           "failed_load_histories": int(merged_f.extra["failed_load_histories"])},
        reentrant={"hooks": REENTRANT_HOOKS, "points": int(merged_r.extra["reentrant_points"]), "hooks_the_loader_runs": ["__new__", "__setattr__ (every restored attribute)", "__attrs_post_init__ (any class that defines it)", "__setstate__ / __getstate__ of dill-fallback values"]},
        container_subclasses={"subclasses": S.CONTAINER_SUBCLASSES, "positions": ["attribute", "list", "tuple", "dict", "nested_object"],
                              "graphs_refused_at_save": int(merged.extra["container_subclass_graphs_refused_at_save"]),
                              "as_attribute_loaded": int(merged.extra["container_subclass_as_attribute_loaded"]),
                              "as_attribute_came_back_as_the_subclass": int(merged.extra["container_subclass_as_attribute_came_back_as_the_subclass"])},
        aliasing={"graphs": [S.show(g)[:160] for g, _ in S._aliasing_graphs()], "groups_of_aliased_occurrences_loaded": int(merged.extra["alias_groups_loaded"]),
                  "groups_still_one_object_after_load": int(merged.extra["alias_groups_still_one_object_after_load"])},
        memory_aliasing={"bases_and_members": S.MEM_BASES, "ordered_pairs_with_diagonal": len(S.mem_pairs()), "placements": mem_placements(ctx.quick), "stores": list(STORES),
                         "pairs_per_placement": {pl: sum(1 for it in maitems if it["placement"] == pl) for pl in mem_placements(ctx.quick)},
                         "relations": ["load_save_equals_input", "zip_equals_dir"] + ([] if ctx.quick else ["fixed_point"]), "graphs": int(merged_ma.extra["memalias_graphs"]),
                         "graphs_whose_two_values_share_memory": int(merged_ma.extra["memalias_graphs_whose_two_values_share_memory"]),
                         "loaded_graphs_whose_two_values_still_share_memory": int(merged_ma.extra["memalias_loaded_graphs_whose_two_values_still_share_memory"])},
        class_twins={"members": {m: S.twin_fullname(c) for m, c in S.TWIN_CLASSES.items()}, "ordered_pairs_with_diagonal": len(S.TWIN_CLASSES) ** 2,
                     "placements_in_one_graph": [p for p in S.TWIN_PLACEMENTS if not (ctx.quick and p == "tuple")], "sessions_of_two_round_trips": S.TWIN_SESSIONS,
                     "orders_of_saves_and_loads": [o for o in S.TWIN_ORDERS if not (ctx.quick and o == "save_save_load_load")],
                     "quick_core_members": TWIN_CORE if ctx.quick else "all members everywhere",
                     "items_per_shape_and_placement": {k: sum(1 for it in twitems if it.get("placement", it.get("session")) == k) for k in S.TWIN_PLACEMENTS + S.TWIN_SESSIONS},
                     "stores": ("two_attributes graphs and sessions: zip / dir alternating over the product; other placements: both" if ctx.quick else "graphs: both; sessions: every ordered pair of stores"),
                     "relations": ["class_identity (type(loaded) is type(original) at every AutoSerialize node)", "load_save_equals_input", "zip_equals_dir"] + ([] if ctx.quick else ["fixed_point"]),
                     "graphs": int(merged_tw.extra["twin_graphs"]), "sessions": int(merged_tw.extra["twin_sessions"]), "loads": int(merged_tw.extra["twin_loads"]),
                     "loads_judged_for_class_identity": int(merged_tw.extra["twin_loads_judged_for_class_identity"]),
                     "loads_refused_because_of_a_class_nested_in_a_class": int(merged_tw.extra["twin_loads_refused_because_of_a_class_nested_in_a_class"])},
        cycles={"graphs": [n for n, _ in cyc], "cases": len(cyc_items), "refused_loudly": int(merged_c.extra["cycles_refused_loudly"]), "saved_and_loaded": int(merged_c.extra["cycles_saved_and_loaded"])},
        global_modes={"modes": S.GLOBAL_MODES, "save_mode_x_load_mode": [list(x) for x in mode_phases(ctx.quick)], "graphs": {k: S.show(v)[:200] for k, v in MODE_GRAPHS.items()},
                      "points": int(merged_m.extra["mode_points"]), "points_where_a_warning_became_an_error": int(merged_m.extra["mode_points_where_a_warning_became_an_error"])},
        layouts={"tensor": S.TENSOR_LAYOUTS, "tensor_dtypes": S.TENSOR_LAYOUT_DTYPES, "ndarray": S.ARRAY_LAYOUTS, "ndarray_dtypes": S.ARRAY_LAYOUT_DTYPES,
                 "positions": ["attribute", "list", "tuple", "dict", "nested_object"]},
        key_spellings={"key_sets": [[c, [k if len(k) <= 40 else k[:8] + f"...<{len(k)} chars>" for k in ks]] for c, ks in S.KEY_SETS], "value_kinds": S.KEY_VALUE_KINDS if not ctx.quick else ["path", "tensor", "tuple"]},
        alphabet={
            "leaves": len(S.LEAVES),
            "leaf_dispatch_classes": sorted({lf.cls for lf in S.LEAVES.values()}),
            "array_dtypes": list(S.ARR_DTYPES) + list(S.EXTRA_INT_DTYPES) + ["structured", "datetime64"],
            "array_shapes": [list(s) for s in S.ARR_SHAPES],
            "container_kinds": list(S.KINDS),
            "stores": list(STORES),
            "compression_levels": ["None"] + COMPRESSIONS[1:],
            "path_kinds": list(PATH_KINDS),
            "modes": list(MODES),
            "sequence_alphabet": S.SEQ_ALPHABET,
            "numeric_corner_alphabet": S.CORNER_ALPHABET_QUICK if ctx.quick else S.CORNER_ALPHABET,
            "name_alphabet": S.NAME_ALPHABET,
        },
        bounds=dict(bounds, config_core_graphs=len(core), config_points=len(cfg_items) * len(PATH_KINDS) * len(MODES), history_depth=hdepth),
        relations=["load_save_equals_input", "zip_equals_dir", "fixed_point", "config_independent", "history:load_equals_current_object", "history:earlier_target_unchanged"],
        histories={
            "depth": hdepth, "graphs": {k: S.show(v[0]) for k, v in HIST_GRAPHS.items()},
            "events": {k: [_show_hist([e]) for e in hist_events(k, ctx.quick) + HIST_SAVES + ([] if ctx.quick else [HIST_LOAD])] for k in HIST_GRAPHS},
            "modes": {"every_save": int(merged_h.extra["histories_every_save"]), "as_written": int(merged_h.extra["histories_as_written"])}, "loads": int(merged_h.extra["history_loads"]),
            "sequences_enumerated": len(hitems), "executed": int(merged_h.extra["histories"]), "not_enabled": int(merged_h.extra["histories_not_enabled"]),
            "with_mutation_between_two_saves": int(merged_h.extra["histories_with_mutation_between_two_saves"]), "saves": int(merged_h.extra["history_saves"]),
        },
        dispatch_classes_covered=sorted(covered),
        exhaustive=True,
    )
    if int(merged_f.extra["failed_save_histories"]) + int(merged_f.extra["failed_load_histories"]) != len(fitems) or int(merged_r.extra["reentrant_points"]) != len(ritems):
        raise Broken(f"failed-operation / re-entrant enumeration incomplete: {dict(merged_f.extra)}, {dict(merged_r.extra)}")
    if int(merged_f.extra["failed_save_histories_where_the_leaf_was_saved_after_all"]) == int(merged_f.extra["failed_save_histories"]):
        raise Broken("no unsaveable leaf made save raise: the failed-save histories are vacuous")
    if int(merged_ma.extra["memalias_graphs"]) != len(maitems) or int(merged_ma.extra["memalias_graphs_whose_two_values_share_memory"]) != len(maitems) or len(maitems) < 300:
        raise Broken(f"memory-aliasing enumeration degenerate: {dict(merged_ma.extra)} of {len(maitems)} graphs (every pair must share memory in the input)")
    if int(merged_tw.extra["twin_graphs"]) + int(merged_tw.extra["twin_sessions"]) != len(twitems) or int(merged_tw.extra["twin_loads_judged_for_class_identity"]) < len(twitems):
        raise Broken(f"same-named-classes enumeration degenerate: {dict(merged_tw.extra)} of {len(twitems)} items")
    if int(merged_c.extra["cycles"]) != len(cyc_items) or int(merged_m.extra["mode_points"]) != len(mode_items) * len(STORES):
        raise Broken(f"cycle / global-mode enumeration incomplete: {merged_c.extra['cycles']} of {len(cyc_items)}, {merged_m.extra['mode_points']} of {len(mode_items) * len(STORES)}")
    if not need <= covered:
        raise Broken(f"grammar does not cover dispatch classes {sorted(need - covered)}")
    if int(merged.extra["graphs"]) != len(items) or len(items) < 300:
        raise Broken(f"graph enumeration degenerate: {merged.extra['graphs']} of {len(items)} graphs evaluated")
    if len(merged.outcomes) < len(items) // 10:
        raise Broken(f"only {len(merged.outcomes)} distinct outcomes for {len(items)} graphs")
    if int(merged_h.extra["histories"]) + int(merged_h.extra["histories_not_enabled"]) != len(hitems) or int(merged_h.extra["histories_with_mutation_between_two_saves"]) < 50:
        raise Broken(f"history enumeration degenerate: {dict(merged_h.extra)} of {len(hitems)} sequences")
    if merged_cfg.nfails == 0 and int(merged_cfg.extra["config_points"]) != len(cfg_items) * len(PATH_KINDS) * len(MODES):
        raise Broken(f"configuration product incomplete: {merged_cfg.extra['config_points']} points")


def replay(ctx, case):
    seed = case.get("seed", ctx.seed)
    if case["kind"] in ("failed_save", "failed_load"):
        out = run_failed_save(case, seed, ctx.scratch) if case["kind"] == "failed_save" else run_failed_load(case, seed, ctx.scratch)
        for cls, msg in out[0]:
            ctx.fail(cls, case, msg)
        print(f"  {case}: steps observed {out[1]}")
        print(f"  expected: after the failed operation every good operation behaves as in a fresh process; observed: {len(out[0])} failure(s)")
        return
    if case["kind"] == "reentrant":
        fails, outcome = run_reentrant(case, seed, ctx.scratch)
        for cls, msg in fails:
            ctx.fail(cls, case, msg)
        print(f"  hook={case['hook']} outer store={case['store']} companion store={case['companion_store']} layout={case['layout']}: loaded {str(outcome)[:500]}")
        print(f"  expected: the outer load equals the in-memory graph with the companion attached; observed: {len(fails)} failure(s)")
        return
    if case["kind"] == "memalias":
        fails, outcome, rts, shares = run_memalias(case, seed, ctx.scratch)
        for cls, msg in fails:
            ctx.fail(cls, case, msg)
        print(f"  graph: {S.mem_show(case['base'], case['first'], case['second'], case['placement'])}  (seed {seed})")
        print(f"  input : {str(S.summary(S.mem_build(case['base'], case['first'], case['second'], case['placement'], seed)))[:400]}")
        for store in STORES:
            print(f"  store={store}: loaded = {str(outcome.get(store))[:400]}")
        print(f"  expected: each of the two memory-sharing values loads back equal to itself in both stores; observed: {len(fails)} failure(s) in {rts} round trip(s)")
        return
    if case["kind"] == "twin":
        fails, outcomes, rts, refused = run_twin(case, seed, ctx.scratch)
        for cls, msg in fails:
            ctx.fail(cls, case, msg)
        print(f"  same-named classes: {({k: v for k, v in case.items() if k not in ('kind', 'seed')})}  (seed {seed})")
        print(f"  members: {({m: S.twin_fullname(S.TWIN_CLASSES[m]) for m in (case['first'], case['second'])})}")
        for k in sorted(outcomes):
            o = outcomes[k]
            print(f"  {k}: classes of the loaded nodes = {o[0] if o and isinstance(o[0], list) else o}")
        print(f"  expected: every loaded node is an instance of the very same class (module included) with equal values; observed: {len(fails)} failure(s) in {rts} load(s), {refused} refused because of a class nested in a class")
        return
    if case["kind"] == "cycle":
        fails, outcome = run_cycle(case, seed, ctx.scratch)
        for cls, msg in fails:
            ctx.fail(cls, case, msg)
        print(f"  cyclic graph {S.show(case['graph'])} store={case['store']}: {str(outcome)[:400]}")
        print(f"  expected: refused loudly, or loaded equal to the input; observed: {len(fails)} failure(s)")
        return
    if case["kind"] == "mode":
        fails, outcomes, counted = run_mode(case, seed, ctx.scratch)
        for cls, msg in fails:
            ctx.fail(cls, case, msg)
        print(f"  graph {case['graph']}: {S.show(MODE_GRAPHS[case['graph']])[:300]}")
        print(f"  save under {case['save_mode']}, load under {case['load_mode']}: {str(outcomes)[:500]}")
        print(f"  expected: equal to the in-memory graph as in the default mode; observed: {len(fails)} failure(s), {counted} warning(s) that became errors")
        return
    if case["kind"] == "history":
        gname, hist = case["graph"], case["history"]
        print(f"  live object: {S.show(HIST_GRAPHS[gname][0])}  (seed {seed})")
        print(f"  history    : {_show_hist(hist)}")
        if not hist_enabled(gname, hist, seed):
            print("  history is not enabled on this tree's builders (nothing to replay)")
            return
        fails, outcome, nsaves, nloads = run_history(gname, hist, seed, ctx.scratch, case.get("mode", "as_written"))
        for cls, msg in fails:
            ctx.fail(cls, case, msg)
        print(f"  mode: {case.get('mode', 'as_written')}; loaded from the last target: {str(outcome)[:500]}")
        print(f"  expected: every load equals the snapshot taken at the save that wrote its target, earlier targets unchanged; observed: {len(fails)} failure(s) after {nsaves} save(s), {nloads} load(s)")
        return
    if case["kind"] == "graph":
        desc = case["graph"]
        print(f"  graph: {S.show(desc)}  (seed {seed})")
        print(f"  input : {str(S.summary(S.build(desc, seed)))[:400]}")
        fails, outcome, _, _ = run_graph(desc, seed, ctx.scratch)
        for cls, msg in fails:
            ctx.fail(dict(cls, **case.get("tag", {})), case, msg)
        for store in STORES:
            print(f"  store={store}: loaded = {str(outcome.get(store))[:400]}")
        print(f"  expected: the three relations hold in both stores; observed: {len(fails)} failure(s)")
    else:
        desc = case["graph"]
        print(f"  core graph {case['core']}: {S.show(desc)[:300]}  store={case['store']} compression={case['compression']} (seed {seed})")
        fails, points = run_config(case["core"], desc, case["store"], case["compression"], seed, ctx.scratch)
        for cls, msg, cfg in fails:
            ctx.fail(cls, case, msg)
        print(f"  {len(points)} configuration points executed; expected all equal to the input and to the default-configuration result; observed {len(fails)} failure(s)")
