import numpy as np, warnings, inspect
warnings.simplefilter("ignore")
import quantem.core.utils.imaging_utils as IU
import quantem.imaging.drift as DR
def dft_upsample_fixed(F, up, shift, device="cpu"):
    M,N=F.shape; du=np.ceil(1.5*up).astype(int); row=np.arange(-du,du+1); col=np.arange(-du,du+1)
    kr=np.fft.ifftshift(np.arange(M))-M//2; kc=np.fft.ifftshift(np.arange(N))-N//2
    return np.real(np.exp(2j*np.pi/(M*up)*np.outer(row+shift[0]*up,kr))@F@np.exp(2j*np.pi/(N*up)*np.outer(kc,col+shift[1]*up)))
for tag in ["orig","fixed"]:
    if tag=="fixed":
        IU.dft_upsample=dft_upsample_fixed
        code=inspect.getsource(IU.cross_correlation_shift).replace("(np.array(peak) - upsample_factor) / upsample_factor","(np.array(peak) - np.ceil(1.5 * upsample_factor)) / upsample_factor")
        ns={}; exec(code, IU.__dict__, ns); DR.cross_correlation_shift=ns["cross_correlation_shift"]
    rng=np.random.default_rng(0); worst=0
    for shape in [(8,8),(7,9),(10,6)]:
        for ang in [0,30,90,200]:
            for nimg in [2,3]:
                for up in [1,2,8]:
                    yy,xx=np.mgrid[:shape[0],:shape[1]]; im=np.exp(-((yy-shape[0]/2)**2+(xx-shape[1]/3)**2)/4)+0.1*rng.random(shape)
                    dc=DR.DriftCorrection.from_data([im.copy() for _ in range(nimg)],[ang]*nimg).preprocess(pad_fraction=0.5,number_knots=2,pad_value="mean")
                    k0=[k.copy() for k in dc.knots]
                    dc.align_translation(upsample_factor=up,show_merged=False)
                    worst=max(worst,max(np.abs(a-b).max() for a,b in zip(k0,dc.knots)))
    print(tag,"max knot motion for identical images",worst)
