"""C17 — reliability-sorted phase unwrapping recovers any smooth phase up to one constant per mask component.

Shapes H + L, level model_checking. Four parts, all executed on the real code:

A1  merge orders on the real union-find.  `UnionFindPhase` (internal seam, introspected) is driven on
    small pixel graphs: explicit-state BFS over its complete attribute state (parent, rank, offset) with
    dedup, EVERY order of applying the edge set.  Edges are laid out exactly like the library lays them
    out (same orientation, duplicates on 2-sample wrapped axes) and labelled by the library's own
    `_find_wrap` on the wrapped samples of a field that satisfies Itoh's condition.  Reference model = the
    true wrap counts kk (field = wrapped + 2*pi*kk): in every state, inside one union-find component,
    offset(i) - offset(j) == kk(i) - kk(j), `_final_offsets` == what `find_root_and_offset` reports, and in
    every quiescent state the components are exactly the connected regions of the mask graph.
    Reduction (with its argument checked at run time): an edge whose end points already share a root makes
    `union` return before it touches any field, so it is a self-loop and is not expanded.  Before the
    reduction is used, the 2x3 graph is explored WITHOUT it and every such edge is confirmed a self-loop.
A2  merge orders through the public function.  `torch.Tensor.argsort` (a seam that does not belong to
    quantem) is patched to return a prescribed permutation while `unwrap_phase_2d_torch` runs, so every one
    of the E! edge orders of a small grid goes through the real sort/union loop/final assembly; judged by
    the end-to-end oracle.  This is also the fallback when the A1 seam is missing.
B   end to end, public API only: `unwrap_phase_2d_torch(method="reliability-sorting")` on a lattice of
    grid shapes x masks x wrap_around x smooth fields x {wrapped, already unwrapped} input x dtype, plus
    EVERY non-empty mask of a 3x4 grid (thorough: 4x3 and 4x4 as well).
    Oracle: result - truth is constant on each connected mask component (scipy.ndimage.label,
    4-connectivity, periodic when wrap_around), result - input is in 2*pi*Z + one constant per component,
    already-unwrapped input comes back unchanged up to that constant.  For arbitrary (non-smooth) input only
    the 2*pi*Z relation is demanded ("always" in the property).  Masked-out pixels of the output hold
    input - global mean; they are never compared.
    `unwrap_bf_overlap_phase_torch` (the masked embedding used by direct ptychography) gets the same oracle.
L   long steep fields (magnitude thresholds).  A small-scope enumeration cannot see a threshold on a magnitude unless the
    alphabet straddles it: 1xN, 3xN, Nx2 grids with N in {280, 300, 560, 600}, ramps at 0.9*pi per sample along the long
    axis (plain, and negative-diagonal), a periodic triangle wave for wrap_around=True, full mask / hole / one-pixel bridge /
    gap in the middle of the long axis, both dtypes: the true wrap count inside one region runs to 125 | 134 | 251 | 269,
    i.e. just below and just above what fits a signed / unsigned 8-bit integer.  Same oracle, tolerance scaled with the
    field range where the library's float32 bookkeeping forces it.
A3  long chains on the real union-find, constructed with the extra arguments the unwrapper is observed to pass (e.g. a
    dtype): 1x300 and 1x600 paths, ramp +-0.9*pi per sample, edges merged left-to-right, right-to-left, middle-out and
    interleaved, offset invariant checked every few unions; thorough: a 1x73,000 chain (wrap count 32,850 > int16).
H   call histories: every ordered pair (thorough: triple) of calls from a 9-call alphabet on one shape and a control shape
    (bounded ramp with winding, periodic field on a corner-centred disc that is connected only through the seam, bounded
    masked, periodic full, float32 with holes, Poisson), imaging_utils re-imported before each history; the LAST call is
    judged by the usual oracle (a result must not depend on earlier calls) and every input must stay bitwise unchanged.
Y   input spellings: the same wrapped values handed over in every memory layout / dtype / container the entry point may
    meet (transposed and permuted views, as_strided Fortran order, row-padded and every-other-element views, stride-0
    expanded rows, flipped copies, float64 / float16, requires_grad and non-leaf tensors, NumPy arrays; masks as bool /
    uint8 / int64 / float tensors, transposed and strided views, NumPy) on non-square bounded and periodic grids with and
    without mask, on fields that contain wraps.  Judged by the usual oracle AND differentially against the contiguous
    float32 / bool call; inputs (and the memory around views) must stay bitwise unchanged.  Torch tensors of float32 /
    float64 in any layout must be accepted; a rejection of any other spelling is counted per spelling, not flagged.
T   two threads, preemption bound 1, owned scheduler: thread A makes one call under a per-thread sys.settrace hook that sees
    only imaging_utils.py frames and parks (threading.Event) at its k-th line event; thread B then makes one complete call;
    A resumes.  k runs over every distinct code location A passes (visits 1, 2, 10, 100, last; denser in thorough), plus the
    two schedules without preemption, for ordered field pairs of the same shape / same pixel count / other pixel count,
    bounded and periodic, with and without mask.  Each thread's result must satisfy the oracle for ITS OWN field and equal
    its single-threaded result; the trace up to the parking point must be the recorded one and replayed schedules must be
    identical (else Broken).  Histories of 4 (thorough 5) calls over {2 shapes} x {bounded, periodic} extend part H.
P   the FFT Poisson method is outside the exactness claim: only "does not raise" (wrap_around=True; it is
    NotImplemented by design for wrap_around=False, which is recorded, not judged).
"""
from __future__ import annotations

import copy
import functools
import os
import itertools
import math

import numpy as np
import torch
from scipy import ndimage

from mc.harness import Broken, Tally, digest

LEVEL = "model_checking"
TECHNIQUE = (
    "explicit-state BFS over every merge order of the real union-find (full-attribute state dedup, true wrap counts as "
    "reference model), every edge order forced through the public unwrapper via a patched argsort, a complete "
    "mask/shape/field lattice through the public function with a connected-component oracle, long steep fields straddling "
    "the 8-bit wrap-count boundaries, and every ordered pair/triple of calls from a call alphabet on a freshly re-imported module"
)
CLAIM = (
    "For every listed small pixel graph (quick: 2x2, 2x3, 3x2, 2x4 bounded and 1x4 periodic with every mask; thorough adds 3x3 and "
    "4x2 bounded, 2x4, 4x2, 4x1 periodic and 3x4 periodic under masks that leave at most 9 pixels) "
    "and every smooth field of the alphabet, EVERY order of merging the edge set was executed on the real UnionFindPhase: in "
    "every reachable (parent, rank, offset) state the offsets inside a component differ by the true wrap counts, the final "
    "offsets agree with find_root_and_offset, and every quiescent state has exactly one component per connected mask region. "
    "Every one of the E! edge orders of small grids was also forced through the public unwrap_phase_2d_torch. End to end, for "
    "every point of the printed lattice (shapes {3..8}^2, structured masks, every non-empty mask of a 3x4 grid, bounded and "
    "periodic, wrapped and already-unwrapped input, two dtypes) the result equals the generating field up to one constant per "
    "connected mask component and differs from the input by multiples of 2*pi plus that constant. The same holds on long steep "
    "grids (1xN, 3xN, Nx2, N up to 600) whose wrap count inside one region straddles 127/128 and 255/256, on long chains of the real "
    "union-find merged in four structured orders, and for the last call of every ordered pair (thorough: triple) of calls from a "
    "9-call alphabet after a fresh re-import of the module, with all inputs bitwise unchanged. Every memory layout / dtype / "
    "autograd state / mask dtype spelling of the input that the entry point accepts gives the same answer as the contiguous "
    "float32 call on non-square bounded and periodic grids. With two threads making one call each and at most one preemption, "
    "placed at every code location of the library that the first thread passes, both results equal their single-threaded results. "
    "Model checking is the right "
    "level because the guarantee rests on offset bookkeeping that must hold for every merge order, which no single input reaches."
)
NOTE = (
    "Trusted: the oracle in checks/C17.py (true wrap counts, scipy.ndimage.label plus a periodic join), the field alphabet (all "
    "fields rescaled to a maximum neighbour step of 0.9*pi, so the verdict is for Itoh margin 0.1*pi), the bound on graph size, and "
    "the no-op-edge reduction (validated exhaustively on the 2x3 graph at every run). Universality over continuous fields is not "
    "claimed: the union-find only sees the integer edge labels, which the BFS covers for the label patterns of the alphabet. "
    "Magnitude thresholds are visible only where the alphabet straddles them: wrap counts up to 269 end to end, 32,850 on the "
    "union-find alone (thorough); hidden state between calls is searched for in imaging_utils only, for histories of 2-3 calls. The "
    "Poisson method is only run for 'does not raise'. UnionFindPhase is an internal name: if it disappears the check falls back "
    "to the forced-order and end-to-end parts and says so in the evidence."
)
RULE = (
    "A1: BFS with dedup on the complete attribute state of the real union-find over all orders of the edge set of each "
    "(grid, mask, wrap, field) configuration; a state is non-trivial when at least one effective union was applied and the "
    "configuration has a non-zero edge label. A2: all permutations of the edge list, forced through the public function. "
    "B: full Cartesian lattice shape x mask x wrap_around x field x input kind x dtype and every non-empty mask of the small "
    "grids; a point is non-trivial when the input differs from the truth by a non-constant multiple of 2*pi on some "
    "component (wrapped input) or the truth spans more than 2*pi on a component (already-unwrapped input). L: full product of "
    "long shapes x masks x fields x dtype; non-trivial when the true wrap count spans more than 127 inside one region. A3: every "
    "(chain length, merge order, slope sign). H: every ordered pair (thorough: triple) of the call alphabet; non-trivial when an "
    "earlier call differs from the judged last call. Y: full product of (grid, wrap, field, mask geometry) x input spellings; "
    "non-trivial when the field really wraps on the mask and the spelling is not the canonical one. T: ordered field pairs x "
    "(every distinct library code location of thread A x visit numbers {1, 2, 10, 100, last}) + the two sequential schedules; "
    "non-trivial when the preemption lies inside the library and thread A's field wraps."
)

TWO_PI = 2.0 * math.pi
ITOH = 0.9 * math.pi  # every smooth field is rescaled to this maximum neighbour step

# Tolerance on "constant on a component" / "integer multiple of 2*pi" (radians).
# Worst deviation observed on the unchanged tree over seeds {0,1,2,7,12345}, both tiers (3.5 million calls,
# histogram by decade printed by every run and kept in the evidence as count_*_dev_*): always below 1e-5 rad
# (worst decade 1e-6: float32 input, values up to ~40 rad; for float64 input the residue is 1.7e-7 rad per
# wrap because the library multiplies the integer offsets by a float32 2*pi).  TOL is 200x that.
# Smallest effect of a wrong wrap (every mutant): 2*pi = 6.28 rad, so TOL is 1/3000 of it (required <= 1/20).
TOL = 2e-3


# ============================================================================= seams
def _iu():
    import quantem.core.utils.imaging_utils as iu

    return iu


def public_unwrap():
    return _iu().unwrap_phase_2d_torch


def state_key(uf):
    """Complete attribute state of the union-find object (fine canonicalisation: nothing is dropped)."""
    out = []
    d = vars(uf)
    for name in sorted(d):
        v = d[name]
        out.append((name, tuple(v.flatten().tolist())) if torch.is_tensor(v) else (name, repr(v)))
    return tuple(out)


def clone_uf(uf):
    u = object.__new__(type(uf))
    for name, v in vars(uf).items():
        setattr(u, name, v.clone() if torch.is_tensor(v) else copy.deepcopy(v))
    return u


class Seam:
    def __init__(self):
        iu = _iu()
        self.missing = []
        self.cls = getattr(iu, "UnionFindPhase", None)
        ok = False
        if self.cls is not None:
            try:
                u = self.cls(3)
                k0 = state_key(u)
                u2 = clone_uf(u)
                u2.union(0, 1, 1)
                r0, _ = u2.find_root_and_offset(0)
                r1, _ = u2.find_root_and_offset(1)
                r2, _ = u2.find_root_and_offset(2)
                # structural smoke test only (never the offsets: those are the behaviour under test)
                ok = int(r0) == int(r1) and int(r2) == 2 and state_key(u) == k0 and state_key(u2) != k0
            except Exception:
                ok = False
        if not ok:
            self.cls = None
            self.missing.append("UnionFindPhase")
        # how does the real pipeline construct its union-find? (extra positional / keyword arguments, e.g. a dtype)
        self.ctor_extra = ((), {})
        if self.cls is not None:
            seen = []
            orig_init = self.cls.__init__

            def spy(obj, *a, **k):
                seen.append((a, k))
                return orig_init(obj, *a, **k)

            try:
                self.cls.__init__ = spy
                yy, xx = np.mgrid[:2, :3].astype(float)
                public_unwrap()(torch.tensor(wrap_pi(2.4 * xx + 1.7 * yy)), method="reliability-sorting", wrap_around=False)
            except Exception:
                pass
            finally:
                self.cls.__init__ = orig_init
            if len(seen) == 1 and len(seen[0][0]) >= 1 and seen[0][0][0] == 6:
                self.ctor_extra = (tuple(seen[0][0][1:]), dict(seen[0][1]))
                try:
                    self.make(3)
                except Exception:
                    self.ctor_extra = ((), {})
        self.final = getattr(iu, "_final_offsets", None)
        if self.cls is not None and self.final is not None:
            try:
                r = self.final(self.cls(2))
                if not (torch.is_tensor(r) and r.numel() == 2):
                    self.final = None
            except Exception:
                self.final = None
        if self.final is None and self.cls is not None:
            self.missing.append("_final_offsets")
        self.find_wrap = getattr(iu, "_find_wrap", None)
        if self.find_wrap is not None:
            try:
                int(self.find_wrap(torch.tensor(0.5, dtype=torch.float64), torch.tensor(0.25, dtype=torch.float64)))
            except Exception:
                self.find_wrap = None
        if self.find_wrap is None and self.cls is not None:
            self.missing.append("_find_wrap")
        self.build_edges = getattr(iu, "_build_edges", None)
        try:
            import quantem.diffractive_imaging.direct_ptycho_utils as dpu

            self.bf = getattr(dpu, "unwrap_bf_overlap_phase_torch", None)
        except Exception:
            self.bf = None


    def make(self, n):
        """A fresh union-find over n pixels, built with the same extra arguments the unwrapper passes."""
        a, k = self.ctor_extra
        return self.cls(n, *a, **k)


_SEAM = None


def seam():
    global _SEAM
    if _SEAM is None:
        _SEAM = Seam()
    return _SEAM


# ============================================================================= grids, masks, components
def bits_to_mask(bits, H, W):
    return np.array([(bits >> i) & 1 for i in range(H * W)], dtype=bool).reshape(H, W)


def mirror_edges(H, W, wrap, mask):
    """The edge list in the order and orientation the library builds it: all (pixel -> right neighbour)
    pairs, then all (pixel -> lower neighbour) pairs; with wrap the neighbour is taken modulo the size
    (so a 2-sample axis yields both orientations and a 1-sample axis yields self-edges)."""
    idx = np.arange(H * W).reshape(H, W)
    if wrap:
        pairs = list(zip(idx.ravel(), np.roll(idx, -1, 1).ravel())) + list(zip(idx.ravel(), np.roll(idx, -1, 0).ravel()))
    else:
        pairs = list(zip(idx[:, :-1].ravel(), idx[:, 1:].ravel())) + list(zip(idx[:-1, :].ravel(), idx[1:, :].ravel()))
    m = np.ones(H * W, bool) if mask is None else mask.ravel()
    return [(int(a), int(b)) for a, b in pairs if m[a] and m[b]]


def components(mask, wrap):
    """Label image (0 = outside the mask) of the 4-connected regions; periodic joins when wrap."""
    H, W = mask.shape
    lab, n = ndimage.label(mask)
    if wrap and n > 1:
        par = list(range(n + 1))

        def find(a):
            while par[a] != a:
                par[a] = par[par[a]]
                a = par[a]
            return a

        for r in range(H):
            if mask[r, 0] and mask[r, W - 1]:
                par[find(lab[r, 0])] = find(lab[r, W - 1])
        for c in range(W):
            if mask[0, c] and mask[H - 1, c]:
                par[find(lab[0, c])] = find(lab[H - 1, c])
        roots = sorted({find(a) for a in range(1, n + 1)})
        remap = {r: i + 1 for i, r in enumerate(roots)}
        lab = np.vectorize(lambda a: 0 if a == 0 else remap[find(a)])(lab).astype(int)
        n = len(roots)
    return lab, n


def components_by_flood(H, W, wrap, mask):
    """Independent of scipy: flood fill over mirror_edges. Returns list of sorted pixel lists."""
    E = mirror_edges(H, W, wrap, mask)
    adj = {i: set() for i in range(H * W) if mask.ravel()[i]}
    for a, b in E:
        adj[a].add(b)
        adj[b].add(a)
    seen, comps = set(), []
    for s in sorted(adj):
        if s in seen:
            continue
        stack, comp = [s], []
        seen.add(s)
        while stack:
            x = stack.pop()
            comp.append(x)
            for y in sorted(adj[x]):
                if y not in seen:
                    seen.add(y)
                    stack.append(y)
        comps.append(sorted(comp))
    return comps


def structured_masks(H, W):
    """Names of the structured mask alphabet applicable to an H x W grid (H, W >= 3)."""
    names = ["none", "full", "hole1", "frame", "split_col", "split_row", "bridge_col", "bridge_row_edge", "diag_blocks",
             "snake", "checker", "corners_off", "single", "rand0", "rand1"]
    if H >= 5 and W >= 5:
        names.append("holes2")
    return names


def named_mask(name, H, W, seed):
    """None for 'none', else a bool array (never empty)."""
    if name == "none":
        return None
    full = np.ones((H, W), bool)
    m = full.copy()
    if name == "full":
        pass
    elif name == "hole1":
        m[H // 2, W // 2] = False
    elif name == "frame":
        m[1:-1, 1:-1] = False
    elif name == "split_col":
        m[:, W // 2] = False
    elif name == "split_row":
        m[H // 2, :] = False
    elif name == "bridge_col":
        m[:, W // 2] = False
        m[H // 2, W // 2] = True
    elif name == "bridge_row_edge":
        m[H // 2, :] = False
        m[H // 2, 0] = True
    elif name == "diag_blocks":
        m[:] = False
        m[: H // 2, : W // 2] = True
        m[H // 2 :, W // 2 :] = True
    elif name == "snake":
        m[:] = False
        for r in range(H):
            if r % 2 == 0:
                m[r, :] = True
            else:
                m[r, W - 1 if (r // 2) % 2 == 0 else 0] = True
    elif name == "checker":
        yy, xx = np.mgrid[:H, :W]
        m = (yy + xx) % 2 == 0
    elif name == "corners_off":
        m[0, 0] = m[0, -1] = m[-1, 0] = m[-1, -1] = False
    elif name == "single":
        m[:] = False
        m[H // 2, W // 3] = True
    elif name == "holes2":
        m[1, 1] = False
        m[H - 2, W - 2] = False
        m[H - 2, W - 3] = False
    elif name in ("rand0", "rand1"):
        rng = np.random.default_rng([seed, 17, 900 + int(name[-1]), H, W])
        m = rng.random((H, W)) < 0.65
        if not m.any():
            m[0, 0] = True
    else:
        raise ValueError(name)
    return m


def resolve_mask(md, H, W, seed):
    kind, val = md
    if kind == "bits":
        return bits_to_mask(int(val), H, W)
    return named_mask(val, H, W, seed)


# ============================================================================= fields
BOUNDED_FIELDS = ["ramp_a", "ramp_b", "ramp_c", "quad_bowl", "quad_saddle", "bump", "bump_neg", "bl0", "bl1"]
PERIODIC_FIELDS = ["per_sin", "per_bump", "per_bl0", "per_bl1"]
ROUGH = "rough"  # arbitrary input: only the 2*pi*Z relation applies
QUICK_DROPPED_FIELDS = ("ramp_c", "bump_neg", "bl1", "per_bl1")  # thorough tier only (structured lattice)


def max_step(f, periodic):
    H, W = f.shape
    d = [0.0]
    if periodic:
        if W > 1:
            d.append(np.abs(np.roll(f, -1, 1) - f).max())
        if H > 1:
            d.append(np.abs(np.roll(f, -1, 0) - f).max())
    else:
        if W > 1:
            d.append(np.abs(np.diff(f, axis=1)).max())
        if H > 1:
            d.append(np.abs(np.diff(f, axis=0)).max())
    return float(max(d))


def _band_limited(H, W, rng):
    ky = np.fft.fftfreq(H)[:, None]
    kx = np.fft.fftfreq(W)[None, :]
    keep = (np.abs(ky) <= max(0.3, 1.0 / H + 1e-9)) & (np.abs(kx) <= max(0.3, 1.0 / W + 1e-9))
    F = np.zeros((H, W), complex)
    F[keep] = rng.normal(size=int(keep.sum())) + 1j * rng.normal(size=int(keep.sum()))
    return np.fft.ifft2(F).real


@functools.lru_cache(maxsize=4096)
def make_field(name, H, W, periodic, seed):
    """Truth field (float64). Smooth members are rescaled so that the maximum neighbour step (periodic
    neighbours included iff `periodic`) is exactly 0.9*pi; a constant 0.37 avoids symmetric values."""
    yy, xx = np.mgrid[:H, :W].astype(float)
    y0, x0 = (H - 1) / 2 + 0.3, (W - 1) / 2 - 0.2
    if name == ROUGH:
        rng = np.random.default_rng([seed, 17, 700, H, W, int(periodic)])
        return rng.uniform(-12.0, 12.0, (H, W))
    if name == "ramp_a":
        f = 1.0 * xx + 0.7 * yy
    elif name == "ramp_b":
        f = -1.0 * xx + 0.2 * yy
    elif name == "ramp_c":
        f = 0.1 * xx - 1.0 * yy
    elif name == "quad_bowl":
        f = (xx - x0) ** 2 + (yy - y0) ** 2
    elif name == "quad_saddle":
        f = (xx - x0) ** 2 - (yy - y0) ** 2 + 0.5 * (xx - x0) * (yy - y0)
    elif name in ("bump", "bump_neg"):
        s = max(H, W) / 4.0
        f = np.exp(-((xx - x0) ** 2 + (yy - y0) ** 2) / (2 * s * s))
        if name == "bump_neg":
            f = -f
    elif name in ("bl0", "bl1", "per_bl0", "per_bl1"):
        rng = np.random.default_rng([seed, 17, 710 + int(name[-1]), H, W, int(periodic)])
        f = _band_limited(H, W, rng)
    elif name == "ramp_x":  # constant along y: can be handed over as one row expanded with stride 0
        f = 1.0 * xx
    elif name == "per_x":
        f = np.sin(2 * np.pi * xx / W + 0.4)
    elif name == "per_sin":
        f = 1.0 * np.sin(2 * np.pi * xx / W + 0.4) + 0.8 * np.cos(2 * np.pi * yy / H + 0.9)
    elif name == "per_bump":
        f = np.exp(1.5 * (np.cos(2 * np.pi * (xx - x0) / W) + np.cos(2 * np.pi * (yy - y0) / H) - 2.0))
    else:
        raise ValueError(name)
    ms = max_step(f, periodic)
    if ms > 0:
        f = f * (ITOH / ms)
    f = f + 0.37
    if max_step(f, periodic) > 0.9001 * math.pi:
        raise Broken(f"field {name} {H}x{W} violates its own Itoh margin")
    f.setflags(write=False)
    return f


def wrap_pi(x):
    return (x + np.pi) % (2 * np.pi) - np.pi


def wrap_counts(f):
    w = wrap_pi(f)
    return w, np.rint((f - w) / TWO_PI).astype(int)


# ============================================================================= end-to-end oracle
def decade(x):
    if x <= 0:
        return "0"
    return f"1e{int(math.floor(math.log10(x)))}"


def judge(out, truth, given, lab, ncomp, smooth, kind, TOL=TOL):
    """Returns (list of (relation, message), nontrivial, outcome, worst deviation)."""
    bad = []
    worst = 0.0
    nontrivial = False
    pattern = []
    for c in range(1, ncomp + 1):
        sel = lab == c
        dk = (out - given)[sel]
        k = (dk - dk[0]) / TWO_PI
        frac = float(np.abs(k - np.rint(k)).max()) * TWO_PI
        worst = max(worst, frac)
        pattern.append(tuple(int(v) for v in np.rint(k)))
        coords = [tuple(int(v) for v in rc) for rc in np.argwhere(sel)]
        if not np.isfinite(dk).all() or frac > TOL:
            off = [(coords[i], round(float(k[i]), 4)) for i in np.flatnonzero(~(np.abs(k - np.rint(k)) * TWO_PI <= TOL))[:6]]
            bad.append(("result_minus_input_in_2piZ_plus_constant", f"component {c} ({len(coords)} px): result - input is off the 2*pi lattice by {frac:.3g} rad (tol {TOL:.3g}); (result-input)/(2*pi) relative to pixel {coords[0]} at (row, col): {off}"))
        if smooth:
            dt = (out - truth)[sel]
            p = float(np.ptp(dt)) if np.isfinite(dt).all() else float("inf")
            worst = max(worst, p) if np.isfinite(p) else worst
            if p > TOL:
                rel = "unwrapped_input_unchanged_up_to_constant" if kind == "unwrapped" else "result_minus_truth_constant_per_component"
                e = (dt - dt[0]) / TWO_PI
                off = [(coords[i], round(float(e[i]), 3)) for i in np.flatnonzero(~(np.abs(dt - dt[0]) <= TOL))[:6]]
                bad.append((rel, f"component {c} ({len(coords)} px): result - truth is not constant, it spans {p:.4g} rad (tol {TOL:.3g}); (result-truth)/(2*pi) relative to pixel {coords[0]} at (row, col): {off}{' ...' if len(off) == 6 else ''}"))
            need = (truth - given)[sel]
            if kind == "wrapped" and np.ptp(need) > 1.0:
                nontrivial = True
            if kind == "unwrapped" and np.ptp(truth[sel]) > TWO_PI:
                nontrivial = True
        else:
            g = given[sel]
            if len(set(pattern[-1])) > 1 or np.ptp(g) > math.pi:
                nontrivial = True
    return bad, nontrivial, tuple(pattern), worst


def torch_dtype(name):
    return torch.float32 if name == "f32" else torch.float64


def run_point(H, W, md, wrap, field, kind, dtype, seed):
    """One end-to-end call of the public function. Returns dict(bad, nontrivial, outcome, worst)."""
    mask = resolve_mask(md, H, W, seed)
    smooth = field != ROUGH
    truth = make_field(field, H, W, bool(wrap), seed)
    given64 = truth if kind == "unwrapped" else wrap_pi(truth)
    x = torch.tensor(np.array(given64), dtype=torch_dtype(dtype))
    given = x.to(torch.float64).numpy().copy()
    # what the function really received decides the truth it can be asked to return (float32 rounding of the input)
    truth_eff = truth + (given - given64)
    mt = None if mask is None else torch.tensor(mask)
    x0 = x.clone()
    try:
        out_t = public_unwrap()(x, method="reliability-sorting", mask=mt, wrap_around=bool(wrap))
        out = out_t.detach().to(torch.float64).numpy()
        if x.numpy().tobytes() != x0.numpy().tobytes() or (mt is not None and not np.array_equal(mt.numpy(), mask)):
            return dict(bad=[("input_unmodified", "the call changed its input tensor or mask in place")], nontrivial=True, outcome="input_modified", worst=0.0)
        if out.shape != (H, W):
            return dict(bad=[("result_shape", f"result has shape {out.shape}, input {(H, W)}")], nontrivial=True, outcome="shape", worst=0.0)
    except Exception as e:  # the behaviour under test: must not raise on admissible input
        return dict(bad=[("raised", f"unwrap_phase_2d_torch raised {type(e).__name__}: {e}")], nontrivial=True, outcome="raised", worst=0.0)
    m = np.ones((H, W), bool) if mask is None else mask
    lab, n = components(m, bool(wrap))
    bad, nontrivial, pattern, worst = judge(out, truth_eff, given, lab, n, smooth, kind)
    # observational only: is the additive constant even global?
    glob = bool(np.abs(((out - given)[m] - (out - given)[m][0]) / TWO_PI - np.rint(((out - given)[m] - (out - given)[m][0]) / TWO_PI)).max() * TWO_PI <= TOL)
    return dict(bad=bad, nontrivial=nontrivial, outcome=(n, pattern), worst=worst, global_constant=glob)


def b_point(pt, seed=0):
    H, W, md, wrap, field, kind, dtype = pt
    t = Tally()
    r = run_point(H, W, md, wrap, field, kind, dtype, seed)
    t.case(key=("B",) + tuple(pt), nontrivial=r["nontrivial"], outcome=r["outcome"])
    t.extra["B_calls"] += 1
    t.extra["B_dev_" + decade(r["worst"])] += 1
    if r.get("global_constant"):
        t.extra["B_additive_constant_is_global"] += 1
    case = {"part": "B", "H": H, "W": W, "mask": list(md), "wrap": bool(wrap), "field": field, "kind": kind, "dtype": dtype, "seed": seed}
    for rel, msg in r["bad"]:
        t.fail({"part": "B_end_to_end", "relation": rel, "wrap_around": bool(wrap)}, case, f"{H}x{W} mask={md[1]} wrap_around={bool(wrap)} field={field} input={kind} {dtype}: {msg}")
    if r["nontrivial"] and md[0] == "name" and md[1] in ("bridge_col", "frame") and field in ("bump", "per_sin") and (H, W) == (5, 7) and dtype == "f32" and kind == "wrapped":
        t.sample({"part": "B", "shape": [H, W], "mask": md[1], "wrap_around": bool(wrap), "field": field, "input": kind, "dtype": dtype,
                  "components": r["outcome"][0], "worst_deviation_rad": r["worst"]}, cap=1)
    return t


def check_component_oracle(mask, wrap, what):
    """The two component oracles (scipy.ndimage.label + periodic join, flood fill over the edge list) must agree."""
    H, W = mask.shape
    lab, n = components(mask, bool(wrap))
    a = sorted(sorted(np.flatnonzero(lab.ravel() == c).tolist()) for c in range(1, n + 1))
    if a != sorted(components_by_flood(H, W, bool(wrap), mask)):
        raise Broken(f"the two component oracles disagree on {what}")


def allmask_points(chunk, H=3, W=4, combos=(), seed=0):
    """Every mask in range(chunk[0], chunk[1]) for every (wrap, field, kind, dtype) combo."""
    t = Tally()
    for bits in range(chunk[0], chunk[1]):
        for wrap in sorted({c[0] for c in combos}):
            check_component_oracle(bits_to_mask(bits, H, W), wrap, f"{H}x{W} mask_bits={bits} wrap={wrap}")
        for wrap, field, kind, dtype in combos:
            t.merge(b_point((H, W, ("bits", bits), wrap, field, kind, dtype), seed=seed))
    return t


# ============================================================================= A1: BFS over merge orders
def a1_setup(cfg, seed):
    H, W, wrap, bits, fname = cfg
    S = seam()
    mask = bits_to_mask(bits, H, W)
    f = make_field(fname, H, W, bool(wrap), seed)
    w, kk = wrap_counts(f)
    kk = kk.ravel().tolist()
    phi = torch.tensor(w.ravel(), dtype=torch.float64)
    E = mirror_edges(H, W, wrap, mask)
    events, label_bad = [], []
    for a, b in E:
        if a == b:
            continue  # self-edge of a 1-sample wrapped axis: same root by construction
        true_inc = kk[a] - kk[b]
        inc = true_inc
        if S.find_wrap is not None:
            inc = int(S.find_wrap(phi[a], phi[b]))
            if inc != true_inc:
                label_bad.append((a, b, inc, true_inc))
        ev = (a, b, inc)
        if ev not in events:
            events.append(ev)
    return dict(H=H, W=W, wrap=wrap, mask=mask, f=f, w=w, kk=kk, phi=phi, E=E, events=events, label_bad=label_bad)


def inspect_state(uf, N, kk, final):
    """Roots and offsets through the real find (on a clone, so inspection can never alter the explored
    state), cross-checked with the real _final_offsets. Returns (roots, list of (relation, msg))."""
    u = clone_uf(uf)
    roots, tots = [], []
    for i in range(N):
        r, tot = u.find_root_and_offset(i)
        roots.append(int(r))
        tots.append(float(tot))
    bad = []
    if final is not None:
        incs = [float(v) for v in final(clone_uf(uf)).flatten().tolist()]
        if incs != tots:
            bad.append(("final_offsets_equal_find_offsets", f"_final_offsets = {incs} but find_root_and_offset reports {tots}"))
    base = {}
    for i in range(N):
        d = tots[i] - kk[i]
        j = base.setdefault(roots[i], i)
        if d != tots[j] - kk[j]:
            bad.append(("offset_difference_equals_wrap_difference",
                        f"pixels {j} and {i} share root {roots[i]}: offset difference {tots[i] - tots[j]:g}, true wrap-count difference {kk[i] - kk[j]}"))
            break
    return roots, bad


def a1_case(cfg, seed, hist, events):
    H, W, wrap, bits, fname = cfg
    return {"part": "A1", "H": H, "W": W, "wrap": bool(wrap), "mask_bits": bits, "field": fname, "seed": seed,
            "history": [list(events[i]) for i in hist]}


def a1_explore(cfg, seed=0, reduce_noops=True, want_keys=False):
    """BFS over every order of the edge set on the real class. Returns Tally (+ .a1 dict of counts)."""
    S = seam()
    t = Tally()
    H, W, wrap, bits, fname = cfg
    su = a1_setup(cfg, seed)
    N = H * W
    kk, events = su["kk"], su["events"]
    where = f"{H}x{W}{' periodic' if wrap else ''} mask_bits={bits} field={fname}"
    cls_base = {"part": "A1_merge_orders", "wrap_around": bool(wrap)}
    for a, b, inc, true_inc in su["label_bad"][:3]:
        t.fail(dict(cls_base, relation="edge_label_equals_true_wrap_difference"), a1_case(cfg, seed, (), events),
               f"{where}: _find_wrap labels edge ({a},{b}) with {inc}, true wrap-count difference is {true_inc} (wrapped values {su['w'].ravel()[a]:.4f}, {su['w'].ravel()[b]:.4f})")
    if S.build_edges is not None:
        try:
            i1, i2, inc = S.build_edges(torch.tensor(su["w"]), torch.zeros(H, W, dtype=torch.float64), torch.tensor(su["mask"]), wrap_around=bool(wrap))
            real = {(min(a, b), max(a, b), c if a < b else -c) for a, b, c in zip(i1.tolist(), i2.tolist(), inc.tolist()) if a != b}
        except Exception:
            real = None
            t.extra["A1_build_edges_seam_unusable"] += 1
        if real is not None:
            mine = {(min(a, b), max(a, b), c if a < b else -c) for a, b, c in events}
            if real != mine:
                t.fail(dict(cls_base, relation="edge_set_equals_mask_grid_graph"), a1_case(cfg, seed, (), events),
                       f"{where}: _build_edges yields {sorted(real)}, the mask graph has {sorted(mine)} (a<b, label oriented a->b)")
    comps = components_by_flood(H, W, wrap, su["mask"])
    lab, n = components(su["mask"], bool(wrap))
    if sorted(comps) != sorted(sorted(np.flatnonzero(lab.ravel() == c).tolist()) for c in range(1, n + 1)):
        raise Broken(f"the two component oracles disagree on {where}")
    comp_of = {}
    for ci, comp in enumerate(comps):
        for p in comp:
            comp_of[p] = ci

    start = S.make(N)
    seen = {state_key(start)}
    roots0, bad0 = inspect_state(start, N, kk, S.final)
    for rel, msg in bad0:
        t.fail(dict(cls_base, relation=rel), a1_case(cfg, seed, (), events), f"{where}: initial state: {msg}")
    frontier = [(start, (), roots0)]
    trans = selfloops = quiescent = depth = 0
    qkeys = set()
    while frontier:
        nxt = []
        for uf, hist, roots in frontier:
            enabled = [i for i, (a, b, _) in enumerate(events) if roots[a] != roots[b]]
            if not reduce_noops:
                # validation mode: execute the same-root edges too and demand that they are self-loops
                k_here = state_key(uf)
                for i, (a, b, inc) in enumerate(events):
                    if roots[a] == roots[b]:
                        u = clone_uf(uf)
                        u.union(a, b, inc)
                        trans += 1
                        selfloops += 1
                        if state_key(u) != k_here:
                            t.extra["A1_noop_edge_changed_state"] += 1
            if not enabled:
                quiescent += 1
                qkeys.add(digest(repr(state_key(uf)).encode()))
                part = {}
                for p in comp_of:
                    part.setdefault(roots[p], []).append(p)
                if sorted(sorted(v) for v in part.values()) != sorted(comps) or any(roots[p] != p for p in range(N) if p not in comp_of):
                    t.fail(dict(cls_base, relation="one_component_per_connected_region"), a1_case(cfg, seed, hist, events),
                           f"{where}: after {[events[i] for i in hist]} no edge is left but the union-find components {sorted(sorted(v) for v in part.values())} are not the mask regions {comps}")
                continue
            for i in enabled:
                a, b, inc = events[i]
                u = clone_uf(uf)
                u.union(a, b, inc)
                trans += 1
                k = state_key(u)
                if k in seen:
                    continue
                seen.add(k)
                h2 = hist + (i,)
                roots2, bad = inspect_state(u, N, kk, S.final)
                if roots2[a] != roots2[b]:
                    bad.append(("union_merges_its_end_points", f"after union({a},{b},{inc}) the two pixels still have roots {roots2[a]} and {roots2[b]}"))
                for rel, msg in bad:
                    t.fail(dict(cls_base, relation=rel), a1_case(cfg, seed, h2, events), f"{where}: after unions {[events[j] for j in h2]}: {msg}")
                nxt.append((u, h2, roots2))
        frontier = nxt
        if nxt:
            depth += 1
    nontrivial_cfg = any(e[2] != 0 for e in events)
    t.n += trans
    if nontrivial_cfg and len(seen) > 1:
        t.nontrivial.add(digest(["A1", list(cfg)]))
    t.outcomes.add(digest(["A1", list(cfg), len(seen), trans, quiescent, sorted(qkeys)]))
    t.extra["A1_configs"] += 1
    t.extra["A1_configs_with_wrapping_edge"] += int(nontrivial_cfg)
    t.extra["A1_states"] += len(seen)
    t.extra["A1_states_nontrivial"] += (len(seen) - 1) if nontrivial_cfg else 0
    t.extra["A1_transitions"] += trans
    t.extra["A1_quiescent_states"] += quiescent
    t.extra["A1_selfloops_validated"] += selfloops
    t.extra[f"A1_configs_of_depth_{depth}"] += 1
    if (H, W, bool(wrap)) in ((2, 3, False), (2, 4, True)) and bits == (1 << N) - 1 and fname in ("ramp_a", "per_sin"):
        t.sample({"part": "A1", "grid": [H, W], "periodic": bool(wrap), "field": fname, "edges": [list(e) for e in events], "true_wrap_counts": kk,
                  "states": len(seen), "transitions": trans, "quiescent_states": quiescent, "depth": depth}, cap=2)
    t.a1 = dict(states=len(seen), transitions=trans, quiescent=quiescent, depth=depth, keys=sorted(digest(repr(k).encode()) for k in seen) if want_keys else None)
    return t


def a1_worker(cfg, seed=0):
    t = a1_explore(tuple(cfg), seed=seed)
    del t.a1
    return t


# ============================================================================= A2: forced edge orders, public API
class ForcedOrder:
    """While active, Tensor.argsort / torch.argsort on a 1-D tensor of len(perm) return `perm`."""

    def __init__(self, perm):
        self.perm = torch.tensor(list(perm), dtype=torch.long)
        self.calls = 0

    def __enter__(self):
        self.had = "argsort" in torch.Tensor.__dict__
        self.orig_m = torch.Tensor.argsort
        self.orig_f = torch.argsort
        me = self

        def fake_m(t, *a, **k):
            if t.dim() == 1 and t.numel() == me.perm.numel():
                me.calls += 1
                return me.perm.clone()
            return me.orig_m(t, *a, **k)

        def fake_f(t, *a, **k):
            if torch.is_tensor(t) and t.dim() == 1 and t.numel() == me.perm.numel():
                me.calls += 1
                return me.perm.clone()
            return me.orig_f(t, *a, **k)

        torch.Tensor.argsort = fake_m
        torch.argsort = fake_f
        return self

    def __exit__(self, *exc):
        if self.had:
            torch.Tensor.argsort = self.orig_m
        else:
            del torch.Tensor.argsort
        torch.argsort = self.orig_f
        return False


def a2_run(cfg, perm, seed):
    """Public unwrap with the edge order forced to `perm`. Returns (bad, nontrivial, outcome, worst, calls)."""
    H, W, bits, fname = cfg
    mask = bits_to_mask(bits, H, W)
    truth = make_field(fname, H, W, False, seed)
    given = wrap_pi(truth)
    x = torch.tensor(given, dtype=torch.float64)
    full = bits == (1 << (H * W)) - 1
    with ForcedOrder(perm) as fo:
        try:
            out = public_unwrap()(x, method="reliability-sorting", mask=None if full else torch.tensor(mask), wrap_around=False)
            out = out.detach().to(torch.float64).numpy()
        except Exception as e:
            return [("raised", f"raised {type(e).__name__}: {e}")], True, "raised", 0.0, fo.calls
    lab, n = components(mask, False)
    bad, nontrivial, pattern, worst = judge(out, truth, given, lab, n, True, "wrapped")
    return bad, nontrivial, (n, pattern), worst, fo.calls


def a2_worker(item, seed=0):
    cfg, prefix = item
    cfg = tuple(cfg)
    H, W, bits, fname = cfg
    nE = len(mirror_edges(H, W, False, bits_to_mask(bits, H, W)))
    rest = [i for i in range(nE) if i not in prefix]
    t = Tally()
    for tail in itertools.permutations(rest):
        perm = tuple(prefix) + tail
        bad, nontrivial, outcome, worst, calls = a2_run(cfg, perm, seed)
        t.case(key=("A2", cfg, perm), nontrivial=nontrivial, outcome=("A2", cfg[:3], outcome))
        t.extra["A2_orders"] += 1
        t.extra["A2_dev_" + decade(worst)] += 1
        if calls != 1:
            t.extra["A2_order_seam_not_hit"] += 1
        if tuple(prefix) == (1, 0) and tail == tuple(sorted(rest, reverse=True)):
            t.sample({"part": "A2", "grid": [H, W], "mask_bits": bits, "field": fname, "forced_edge_order": list(perm),
                      "edge_list": [list(e) for e in mirror_edges(H, W, False, bits_to_mask(bits, H, W))],
                      "components": outcome[0] if isinstance(outcome, tuple) else outcome, "worst_deviation_rad": worst}, cap=1)
        for rel, msg in bad:
            t.fail({"part": "A2_forced_order", "relation": rel, "wrap_around": False},
                   {"part": "A2", "H": H, "W": W, "mask_bits": bits, "field": fname, "perm": list(perm), "seed": seed},
                   f"{H}x{W} mask_bits={bits} field={fname} edge order {list(perm)} (indices into the library's edge list): {msg}")
    return t


def a2_validate_order_seam(seed):
    """Is the forced permutation really the order in which union() is called? Only answerable when the
    class seam exists (its union is wrapped for two runs in this process only). Returns None (cannot tell),
    True or False."""
    S = seam()
    cfg = (2, 3, (1 << 6) - 1, "ramp_a")
    E = mirror_edges(2, 3, False, bits_to_mask(cfg[2], 2, 3))
    perms = [tuple(range(len(E))), tuple(reversed(range(len(E)))), (3, 0, 6, 1, 5, 2, 4)]
    if S.cls is None:
        for p in perms:
            *_, calls = a2_run(cfg, p, seed)
            if calls != 1:
                return False
        return None
    orig = S.cls.union
    ok = True
    try:
        for p in perms:
            seen = []

            def spy(self, x, y, inc, _seen=seen):
                _seen.append((int(x), int(y)))
                return orig(self, x, y, inc)

            S.cls.union = spy
            *_, calls = a2_run(cfg, p, seed)
            if calls != 1 or seen != [E[i] for i in p]:
                ok = False
    finally:
        S.cls.union = orig
    return ok


# ============================================================================= BF: masked embedding used by direct ptychography
def bf_masks(Hk, Wk):
    yy, xx = np.mgrid[:Hk, :Wk].astype(float)
    r = np.hypot(yy - (Hk - 1) / 2, xx - (Wk - 1) / 2)
    out = {"rect": np.ones((Hk, Wk), bool), "disk": r <= min(Hk, Wk) / 2 - 0.4, "disk_margin": r <= min(Hk, Wk) / 2 - 1.2}
    return out


def bf_point(pt, seed=0):
    Hk, Wk, bfname, subname, field, wrap_kw, two_pass = pt
    t = Tally()
    S = seam()
    bf = bf_masks(Hk, Wk)[bfname]
    sub = np.ones((Hk, Wk), bool)
    if subname == "hole":
        sub[Hk // 2, Wk // 2] = False
    elif subname == "split":
        sub[:, Wk // 2] = False
    elif subname == "rand":
        sub = np.random.default_rng([seed, 17, 800, Hk, Wk]).random((Hk, Wk)) < 0.8
    mask_grid = bf & sub
    if not mask_grid.any():
        return t
    truth = make_field(field, Hk, Wk, False, seed)
    amp = np.random.default_rng([seed, 17, 801, Hk, Wk]).uniform(0.5, 1.5, (Hk, Wk))
    data = torch.tensor((amp * np.exp(1j * truth))[bf], dtype=torch.complex64)
    kw = {} if wrap_kw == "default" else {"wrap_around": False}
    case = {"part": "BF", "pt": list(pt), "seed": seed}
    cls = {"part": "BF_masked_embedding", "wrap_around": wrap_kw}
    try:
        res = S.bf(data, torch.tensor(mask_grid[bf]), torch.tensor(bf), two_pass=bool(two_pass), **kw)
        res = res.detach().to(torch.float64).numpy()
    except Exception as e:
        t.case(key=("BF",) + tuple(pt), nontrivial=True, outcome="raised")
        t.fail(dict(cls, relation="raised"), case, f"unwrap_bf_overlap_phase_torch{pt} raised {type(e).__name__}: {e}")
        return t
    out = np.zeros((Hk, Wk))
    out[bf] = res
    given = np.zeros((Hk, Wk))
    given[bf] = torch.angle(data).to(torch.float64).numpy()
    lab, n = components(mask_grid, False)
    bad, nontrivial, pattern, worst = judge(out, truth, given, lab, n, True, "wrapped")
    t.case(key=("BF",) + tuple(pt), nontrivial=nontrivial, outcome=("BF", n, pattern))
    t.extra["BF_calls"] += 1
    t.extra["BF_dev_" + decade(worst)] += 1
    for rel, msg in bad:
        t.fail(dict(cls, relation=rel), case, f"unwrap_bf_overlap_phase_torch grid {Hk}x{Wk} bf_mask={bfname} mask_bf={subname} field={field} wrap_around={wrap_kw} two_pass={bool(two_pass)}: {msg}")
    return t


# ============================================================================= P: Poisson method, "does not raise" only
def poisson_point(pt, seed=0):
    H, W, mname, wrap, lam, dtype = pt
    t = Tally()
    mask = named_mask(mname, H, W, seed)
    x = torch.tensor(wrap_pi(make_field("per_sin", H, W, True, seed)), dtype=torch_dtype(dtype))
    try:
        out = public_unwrap()(x, method="poisson", mask=None if mask is None else torch.tensor(mask), wrap_around=bool(wrap), regularization_lambda=lam)
        outcome = ("ok", bool(torch.isfinite(out).all()), tuple(out.shape) == (H, W))
    except Exception as e:
        outcome = ("raised_" + type(e).__name__,)
        if wrap:  # wrap_around=False is NotImplemented by design: recorded, not judged
            t.fail({"part": "P_poisson", "relation": "does_not_raise", "wrap_around": True}, {"part": "P", "pt": list(pt), "seed": seed},
                   f"unwrap_phase_2d_torch(method='poisson', wrap_around=True) {H}x{W} mask={mname} lambda={lam} {dtype} raised {type(e).__name__}: {e}")
    t.case(key=("P",) + tuple(pt), nontrivial=bool(wrap), outcome=("P", bool(wrap)) + outcome)
    t.extra["P_calls"] += 1
    t.extra["P_" + outcome[0]] += 1
    return t


# ============================================================================= L: long steep fields (magnitude thresholds)
# Small-scope enumeration cannot see a magnitude threshold unless the alphabet straddles it.  The wrap count of a ramp
# at 0.9*pi per sample over N samples is 0.45*(N-1): 125 (N=280) / 134 (N=300) straddle the int8 limit 127/128 and
# 251 (N=560) / 269 (N=600) straddle 255/256 -- and +-135 from the middle of the axis for N=600, so the limit is crossed
# wherever the root of the union-find tree ends up.  32767/32768 is only reached in A3 (left-to-right chain of 73,000).
LONG_N = (280, 300, 560, 600)
EPS32 = 1.1920929e-07
# Tolerance for the long family: the library adds float32(2*pi*k) to the input, so the result carries a rounding error of
# up to half a float32 ulp of the field range.  tol = max(TOL, 32 * eps32 * range): 6.5e-3 rad at range 1,700 rad.  Worst
# deviation/tolerance over all 168 points of the thorough long lattice (the fields are not seeded): 0.042, i.e. the tolerance
# is 24x the worst deviation (2.5e-4 rad, 560x2 bridge, float32).  Effect of the int8 wrap: 256*2*pi = 1,608 rad; of one wrong
# wrap: 6.28 rad (1/20 = 0.31 rad, which also caps the tolerance: 0.3 rad).


def long_tol(rng):
    return min(0.3, max(TOL, 32 * EPS32 * float(rng)))


def long_shapes():
    return [(1, n) for n in LONG_N] + [(3, n) for n in LONG_N] + [(n, 2) for n in LONG_N]


def long_masks(H, W):
    short = min(H, W)
    return {1: ("none", "gap"), 2: ("none", "bridge"), 3: ("none", "hole", "bridge")}[short]


def long_mask(name, H, W):
    """Masks in the middle of the long axis: 'gap' splits a 1xN line in two regions, 'hole' removes the centre pixel of a
    3xN strip, 'bridge' leaves a single pixel of the middle column (3xN) / middle row (Nx2)."""
    if name == "none":
        return None
    m = np.ones((H, W), bool)
    tr = H > W
    mm = m.T if tr else m  # (short, long) view
    n = mm.shape[1]
    if name == "gap":
        mm[0, n // 2] = False
    elif name == "hole":
        mm[1, n // 2] = False
    elif name == "bridge":
        mm[:, n // 2] = False
        mm[mm.shape[0] // 2, n // 2] = True
    else:
        raise ValueError(name)
    return m


@functools.lru_cache(maxsize=256)
def long_field(name, H, W):
    yy, xx = np.mgrid[:H, :W].astype(float)
    L, S = (yy, xx) if H > W else (xx, yy)
    n = max(H, W)
    if name == "long_ramp":
        f = ITOH * L
    elif name == "long_diag_neg":
        f = -ITOH * L + 0.7 * S
    elif name == "long_triangle":  # periodic and single valued along the long axis, constant across
        f = ITOH * np.minimum(L, n - L)
    else:
        raise ValueError(name)
    f = f + 0.37
    if max_step(f, name == "long_triangle") > 0.9001 * math.pi:
        raise Broken(f"long field {name} {H}x{W} violates its own Itoh margin")
    f.setflags(write=False)
    return f


def long_run(H, W, mname, wrap, field, dtype):
    mask = long_mask(mname, H, W)
    truth = long_field(field, H, W)
    given64 = wrap_pi(truth)
    x = torch.tensor(given64, dtype=torch_dtype(dtype))
    given = x.to(torch.float64).numpy().copy()
    truth_eff = truth + (given - given64)
    tol = long_tol(np.ptp(truth))
    x0 = x.clone()
    try:
        out = public_unwrap()(x, method="reliability-sorting", mask=None if mask is None else torch.tensor(mask), wrap_around=bool(wrap))
        out = out.detach().to(torch.float64).numpy()
    except Exception as e:
        return dict(bad=[("raised", f"unwrap_phase_2d_torch raised {type(e).__name__}: {e}")], span=0, outcome="raised", worst=0.0, tol=tol)
    if x.numpy().tobytes() != x0.numpy().tobytes():
        return dict(bad=[("input_unmodified", "the call changed its input tensor in place")], span=0, outcome="input_modified", worst=0.0, tol=tol)
    m = np.ones((H, W), bool) if mask is None else mask
    lab, n = components(m, bool(wrap))
    bad, _, pattern, worst = judge(out, truth_eff, given, lab, n, True, "wrapped", TOL=tol)
    kk = wrap_counts(truth)[1]
    span = max(int(np.ptp(kk[lab == c])) for c in range(1, n + 1))
    return dict(bad=bad, span=span, outcome=(n, digest([list(p) for p in pattern])), worst=worst, tol=tol)


def long_point(pt, seed=0):
    H, W, mname, wrap, field, dtype = pt
    t = Tally()
    r = long_run(H, W, mname, wrap, field, dtype)
    # non-trivial: the true wrap count spans more than 127 inside one connected region (beyond a signed 8-bit integer)
    t.case(key=("L",) + tuple(pt), nontrivial=r["span"] > 127, outcome=("L", H, W, mname, bool(wrap), field, r["outcome"]))
    t.extra["L_calls"] += 1
    t.extra["L_wrap_span_" + ("le127" if r["span"] <= 127 else "128_255" if r["span"] <= 255 else "256_32767" if r["span"] <= 32767 else "ge32768")] += 1
    t.extra["L_dev_over_tol_" + decade(r["worst"] / r["tol"])] += 1
    case = {"part": "L", "pt": list(pt)}
    for rel, msg in r["bad"]:
        t.fail({"part": "L_long_steep_fields", "relation": rel, "wrap_around": bool(wrap)}, case,
               f"{H}x{W} mask={mname} wrap_around={bool(wrap)} field={field} {dtype} (true wrap count spans {r['span']} inside one region; tol {r['tol']:.3g} rad): {msg}")
    if (H, W, mname, field, dtype) == (3, 300, "bridge", "long_ramp", "f64"):
        t.sample({"part": "L", "shape": [H, W], "mask": mname, "wrap_around": bool(wrap), "field": field, "dtype": dtype,
                  "true_wrap_count_span_in_one_region": r["span"], "worst_deviation_rad": r["worst"], "tolerance_rad": r["tol"]}, cap=1)
    return t


def long_lattice(ctx):
    pts = []
    for H, W in long_shapes():
        n = max(H, W)
        control = n in (280, 560)  # just below the boundary: in the quick tier only the plain cases
        for mname in long_masks(H, W):
            for dtype in ("f64", "f32"):
                if ctx.quick and control and (mname != "none" or dtype == "f32"):
                    continue
                for field in ("long_ramp", "long_diag_neg"):
                    if ctx.quick and control and field != "long_ramp":
                        continue
                    pts.append((H, W, mname, False, field, dtype))
                if not (ctx.quick and (control or mname == "hole")):
                    pts.append((H, W, mname, True, "long_triangle", dtype))
    # heaviest first
    return sorted(pts, key=lambda p: (-p[0] * p[1], p))


# ============================================================================= A3: long path graphs on the real union-find
A3_ORDERS = ("left_to_right", "right_to_left", "middle_out", "interleaved")


def a3_order(name, N):
    E = N - 1  # edge i joins pixels i and i+1
    if name == "left_to_right":
        return list(range(E))
    if name == "right_to_left":
        return list(range(E - 1, -1, -1))
    if name == "middle_out":
        m = E // 2
        out = [m]
        for d in range(1, E):
            if m - d >= 0:
                out.append(m - d)
            if m + d < E:
                out.append(m + d)
        return out
    if name == "interleaved":
        return list(range(0, E, 2)) + list(range(1, E, 2))
    raise ValueError(name)


def a3_worker(item, seed=0):
    """One 1xN chain, ramp at +-0.9*pi per sample, edges merged in a structured order on the real union-find (built the way
    the unwrapper builds it); the offset invariant is checked every `step` unions and at the end."""
    N, oname, sign = item
    S = seam()
    t = Tally()
    f = sign * ITOH * np.arange(N, dtype=float) + 0.37
    w, kk = wrap_counts(f)
    kk = kk.tolist()
    phi = torch.tensor(w, dtype=torch.float64)
    true_inc = [kk[i] - kk[i + 1] for i in range(N - 1)]
    inc = true_inc
    cls_base = {"part": "A3_long_path", "wrap_around": False}
    case = {"part": "A3", "N": N, "order": oname, "sign": sign}
    where = f"1x{N} chain, ramp {sign * 0.9:+.1f}*pi per sample (true wrap counts 0..{kk[-1]}), edges merged {oname}"
    if S.find_wrap is not None:
        inc = [int(v) for v in S.find_wrap(phi[:-1], phi[1:]).tolist()]
        badl = [i for i in range(N - 1) if inc[i] != true_inc[i]]
        if badl:
            i = badl[0]
            t.fail(dict(cls_base, relation="edge_label_equals_true_wrap_difference"), case, f"{where}: _find_wrap labels edge ({i},{i + 1}) with {inc[i]}, true wrap-count difference is {true_inc[i]} ({len(badl)} edges wrong)")
    order = a3_order(oname, N)
    if sorted(order) != list(range(N - 1)):
        raise Broken(f"a3_order({oname}, {N}) is not a permutation of the edges")
    uf = S.make(N)
    where += f" [union-find built like the unwrapper builds it: extra arguments {S.ctor_extra[0] + tuple(sorted(S.ctor_extra[1].items()))}, stored as " + ", ".join(f"{k}:{str(v.dtype).replace('torch.', '')}" for k, v in sorted(vars(uf).items()) if torch.is_tensor(v)) + "]"
    step = max(16, N // 32) if N <= 2000 else N  # long chains: at the end only
    done = 0
    failed = False
    for e in order:
        uf.union(e, e + 1, inc[e])
        done += 1
        if done % step == 0 or done == N - 1:
            roots, bad = inspect_state(uf, N, kk, S.final if N <= 2000 or done == N - 1 else None)
            if done == N - 1 and len(set(roots)) != 1:
                bad.append(("one_component_per_connected_region", f"all {N - 1} edges merged but {len(set(roots))} union-find components are left"))
            for rel, msg in bad:
                t.fail(dict(cls_base, relation=rel), dict(case, unions=done), f"{where}: after {done} unions: {msg}")
                failed = True
            if failed:
                break
    t.n += done
    t.nontrivial.add(digest(["A3", N, oname, sign]))
    t.outcomes.add(digest(["A3", N, oname, sign, repr(state_key(uf))]))
    t.extra["A3_chains"] += 1
    t.extra["A3_unions"] += done
    if (N, oname, sign) == (300, "middle_out", 1):
        od = {n_: v for n_, v in state_key(uf)}.get("offset", ())
        t.sample({"part": "A3", "chain": N, "order": oname, "first_edges": order[:6], "true_wrap_count_last_pixel": kk[-1],
                  "stored_offset_min_max": [min(od), max(od)] if od else None, "unions": done}, cap=1)
    return t


# ============================================================================= H: call histories (a result must not depend on earlier calls)
H_SHAPE, H_CONTROL = (6, 8), (5, 7)


def seam_disc(H, W, r=1.5):
    """Disc centred on pixel (0, 0) of the torus: four corner pieces that are connected only through the wrap-around seam."""
    yy, xx = np.mgrid[:H, :W]
    dy, dx = np.minimum(yy, H - yy), np.minimum(xx, W - xx)
    return dy * dy + dx * dx <= r * r


def seam_field(H, W):
    """Periodic, single valued, steepest across the x seam and crossing an odd multiple of pi exactly there: every
    in-mask pixel left of the seam (x = W-1, W-2) has wrap count 0, every one right of it (x = 0, 1) has wrap count 1."""
    yy, xx = np.mgrid[:H, :W].astype(float)
    A = 0.85 * math.pi / (2 * math.sin(math.pi / W))
    return math.pi + A * np.sin(2 * np.pi * (xx + 0.5) / W) + 0.2 * np.cos(2 * np.pi * yy / H)


def h_alphabet():
    calls = []
    for shp in (H_SHAPE, H_CONTROL):
        calls += [("bounded_winding", shp), ("seam_disc_periodic", shp), ("bounded_masked", shp)]
    calls += [("periodic_full", H_SHAPE), ("bounded_f32_holes", H_SHAPE), ("poisson", H_SHAPE)]
    return calls


def h_build(call, seed):
    """(truth, mask or None, wrap_around, dtype, method)"""
    kind, (H, W) = call[0], tuple(call[1])
    if kind == "bounded_winding":  # bounded ramp: its wrapped version winds around the x axis, so periodic edges would be wrong
        return make_field("ramp_a", H, W, False, seed), None, False, "f64", "reliability-sorting"
    if kind == "seam_disc_periodic":
        return seam_field(H, W), seam_disc(H, W), True, "f64", "reliability-sorting"
    if kind == "bounded_masked":
        return make_field("ramp_b", H, W, False, seed), named_mask("bridge_col", H, W, seed), False, "f64", "reliability-sorting"
    if kind == "periodic_full":
        return make_field("per_bl0", H, W, True, seed), None, True, "f64", "reliability-sorting"
    if kind == "bounded_f32_holes":
        return make_field("bump", H, W, False, seed), named_mask("holes2", H, W, seed), False, "f32", "reliability-sorting"
    if kind == "poisson":
        return make_field("per_sin", H, W, True, seed), None, True, "f64", "poisson"
    raise ValueError(kind)


def h_do(call, seed, check):
    """Execute one call of the alphabet on the real code. Always: input and mask bitwise unchanged. When `check`: the
    usual oracle (Poisson: does not raise). Returns list of (relation, message)."""
    truth, mask, wrap, dtype, method = h_build(call, seed)
    H, W = truth.shape
    given64 = wrap_pi(truth)
    x = torch.tensor(given64, dtype=torch_dtype(dtype))
    given = x.to(torch.float64).numpy().copy()
    mt = None if mask is None else torch.tensor(mask)
    x0 = x.clone()
    try:
        out = public_unwrap()(x, method=method, mask=mt, wrap_around=wrap)
        out = out.detach().to(torch.float64).numpy()
    except Exception as e:
        return [("raised", f"raised {type(e).__name__}: {e}")] if check else []
    bad = []
    if x.numpy().tobytes() != x0.numpy().tobytes() or (mt is not None and not np.array_equal(mt.numpy(), mask)):
        bad.append(("input_unmodified", "the call changed its input tensor or mask in place"))
    if check and method == "reliability-sorting":
        m = np.ones((H, W), bool) if mask is None else mask
        lab, n = components(m, wrap)
        bad += judge(out, truth + (given - given64), given, lab, n, True, "wrapped")[0]
    return bad


_RELOAD_CODE = {}


def h_reload():
    """Fresh module-level state: re-execute imaging_utils in its own namespace, exactly what importlib.reload does, with the
    compiled source cached (compiling is 9 of the 10 ms of a reload)."""
    import importlib

    mod = _iu()
    f = getattr(mod, "__file__", None)
    try:
        key = (f, os.stat(f).st_mtime_ns)
        code = _RELOAD_CODE.get(key)
        if code is None:
            with open(f, "rb") as fh:
                code = _RELOAD_CODE[key] = compile(fh.read(), f, "exec")
        exec(code, mod.__dict__)
        return mod
    except Exception:
        return importlib.reload(mod)


def h_run_history(hist, seed):
    h_reload()  # fresh module-level state for every history
    bad = []
    for c in hist[:-1]:
        bad += [(rel, f"(call {list(c)}) {msg}") for rel, msg in h_do(c, seed, check=False)]
    bad += h_do(hist[-1], seed, check=True)
    return bad


def h_worker(item, seed=0):
    """Every history `item + [c]` for c in the call alphabet (item = a prefix of 0, 1 or 2 calls); the LAST call is judged,
    imaging_utils is re-imported before each history."""
    prefix = [(c[0], tuple(c[1])) for c in item]
    t = Tally()
    try:
        for last in h_alphabet():
            hist = prefix + [last]
            bad = h_run_history(hist, seed)
            hj = [[c[0], list(c[1])] for c in hist]
            case = {"part": "H", "history": hj}
            t.case(key=case, nontrivial=any(c != last for c in prefix), outcome=("H", hj[-1], len(bad)))
            t.extra["H_histories"] += 1
            t.extra[f"H_histories_of_length_{len(hist)}"] += 1
            for rel, msg in bad:
                same_shape = any(c[1] == last[1] for c in prefix)
                relation = rel if (rel == "input_unmodified" or not prefix) else "result_independent_of_earlier_calls"
                t.fail({"part": "H_call_history", "relation": relation, "last_call": last[0]}, case,
                       f"after the calls {hj[:-1]} ({'same' if same_shape else 'only other'} shape before) the call {hj[-1]} fails [{rel}]: {msg}")
            if len(hist) == 2 and prefix[0] == ("bounded_winding", H_SHAPE) and last == ("seam_disc_periodic", H_SHAPE):
                t.sample({"part": "H", "history": hj, "failures": len(bad)}, cap=1)
    finally:
        h_reload()
    return t


def h_core_alphabet():
    """{shape, control shape} x {bounded, periodic}: the alphabet for the deeper histories."""
    return [(k, shp) for shp in (H_SHAPE, H_CONTROL) for k in ("bounded_winding", "seam_disc_periodic")]


def h_deep_worker(item, seed=0, depth=4):
    """Every history of exactly `depth` calls over the 4-call core alphabet that starts with the two calls in `item`."""
    prefix = [(c[0], tuple(c[1])) for c in item]
    core = h_core_alphabet()
    t = Tally()
    try:
        for tail in itertools.product(core, repeat=depth - len(prefix)):
            hist = prefix + list(tail)
            bad = h_run_history(hist, seed)
            hj = [[c[0], list(c[1])] for c in hist]
            case = {"part": "H", "history": hj}
            t.case(key=case, nontrivial=len(set(hist)) > 1, outcome=("H", hj[-1], len(bad)))
            t.extra["H_histories"] += 1
            t.extra[f"H_histories_of_length_{len(hist)}"] += 1
            for rel, msg in bad:
                relation = rel if rel == "input_unmodified" else "result_independent_of_earlier_calls"
                t.fail({"part": "H_call_history", "relation": relation, "last_call": hist[-1][0]}, case,
                       f"after the calls {hj[:-1]} the call {hj[-1]} fails [{rel}]: {msg}")
    finally:
        h_reload()
    return t


# ============================================================================= Y: memory layout / dtype / container of the input and of the mask
# The same values handed over in every spelling the entry point may meet.  Judged (a) by the usual oracle and (b)
# differentially against the canonical call (contiguous float32 phase, contiguous bool mask): float32 spellings must give
# the same values on the mask (TOL), other dtypes the same wrap pattern on every connected region.
Y_PHASE_F32 = ("transposed_view", "permute_view", "as_strided_fortran", "row_padded_view", "every_other", "every_other_of_transposed",
               "expand_rows", "flip_copy", "requires_grad", "non_leaf", "non_leaf_transposed")
Y_PHASE_OTHER = ("c_f64", "f64_transposed_view", "c_f16", "f16_transposed_view", "from_numpy_negative_stride",
                 "np_c_f32", "np_f_f64", "np_transposed_f32", "np_readonly_f64")
Y_MASKS = ("bool_transposed_view", "bool_every_other", "uint8", "int64", "float32", "float64", "uint8_transposed_view", "np_bool")
# spellings that are plain torch tensors of a floating dtype the library documents (any layout, any autograd state) and
# bool tensor masks: raising on them is a failure.  Everything else is optional: a rejection is counted, not flagged.
Y_MUST_ACCEPT = set(Y_PHASE_F32) | {"c_f64", "f64_transposed_view", "bool_transposed_view", "bool_every_other"}


class NotConstructible(Exception):
    pass


def y_phase(sp, g):
    """(input object, list of (tensor-or-array, snapshot) pairs that must be unchanged afterwards)."""
    H, W = g.shape
    f32 = torch.float32
    base = None
    if sp == "c_f32":
        x = torch.tensor(g, dtype=f32)
    elif sp == "c_f64":
        x = torch.tensor(g)
    elif sp == "c_f16":
        x = torch.tensor(g, dtype=torch.float16)
    elif sp == "transposed_view":
        x = torch.tensor(g.T.copy(), dtype=f32).T
    elif sp == "f64_transposed_view":
        x = torch.tensor(g.T.copy()).T
    elif sp == "f16_transposed_view":
        x = torch.tensor(g.T.copy(), dtype=torch.float16).T
    elif sp == "permute_view":
        x = torch.tensor(g.T.copy(), dtype=f32).permute(1, 0)
    elif sp == "as_strided_fortran":
        base = torch.tensor(g.T.copy(), dtype=f32).flatten()
        x = torch.as_strided(base, (H, W), (1, H))
    elif sp == "row_padded_view":
        base = torch.full((H + 2, W + 3), 7.0, dtype=f32)
        base[1 : H + 1, 2 : W + 2] = torch.tensor(g, dtype=f32)
        x = base[1 : H + 1, 2 : W + 2]
    elif sp == "every_other":
        base = torch.full((2 * H, 2 * W), 7.0, dtype=f32)
        base[::2, ::2] = torch.tensor(g, dtype=f32)
        x = base[::2, ::2]
    elif sp == "every_other_of_transposed":
        base = torch.full((2 * W, 2 * H), 7.0, dtype=f32)
        base[::2, ::2] = torch.tensor(g.T.copy(), dtype=f32)
        x = base[::2, ::2].T
    elif sp == "expand_rows":
        if not (g == g[0]).all():
            raise NotConstructible("field is not constant along the rows")
        base = torch.tensor(g[0].copy(), dtype=f32)
        x = base.expand(H, W)
    elif sp == "flip_copy":
        x = torch.flip(torch.tensor(g[::-1, ::-1].copy(), dtype=f32), [0, 1])
    elif sp == "from_numpy_negative_stride":
        a = g[::-1, ::-1].copy()[::-1, ::-1]
        try:
            x = torch.from_numpy(a)
        except Exception as e:
            raise NotConstructible(f"torch.from_numpy: {type(e).__name__}")
    elif sp == "requires_grad":
        x = torch.tensor(g, dtype=f32, requires_grad=True)
    elif sp == "non_leaf":
        x = torch.tensor(g, dtype=f32, requires_grad=True) * 1.0
    elif sp == "non_leaf_transposed":
        x = (torch.tensor(g.T.copy(), dtype=f32, requires_grad=True) * 1.0).T
    elif sp == "np_c_f32":
        x = g.astype(np.float32)
    elif sp == "np_f_f64":
        x = np.asfortranarray(g)
    elif sp == "np_transposed_f32":
        x = g.T.astype(np.float32).copy().T
    elif sp == "np_readonly_f64":
        x = g.copy()
        x.setflags(write=False)
    else:
        raise ValueError(sp)
    watch = [x] + ([base] if base is not None else [])
    return x, [(w, (w.detach().clone() if torch.is_tensor(w) else w.copy())) for w in watch]


def y_mask(sp, mask):
    H, W = mask.shape
    if sp == "bool":
        m = torch.tensor(mask)
    elif sp == "bool_transposed_view":
        m = torch.tensor(mask.T.copy()).T
    elif sp == "bool_every_other":
        base = torch.ones((2 * H, 2 * W), dtype=torch.bool)
        base[::2, ::2] = torch.tensor(mask)
        m = base[::2, ::2]
    elif sp == "uint8":
        m = torch.tensor(mask.astype(np.uint8))
    elif sp == "uint8_transposed_view":
        m = torch.tensor(mask.T.astype(np.uint8).copy()).T
    elif sp == "int64":
        m = torch.tensor(mask.astype(np.int64))
    elif sp == "float32":
        m = torch.tensor(mask.astype(np.float32))
    elif sp == "float64":
        m = torch.tensor(mask.astype(np.float64))
    elif sp == "np_bool":
        m = mask.copy()
    else:
        raise ValueError(sp)
    return m, [(m, (m.clone() if torch.is_tensor(m) else m.copy()))]


def y_unchanged(watch):
    for w, snap in watch:
        if torch.is_tensor(w):
            if w.dtype != snap.dtype or w.shape != snap.shape or w.detach().contiguous().numpy().tobytes() != snap.contiguous().numpy().tobytes():
                return False
        elif w.dtype != snap.dtype or w.tobytes() != snap.tobytes():
            return False
    return True


def y_call(g, truth, mask, wrap, psp, msp):
    """One call in spelling (psp, msp). Returns dict(status, out, given, bad)."""
    x, watch = y_phase(psp, g)
    m = None
    if mask is not None:
        m, w2 = y_mask(msp, mask)
        watch += w2
    xv = x.detach() if torch.is_tensor(x) else torch.as_tensor(np.ascontiguousarray(x))
    given = xv.to(torch.float64).numpy().copy()
    if not np.allclose(given, g, atol=4e-3):
        raise Broken(f"spelling {psp} does not carry the intended values")
    try:
        out = public_unwrap()(x, method="reliability-sorting", mask=m, wrap_around=bool(wrap))
    except Exception as e:
        return dict(status="rejected", err=f"{type(e).__name__}: {str(e)[:120]}", given=given, bad=[])
    bad = []
    if not y_unchanged(watch):
        bad.append(("input_unmodified", "the call changed its input (or the memory around a view, or the mask) in place"))
    if torch.is_tensor(x) and x.requires_grad and x.is_leaf and x.grad is not None:
        bad.append(("input_unmodified", "the call left a gradient on its input"))
    try:
        out = (out.detach() if torch.is_tensor(out) else torch.as_tensor(np.asarray(out))).to(torch.float64).numpy()
    except Exception as e:
        return dict(status="ok", out=None, given=given, bad=bad + [("result_shape", f"result of type {type(out).__name__} cannot be read as an array: {e}")])
    if out.shape != g.shape:
        return dict(status="ok", out=None, given=given, bad=bad + [("result_shape", f"result has shape {out.shape}, input {g.shape}")])
    return dict(status="ok", out=out, given=given, bad=bad)


def y_spellings(field):
    """(phase spelling, mask spelling) pairs explored for one (grid, wrap, field, mask geometry)."""
    ph = [p for p in Y_PHASE_F32 + Y_PHASE_OTHER if p != "expand_rows" or field in ("ramp_x", "per_x")]
    pairs = [(p, "bool") for p in ph]
    pairs += [("c_f32", m) for m in Y_MASKS]
    pairs += [("transposed_view", "bool_transposed_view"), ("f64_transposed_view", "uint8_transposed_view"), ("every_other", "bool_every_other")]
    return pairs


def y_worker(item, seed=0, only=None):
    H, W, wrap, field, geom = item
    t = Tally()
    truth = make_field(field, H, W, bool(wrap), seed)
    g = wrap_pi(truth)
    mask = named_mask(geom, H, W, seed)
    mm = np.ones((H, W), bool) if mask is None else mask
    lab, n = components(mm, bool(wrap))
    ref = y_call(g, truth, mask, wrap, "c_f32", "bool")
    base_case = {"part": "Y", "pt": [H, W, bool(wrap), field, geom], "seed": seed}
    where = f"{H}x{W} wrap_around={bool(wrap)} field={field} mask={geom}"
    if ref["status"] != "ok" or ref["out"] is None:
        t.case(key=("Y", item, "c_f32", "bool"), nontrivial=True, outcome="canonical_failed")
        t.fail({"part": "Y_input_spelling", "relation": "raised", "spelling": "c_f32/bool"}, dict(base_case, spelling=["c_f32", "bool"]), f"{where}: the canonical call failed: {ref.get('err', ref['bad'])}")
        return t
    rbad, rnon, rpat, _ = judge(ref["out"], truth + (ref["given"] - g), ref["given"], lab, n, True, "wrapped")
    for psp, msp in y_spellings(field):
        if only is not None and [psp, msp] != list(only):
            continue
        if mask is None and msp != "bool":
            continue
        sp = psp if (mask is None or msp == "bool") else f"{psp}/{msp}"
        case = dict(base_case, spelling=[psp, msp])
        cls = {"part": "Y_input_spelling", "spelling": sp}
        try:
            r = y_call(g, truth, mask, wrap, psp, msp)
        except NotConstructible as e:
            t.case(key=("Y", item, psp, msp), nontrivial=False, outcome=("Y", "not_constructible"))
            t.extra[f"Y_not_constructible_{sp}"] += 1
            continue
        t.extra["Y_calls"] += 1
        if r["status"] == "rejected":
            t.case(key=("Y", item, psp, msp), nontrivial=False, outcome=("Y", sp, "rejected"))
            t.extra[f"Y_rejected_{sp}"] += 1
            if psp in Y_MUST_ACCEPT and (mask is None or msp == "bool" or msp in Y_MUST_ACCEPT):
                t.fail(dict(cls, relation="raised"), case, f"{where}: input spelled {sp} (a torch tensor of a supported dtype) is rejected: {r['err']}")
            continue
        t.extra[f"Y_accepted_{sp}"] += 1
        bad = list(r["bad"])
        outcome = "no_result"
        if r["out"] is not None:
            # float16 input: the library may legitimately answer in float16 (HEAD answers in float32; worst deviation there 1e-5
            # rad): allow 8 float16 ulps of the largest value, capped at 0.3 rad (1/20 of one wrong wrap = 0.31 rad)
            tol = min(0.3, max(TOL, 8 * 9.77e-4 * (float(np.abs(truth).max()) + math.pi))) if "f16" in psp else TOL
            jb, _, pat, worst = judge(r["out"], truth + (r["given"] - g), r["given"], lab, n, True, "wrapped", TOL=tol)
            bad += jb
            outcome = digest([list(p) for p in pat])
            t.extra["Y_dev_" + decade(worst)] += 1
            same_dtype = psp in Y_PHASE_F32 or psp in ("c_f32", "np_c_f32", "np_transposed_f32")
            if same_dtype:
                d = float(np.abs(r["out"] - ref["out"])[mm].max())
                if not d <= TOL:
                    i = int(np.argmax(np.abs(r["out"] - ref["out"]) * mm))
                    bad.append(("same_answer_as_contiguous_float32", f"differs from the answer for the contiguous float32 / bool spelling of the same values by up to {d:.4g} rad = {d / TWO_PI:.3f} * 2*pi (at pixel {divmod(i, W)}; tol {TOL})"))
            elif pat != rpat:
                bad.append(("same_answer_as_contiguous_float32", "the wrap pattern (result - input)/(2*pi) on a connected region differs from the one for the contiguous float32 / bool spelling"))
        t.case(key=("Y", item, psp, msp), nontrivial=bool(rnon), outcome=("Y", H, W, bool(wrap), field, geom, outcome))
        for rel, msg in bad:
            t.fail(dict(cls, relation=rel), case, f"{where}, input spelled {sp}: {msg}")
        if rnon and (H, W, field, geom, psp) == (5, 7, "bl0", "bridge_col", "transposed_view") and msp == "bool":
            t.sample({"part": "Y", "shape": [H, W], "wrap_around": bool(wrap), "field": field, "mask": geom, "spelling": [psp, msp],
                      "strides": list(y_phase(psp, g)[0].stride()), "failures": len(bad)}, cap=1)
    for rel, msg in rbad:
        t.fail({"part": "Y_input_spelling", "relation": rel, "spelling": "c_f32/bool"}, dict(base_case, spelling=["c_f32", "bool"]), f"{where}, canonical spelling: {msg}")
    return t


def y_lattice(ctx):
    shapes = [(3, 4), (5, 7)] if ctx.quick else [(3, 4), (4, 3), (5, 7), (8, 6), (6, 5)]
    pts = []
    for H, W in shapes:
        for wrap, fields in ((False, ("ramp_a", "bl0", "ramp_x")), (True, ("per_sin", "per_bl0", "per_x"))):
            for field in fields:
                for geom in ("none", "bridge_col", "rand0"):
                    pts.append((H, W, wrap, field, geom))
    return pts


# ============================================================================= T: two threads, one preemption, owned scheduler
# Thread A makes one unwrap call under a per-thread sys.settrace hook that sees only the frames of imaging_utils.py, counts
# their line events and PARKS (threading.Event, no sleeps) at the k-th one; while A is parked thread B makes one complete
# call; then A resumes.  k is enumerated over the distinct code locations A passes (first and a few later visits of each),
# plus the two schedules without preemption.  Every schedule starts from a freshly re-imported module, so the line-event
# stream of A up to the parking point must be the recorded one (anything else is Broken, not a verdict).
T_VISITS_QUICK = (1, 2, 10, 100)
T_VISITS_THOROUGH = (1, 2, 3, 4, 5, 7, 10, 15, 20, 30, 50, 70, 100, 150, 200, 300, 500, 700, 1000)
T_WAIT = 120.0  # seconds; a wait that times out is a scheduler deadlock (Broken)


T_ABS_LINE = {}  # (function, relative line) -> absolute line number in imaging_utils.py, for messages only


class Diverged(Exception):
    pass


def t_specs():
    P = (4, 6, False, "ramp_a", "none")
    Q = (4, 6, False, "ramp_b", "none")
    R = (6, 4, False, "ramp_b", "none")  # same pixel count, other shape
    D = (5, 7, False, "bl0", "none")  # other pixel count
    Pp = (4, 6, True, "per_sin", "none")
    Qp = (4, 6, True, "per_bl0", "none")
    Pm = (4, 6, False, "ramp_a", "bridge_col")
    Qm = (4, 6, False, "bl0", "rand0")
    Ppm = (4, 6, True, "per_sin", "bridge_col")
    return P, Q, R, D, Pp, Qp, Pm, Qm, Ppm


def t_pairs(quick):
    P, Q, R, D, Pp, Qp, Pm, Qm, Ppm = t_specs()
    pairs = [(P, Q), (Q, P), (P, R), (P, D), (Pp, Qp), (Pm, Qm)]
    if not quick:
        pairs += [(R, P), (D, P), (Qp, Pp), (Qm, Pm), (P, Qp), (Pp, Q), (Ppm, Qm), (Qm, Ppm), (Pm, Q), (Q, Pm), (P, P), (D, D), (R, Q), (Qp, P)]
    return pairs


def t_pair_kind(A, B):
    if A[:2] == B[:2]:
        return "same_shape"
    return "same_pixel_count" if A[0] * A[1] == B[0] * B[1] else "different_pixel_count"


def t_input(spec, seed):
    H, W, wrap, field, geom = spec
    truth = make_field(field, H, W, bool(wrap), seed)
    given = wrap_pi(truth)
    mask = named_mask(geom, H, W, seed)
    return dict(spec=spec, truth=truth, given=given, mask=mask, x=torch.tensor(given), m=None if mask is None else torch.tensor(mask), wrap=bool(wrap))


def t_invoke(inp):
    return public_unwrap()(inp["x"], method="reliability-sorting", mask=inp["m"], wrap_around=inp["wrap"]).detach().to(torch.float64).numpy()


def t_lib_file():
    return os.path.realpath(_iu().__file__)


_IS_LIB = {}


def t_is_lib(filename, lib):
    r = _IS_LIB.get((filename, lib))
    if r is None:
        r = _IS_LIB[(filename, lib)] = os.path.realpath(filename) == lib
    return r


def t_record(inp):
    """Line events of one call alone, in a fresh module: list of (function name, line number relative to its def)."""
    import sys

    h_reload()
    lib = t_lib_file()
    ev = []

    def local(frame, event, arg):
        if event == "line":
            loc = (frame.f_code.co_name, frame.f_lineno - frame.f_code.co_firstlineno)
            ev.append(loc)
            T_ABS_LINE[loc] = frame.f_lineno
        return local

    def glob(frame, event, arg):
        if event == "call" and t_is_lib(frame.f_code.co_filename, lib):
            return local
        return None

    sys.settrace(glob)
    try:
        out = t_invoke(inp)
    finally:
        sys.settrace(None)
    return ev, out


def t_points(ev, visits):
    """[(location, visit number, 1-based index of that line event)] for every distinct location, simplest first."""
    where = {}
    for i, loc in enumerate(ev):
        where.setdefault(loc, []).append(i + 1)
    pts = []
    for loc in sorted(where, key=lambda l: where[l][0]):
        idxs = where[loc]
        vs = sorted({v for v in visits if v <= len(idxs)} | {len(idxs)})
        pts += [(loc, v, idxs[v - 1]) for v in vs]
    return pts


def t_schedule(A, B, k, loc, budget_a, budget_b):
    """One schedule on a freshly re-imported module. k: None = A then B, 0 = B then A, else park A at its k-th line event.
    Returns dict(A=('ok', array) | ('raised', text), B=..., note=...)."""
    import sys
    import threading

    h_reload()
    lib = t_lib_file()
    a_parked, b_done = threading.Event(), threading.Event()
    st = {"n": 0, "parked_at": None, "deadlock": False, "nb": 0}
    res = {}

    def local_a(frame, event, arg):
        if event == "line":
            st["n"] += 1
            if st["n"] == k:
                st["parked_at"] = (frame.f_code.co_name, frame.f_lineno - frame.f_code.co_firstlineno)
                a_parked.set()
                if not b_done.wait(T_WAIT):
                    st["deadlock"] = True
            elif st["n"] > budget_a:
                raise Diverged(f"thread A executed more than {budget_a} library lines (alone: {budget_a // 20})")
        return local_a

    def local_b(frame, event, arg):
        if event == "line":
            st["nb"] += 1
            if st["nb"] > budget_b:
                raise Diverged(f"thread B executed more than {budget_b} library lines (alone: {budget_b // 20})")
        return local_b

    def mk(local):
        def glob(frame, event, arg):
            if event == "call" and t_is_lib(frame.f_code.co_filename, lib):
                return local
            return None

        return glob

    def thread_a():
        try:
            if k == 0:
                a_parked.set()
                if not b_done.wait(T_WAIT):
                    st["deadlock"] = True
            sys.settrace(mk(local_a))
            try:
                res["A"] = ("ok", t_invoke(A))
            finally:
                sys.settrace(None)
        except Exception as e:
            res["A"] = ("raised", f"{type(e).__name__}: {str(e)[:200]}")
        finally:
            a_parked.set()

    def thread_b():
        try:
            if not a_parked.wait(T_WAIT):
                st["deadlock"] = True
            sys.settrace(mk(local_b))
            try:
                res["B"] = ("ok", t_invoke(B))
            finally:
                sys.settrace(None)
        except Exception as e:
            res["B"] = ("raised", f"{type(e).__name__}: {str(e)[:200]}")
        finally:
            b_done.set()

    ta, tb = threading.Thread(target=thread_a, daemon=True), threading.Thread(target=thread_b, daemon=True)
    ta.start()
    tb.start()
    ta.join(T_WAIT)
    tb.join(T_WAIT)
    if ta.is_alive() or tb.is_alive() or st["deadlock"]:
        raise Broken(f"T: scheduler deadlock in schedule k={k} {loc}")
    if k and st["parked_at"] != tuple(loc):
        raise Broken(f"T: nondeterministic trace: schedule k={k} expected to park at {loc}, thread A was at {st['parked_at']} (executed {st['n']} lines)")
    res["lines"] = (st["n"], st["nb"])
    return res


def t_signature(res):
    return tuple((res[w][0], digest(res[w][1].tobytes()) if res[w][0] == "ok" else res[w][1]) for w in ("A", "B")) + (res["lines"],)


def t_judge(who, inp, got, ref):
    """Failures of one thread's result: the ordinary oracle for ITS OWN field and equality with its single-threaded result."""
    if got[0] != "ok":
        return [("raised", f"thread {who} raised {got[1]}")], False
    out = got[1]
    H, W = inp["truth"].shape
    mm = np.ones((H, W), bool) if inp["mask"] is None else inp["mask"]
    lab, n = components(mm, inp["wrap"])
    bad, non, _, _ = judge(out, inp["truth"], inp["given"], lab, n, True, "wrapped")
    bad = [(rel, f"thread {who}: {msg}") for rel, msg in bad]
    d = float(np.abs(out - ref).max())
    if not d <= TOL:
        bad.append(("equals_single_threaded_result", f"thread {who}: differs from the result of the same call made alone by up to {d:.4g} rad = {d / TWO_PI:.3f} * 2*pi"))
    return bad, non


def t_describe(spec):
    return f"{spec[0]}x{spec[1]} {'periodic' if spec[2] else 'bounded'} {spec[3]} mask={spec[4]}"


def t_worker(item, seed=0, quick=True, only=None):
    """All schedules of one ordered pair (A parked, B complete) that fall into this chunk."""
    import linecache

    pi, chunk, nchunks = item
    A_spec, B_spec = t_pairs(quick)[pi] if only is None else (tuple(only["A"]), tuple(only["B"]))
    A, B = t_input(A_spec, seed), t_input(B_spec, seed)
    t = Tally()
    ev, ref_a = t_record(A)
    ev2, ref_a2 = t_record(A)
    evb, ref_b = t_record(B)
    if ev != ev2 or ref_a.tobytes() != ref_a2.tobytes():
        raise Broken(f"T: two recordings of the same call differ ({len(ev)} vs {len(ev2)} line events)")
    budget_a, budget_b = 20 * len(ev), 20 * len(evb)
    pts = [(None, 0, None), (None, 0, 0)] + t_points(ev, T_VISITS_QUICK if quick else T_VISITS_THOROUGH)
    if only is not None:
        want = only["point"]
        pts = [p for p in pts if (want == "A_then_B" and p[2] is None) or (want == "B_then_A" and p[2] == 0) or (p[0] is not None and [p[0][0], p[0][1], p[1]] == want)]
    kind = t_pair_kind(A_spec, B_spec)
    for j, (loc, visit, k) in enumerate(pts):
        if only is None and j % nchunks != chunk:
            continue
        res = t_schedule(A, B, k, loc, budget_a, budget_b)
        bad_a, non_a = t_judge("A", A, res["A"], ref_a)
        bad_b, non_b = t_judge("B", B, res["B"], ref_b)
        bad = bad_a + bad_b
        if bad or j % 5 == 0:  # replay: a schedule must give the same thing twice
            res2 = t_schedule(A, B, k, loc, budget_a, budget_b)
            if t_signature(res) != t_signature(res2):
                raise Broken(f"T: schedule k={k} {loc} visit {visit} of pair {t_describe(A_spec)} / {t_describe(B_spec)} does not replay identically: {t_signature(res)} vs {t_signature(res2)}")
            t.extra["T_schedules_replayed_identically"] += 1
        point = "A_then_B" if k is None else "B_then_A" if k == 0 else [loc[0], loc[1], visit]
        case = {"part": "T", "A": list(A_spec), "B": list(B_spec), "point": point, "seed": seed}
        preempting = bool(k)
        t.case(key=("T", A_spec, B_spec, point), nontrivial=preempting and non_a, outcome=("T", pi, t_signature(res)[:2]))
        t.extra["T_schedules"] += 1
        t.extra["T_schedules_with_preemption"] += int(preempting)
        t.extra[f"T_schedules_{kind}"] += 1
        if preempting:
            t.nontrivial.add(digest(["T-loc", list(loc)]))
            t.extra["T_preemptions_in_" + loc[0]] += 1
        if bad:
            if preempting:
                line = linecache.getline(t_lib_file(), T_ABS_LINE.get(tuple(loc), 0)).strip()
                sched = f"thread A ({t_describe(A_spec)}) parked at its library line event {k} = {loc[0]}+{loc[1]} (visit {visit} of line {T_ABS_LINE.get(tuple(loc), '?')} `{line[:70]}`) while thread B ({t_describe(B_spec)}) made one complete call"
            else:
                sched = f"no preemption, {point}: A = {t_describe(A_spec)}, B = {t_describe(B_spec)}"
            for rel, msg in bad:
                t.fail({"part": "T_two_threads", "relation": rel, "pair": kind, "preemption": preempting}, case, f"{sched}: {msg}")
        if preempting and loc[0] == "union" and visit == 2 and pi == 0:
            t.sample({"part": "T", "thread_A": t_describe(A_spec), "thread_B": t_describe(B_spec), "parked_at": point, "library_line_event": k,
                      "library_lines_of_A_alone": len(ev), "failures": len(bad)}, cap=1)
    h_reload()
    return t


# ============================================================================= enumeration
A1_BOUNDED_FIELDS = ["ramp_a", "ramp_b", "quad_saddle", "bl0"]
A1_PERIODIC_FIELDS = ["per_sin", "per_bl0"]

# 3x4 torus: the full graph (24 edges) has > 10^7 states; masks that leave <= 9 pixels stay below 5*10^4.
# Given as the pixels REMOVED from the 3x4 grid (row-major index).
TORUS_3X4_REMOVED = [
    (8, 9, 10, 11), (4, 5, 6, 7), (0, 1, 2, 3),  # a row removed: rows that remain are still neighbours through the wrap
    (9, 10, 11), (5, 6, 11),  # 9 pixels (~5*10^4 states, ~2.5*10^5 transitions each), rows that wrap horizontally survive
    (0, 4, 8),  # a column removed (9 pixels): no horizontal wrap, vertical 3-cycles
    (0, 4, 8, 2, 6, 10), (1, 5, 9, 3, 7),  # two components / a one-pixel bridge through the wrap
    (5, 6, 9, 10), (0, 3, 8, 11),
]
TORUS_3X4_SECOND_FIELD_MAX_PIXELS = 8  # the second periodic field only on masks with <= 8 pixels (+ the first 9-pixel mask)


def popcount(b):
    return bin(b).count("1")


def a1_configs(ctx):
    cfgs = []

    def allmasks(H, W):
        return range(1, 1 << (H * W))

    def full(H, W):
        return (1 << (H * W)) - 1

    for fn in A1_BOUNDED_FIELDS:
        cfgs += [(2, 2, False, b, fn) for b in allmasks(2, 2)]
        cfgs += [(2, 3, False, b, fn) for b in allmasks(2, 3)]
        cfgs += [(3, 2, False, b, fn) for b in allmasks(3, 2)]
        cfgs += [(2, 4, False, full(2, 4), fn)]
    for fn in A1_PERIODIC_FIELDS:
        cfgs += [(1, 4, True, b, fn) for b in allmasks(1, 4)]
    if ctx.quick:
        cfgs += [(2, 4, False, b, "ramp_a") for b in allmasks(2, 4) if b != full(2, 4)]
    else:
        for fn in A1_BOUNDED_FIELDS:
            cfgs += [(2, 4, False, b, fn) for b in allmasks(2, 4) if b != full(2, 4)]
            cfgs += [(4, 2, False, full(4, 2), fn)]
            cfgs += [(3, 3, False, full(3, 3), fn)]
        cfgs += [(3, 3, False, b, "ramp_a") for b in allmasks(3, 3) if b != full(3, 3)]
        cfgs += [(3, 3, False, b, "bl0") for b in allmasks(3, 3) if popcount(b) == 8]
        for fn in A1_PERIODIC_FIELDS:
            cfgs += [(2, 4, True, full(2, 4), fn)]
            cfgs += [(4, 1, True, b, fn) for b in allmasks(4, 1)]
            for rem in TORUS_3X4_REMOVED:
                if fn != A1_PERIODIC_FIELDS[0] and 12 - len(rem) > TORUS_3X4_SECOND_FIELD_MAX_PIXELS and rem not in TORUS_3X4_REMOVED[3:4]:
                    continue
                cfgs += [(3, 4, True, full(3, 4) & ~sum(1 << p for p in rem), fn)]
        cfgs += [(2, 4, True, b, "per_sin") for b in allmasks(2, 4) if b != full(2, 4)]
        cfgs += [(4, 2, True, full(4, 2), "per_sin")]
    # heaviest first (rough cost model: grows ~5x per active pixel, more with wrap edges)
    cfgs = sorted(set(cfgs), key=lambda c: (-(popcount(c[3]) + (1.5 if c[2] else 0)), c))
    return cfgs


CORE = {
    "bounded": ("ramp_a", "ramp_b", "bump", "bl0"), "bounded_unwrapped": ("ramp_a",),
    "periodic": ("per_sin", "per_bl0"), "periodic_unwrapped": ("per_sin",),
}
EXTENDED = {
    "bounded": tuple(BOUNDED_FIELDS), "bounded_unwrapped": ("ramp_a", "bump", "bl0"),
    "periodic": tuple(PERIODIC_FIELDS), "periodic_unwrapped": ("per_sin", "per_bl0"),
}
QUICK_EXTENDED_SHAPES = ((3, 3), (4, 4), (5, 7), (8, 6), (3, 8), (8, 3))
QUICK_F32_MASKS = ("none", "bridge_col", "frame", "rand0")


def b_lattice(ctx):
    """Structured lattice = union of two Cartesian products: (all shapes x all masks x core fields) and
    (extended shapes x all masks x extended fields); thorough: extended everywhere, both dtypes everywhere."""
    pts = []
    shapes = [(h, w) for h in range(3, 9) for w in range(3, 9)]
    for H, W in shapes:
        ext = (not ctx.quick) or (H, W) in QUICK_EXTENDED_SHAPES
        F = EXTENDED if ext else CORE
        for mn in structured_masks(H, W):
            md = ("name", mn)
            for dtype in ("f64", "f32"):
                if ctx.quick and dtype == "f32" and mn not in QUICK_F32_MASKS:
                    continue
                for fn in F["bounded"]:
                    if ctx.quick and fn in QUICK_DROPPED_FIELDS:
                        continue
                    pts.append((H, W, md, False, fn, "wrapped", dtype))
                for fn in F["bounded_unwrapped"]:
                    pts.append((H, W, md, False, fn, "unwrapped", dtype))
                pts.append((H, W, md, False, ROUGH, "wrapped", dtype))
                for fn in F["periodic"]:
                    if ctx.quick and fn in QUICK_DROPPED_FIELDS:
                        continue
                    pts.append((H, W, md, True, fn, "wrapped", dtype))
                for fn in F["periodic_unwrapped"]:
                    pts.append((H, W, md, True, fn, "unwrapped", dtype))
                pts.append((H, W, md, True, ROUGH, "wrapped", dtype))
    return pts


ALLMASK_COMBOS = (
    (False, "ramp_a", "wrapped", "f64"),
    (False, "bump", "wrapped", "f32"),
    (False, "bl0", "wrapped", "f64"),
    (False, "ramp_b", "unwrapped", "f64"),
    (True, "per_sin", "wrapped", "f64"),
    (True, "per_bl0", "wrapped", "f32"),
)
ALLMASK_COMBOS_QUICK = (
    (False, "ramp_a", "wrapped", "f64"),
    (False, "bl0", "wrapped", "f32"),
    (True, "per_sin", "wrapped", "f64"),
)
ALLMASK_COMBOS_4X4 = (
    (False, "ramp_a", "wrapped", "f64"),
    (False, "bl0", "wrapped", "f32"),
    (True, "per_sin", "wrapped", "f64"),
)


def a2_configs(ctx):
    full23 = (1 << 6) - 1
    cfgs = [(2, 3, full23, "ramp_a")]
    if not ctx.quick:
        cfgs += [(2, 3, full23, "bl0"), (3, 2, full23, "ramp_b"), (3, 2, full23, "quad_saddle"),
                 (3, 3, 0b111101111, "ramp_a")]  # 3x3 ring: 8 edges, 40,320 orders
    return cfgs


def bf_lattice():
    pts = []
    for Hk, Wk in ((6, 6), (7, 9), (8, 5)):
        for bfname in ("rect", "disk", "disk_margin"):
            for subname in ("all", "hole", "split", "rand"):
                for field in ("ramp_a", "bump", "bl0"):
                    for wrap_kw in ("false", "default"):
                        if wrap_kw == "default" and bfname != "disk_margin":
                            continue  # default wrap_around=True: only masks that cannot reach across the border
                        for two_pass in (1, 0):
                            pts.append((Hk, Wk, bfname, subname, field, wrap_kw, two_pass))
    return pts


def poisson_lattice():
    return [(H, W, mn, wrap, lam, dt) for H in range(3, 9) for W in range(3, 9) for mn in ("none", "full", "hole1", "split_col")
            for wrap in (True, False) for lam in (None, 0.01) for dt in ("f64", "f32")]


# ============================================================================= run
def run(ctx):
    S = seam()
    seed = ctx.seed
    ctx.assume(
        "every smooth field of the alphabet is rescaled to a maximum neighbour step of exactly 0.9*pi (checked by the harness), i.e. Itoh's condition with margin 0.1*pi, on all pixels including masked-out ones",
        "with wrap_around=True only fields that are periodic and single-valued on the torus are used, and the step bound includes the wrap-around neighbours",
        "connected regions are 4-connected (periodic when wrap_around=True); masked-out output pixels are not compared",
        "the additive constant is allowed to differ between connected regions (the weaker reading of 'a single constant')",
        "a union of two pixels that already share a root is a self-loop of the state graph (validated exhaustively on the 2x3 graph before the reduction is used)",
        "Poisson method: only 'does not raise' with wrap_around=True",
        "magnitude thresholds are only visible where the alphabet straddles them: wrap counts up to 269 end to end (L), 32,850 on the union-find alone (A3, thorough); larger counts are not explored",
        "concurrency: two threads, one call each, at most ONE preemption, placed at line granularity inside imaging_utils.py frames only (a switch inside a torch kernel or with two or more preemptions is not explored); each schedule starts from a freshly re-imported module",
        "hidden state between calls is looked for in quantem.core.utils.imaging_utils only (re-imported before every call history); histories of 2 (thorough: 3) calls from a 9-call alphabet",
    )
    for m in S.missing:
        ctx.seam_missing.append(m)

    # ---- determinism self-tests
    ctx.selftest(lambda: run_point(5, 6, ("name", "bridge_col"), False, "bl0", "wrapped", "f32", seed)["outcome"])
    ctx.selftest(lambda: run_point(4, 5, ("name", "rand0"), True, "per_bl0", "wrapped", "f64", seed)["outcome"])

    use_a1 = S.cls is not None
    why_not = "UnionFindPhase is not there (or no longer has the union/find_root_and_offset interface)"
    if use_a1:
        def once():
            t = a1_explore((2, 3, False, 63, "ramp_a"), seed=seed, want_keys=True)
            return (t.a1["states"], t.a1["transitions"], t.a1["quiescent"], digest(t.a1["keys"]), t.nfails)

        ctx.selftest(once)
        # validate the no-op-edge reduction: 2x3 (bounded) and 2x2 periodic without it
        for cfg in ((2, 3, False, 63, "ramp_a"), (2, 3, False, 63, "bl0"), (2, 2, True, 15, "per_sin")):
            tv = a1_explore(cfg, seed=seed, reduce_noops=False)
            tr = a1_explore(cfg, seed=seed, reduce_noops=True)
            if tv.extra["A1_noop_edge_changed_state"] or tv.a1["states"] != tr.a1["states"]:
                use_a1 = False
                why_not = "a union inside one component changes the state of this implementation, so the no-op-edge reduction is not valid"
                ctx.seam_missing.append("UnionFindPhase (a union inside one component is not a no-op any more: merge-order BFS skipped)")
                break
            ctx.coverage["A1_noop_edges_confirmed_selfloops"] = ctx.coverage.get("A1_noop_edges_confirmed_selfloops", 0) + int(tv.extra["A1_selfloops_validated"])

    # ---- A1
    a1 = Tally()
    if use_a1:
        cfgs = a1_configs(ctx)
        ctx.say(f"A1: {len(cfgs)} (grid, mask, field) configurations, every merge order each")
        a1 = ctx.pmap(a1_worker, cfgs, chunk=1, label="A1 merge-order BFS", seed=seed)
        if a1.extra["A1_states"] < 1000 or a1.extra["A1_configs_with_wrapping_edge"] < 10:
            raise Broken(f"A1 state space suspiciously small ({a1.extra['A1_states']} states)")
    else:
        ctx.say(f"A1 skipped: {why_not}; the forced-order fallback (A2) and the end-to-end parts decide")

    # ---- A2
    order_seam = a2_validate_order_seam(seed)
    a2 = Tally()
    if order_seam is False:
        ctx.seam_missing.append("torch.Tensor.argsort order seam (the unwrapper no longer sorts its edges through argsort)")
        ctx.say("A2 skipped: forced edge order does not reach the union loop")
    else:
        items = []
        for cfg in a2_configs(ctx):
            nE = len(mirror_edges(cfg[0], cfg[1], False, bits_to_mask(cfg[2], cfg[0], cfg[1])))
            items += [(cfg, pre) for pre in itertools.permutations(range(nE), 2)]
        a2 = ctx.pmap(a2_worker, items, chunk=1, label="A2 forced orders", seed=seed)
        if a2.extra["A2_order_seam_not_hit"]:
            # those runs were ordinary end-to-end calls in the natural order: their verdicts stand, the coverage claim does not
            ctx.seam_missing.append(f"torch.Tensor.argsort order seam not hit exactly once in {int(a2.extra['A2_order_seam_not_hit'])} of {int(a2.extra['A2_orders'])} forced-order runs")
        ctx.coverage["A2_order_seam_validated_against_union_calls"] = bool(order_seam)

    # ---- B
    for H in range(3, 9):
        for W in range(3, 9):
            for mn in structured_masks(H, W):
                m = named_mask(mn, H, W, seed)
                for wrap in (False, True):
                    check_component_oracle(np.ones((H, W), bool) if m is None else m, wrap, f"{H}x{W} mask={mn} wrap={wrap}")
    pts = b_lattice(ctx)
    ctx.say(f"B: {len(pts)} structured lattice points")
    b1 = ctx.pmap(b_point, pts, label="B lattice", seed=seed)
    grids = [(3, 4, ALLMASK_COMBOS_QUICK if ctx.quick else ALLMASK_COMBOS)]
    if not ctx.quick:
        grids += [(4, 3, ALLMASK_COMBOS), (4, 4, ALLMASK_COMBOS_4X4)]
    nall = {}
    for H, W, combos in grids:
        total = 1 << (H * W)
        step = 64 if total <= 4096 else 256
        chunks = [(a, min(a + step, total)) for a in range(1, total, step)]
        chunks[0] = (1, chunks[0][1])
        r = ctx.pmap(allmask_points, chunks, chunk=1, label=f"B every mask {H}x{W}", H=H, W=W, combos=combos, seed=seed)
        nall[f"{H}x{W}"] = {"masks": total - 1, "combos": [list(c) for c in combos], "calls": int(r.extra["B_calls"])}
        if r.extra["B_calls"] != (total - 1) * len(combos):
            raise Broken(f"every-mask enumeration {H}x{W} incomplete: {r.extra['B_calls']} calls")

    # ---- L: long steep fields straddling the integer-type boundaries of the wrap count
    lpts = long_lattice(ctx)
    lt = ctx.pmap(long_point, lpts, chunk=1, label="L long steep fields", seed=seed)
    if lt.extra["L_wrap_span_128_255"] < 4 or lt.extra["L_wrap_span_256_32767"] < 4 or lt.extra["L_wrap_span_le127"] < 2:
        raise Broken("L: the long fields do not straddle the 127/128 and 255/256 wrap-count boundaries")

    # ---- A3: long chains on the real union-find
    if S.cls is not None:
        chains = [(N, o, sg) for N in (300, 600) for o in A3_ORDERS for sg in (1, -1)]
        if not ctx.quick:
            chains = [(73000, "left_to_right", 1)] + chains  # wrap count 32,850: beyond a signed 16-bit integer
        ctx.pmap(a3_worker, chains, chunk=1, label="A3 long chains", seed=seed)

    # ---- H: call histories
    for c in h_alphabet():
        if c[0] == "seam_disc_periodic":  # the seam case must be able to tell bounded from periodic edges
            truth, mask, _, _, _ = h_build(c, seed)
            kk = wrap_counts(truth)[1]
            lab_b, nb = components(mask, False)
            lab_p, npc = components(mask, True)
            per_piece = [set(kk[lab_b == i].tolist()) for i in range(1, nb + 1)]
            if npc != 1 or nb < 2 or any(len(v) != 1 for v in per_piece) or len(set.union(*per_piece)) < 2 or max_step(truth, True) > 0.9001 * math.pi:
                raise Broken(f"H: seam-disc case {c} is degenerate (pieces {nb}, periodic regions {npc}, wrap counts per piece {per_piece})")
    hitems = [[]] + [[c] for c in h_alphabet()]
    if not ctx.quick:
        hitems += [[a, b] for a in h_alphabet() for b in h_alphabet()]
    ht = ctx.pmap(h_worker, hitems, chunk=1, label="H call histories", seed=seed)
    h_depth = 4 if ctx.quick else 5  # deeper histories over the 4-call core alphabet {2 shapes} x {bounded, periodic}
    ht.merge(ctx.pmap(h_deep_worker, [[a, b] for a in h_core_alphabet() for b in h_core_alphabet()], chunk=1, label=f"H histories of length {h_depth} (core alphabet)", seed=seed, depth=h_depth))
    h_reload()

    # ---- T: two threads, one preemption
    T_CHUNKS = 4 if ctx.quick else 8
    titems = [(pi, c, T_CHUNKS) for pi in range(len(t_pairs(ctx.quick))) for c in range(T_CHUNKS)]
    tt = ctx.pmap(t_worker, titems, chunk=1, label="T two-thread schedules", seed=seed, quick=ctx.quick)
    if tt.extra["T_schedules_with_preemption"] < 500 or tt.extra["T_preemptions_in_union"] < 20 or tt.extra["T_schedules_same_shape"] < 100:
        raise Broken(f"T: degenerate schedule enumeration ({int(tt.extra['T_schedules'])} schedules)")
    ctx.say(f"T: {int(tt.extra['T_schedules'])} schedules ({int(tt.extra['T_schedules_with_preemption'])} with one preemption) over {len(t_pairs(ctx.quick))} ordered field pairs; "
            f"{int(tt.extra['T_schedules_replayed_identically'])} replayed and identical")
    h_reload()

    # ---- Y: memory layout / dtype / container spellings of the input and the mask
    yt = ctx.pmap(y_worker, y_lattice(ctx), chunk=1, label="Y input spellings", seed=seed)
    if len(yt.nontrivial) < 200 or yt.extra["Y_accepted_transposed_view"] < 10:
        raise Broken(f"Y: degenerate spelling lattice ({len(yt.nontrivial)} non-trivial calls)")
    ctx.say("Y: spellings rejected on this tree (counted, not judged): " + (", ".join(f"{k[len('Y_rejected_'):]}={v}" for k, v in sorted(yt.extra.items()) if k.startswith("Y_rejected_")) or "none")
            + "; not constructible in torch: " + (", ".join(f"{k[len('Y_not_constructible_'):]}={v}" for k, v in sorted(yt.extra.items()) if k.startswith("Y_not_constructible_")) or "none"))

    # ---- BF
    if S.bf is not None:
        ctx.pmap(bf_point, bf_lattice(), label="BF masked embedding", seed=seed)
    else:
        ctx.seam_missing.append("unwrap_bf_overlap_phase_torch")

    # ---- P
    ctx.pmap(poisson_point, poisson_lattice(), label="P poisson", seed=seed)

    T = ctx.tally
    ctx.say("worst deviation from the oracle per call, by decade (rad): " + ", ".join(f"{k}={v}" for k, v in sorted(T.extra.items()) if "_dev_" in k))
    states = int(T.extra["A1_states"])
    transitions = int(T.extra["A1_transitions"])
    if use_a1:
        # BFS keys only when the BFS ran; without them the evidence falls under the generic (evaluations) rules
        ctx.coverage.update(states=states, transitions=transitions, traces_validated_against_impl=transitions + int(T.extra["A2_orders"]))
    ctx.coverage.update(
        evaluations=T.n,
        distinct_nontrivial=len(T.nontrivial) + int(T.extra["A1_states_nontrivial"]),
        exhaustive=True,
        bounds={
            "A1_graphs": sorted({f"{c[0]}x{c[1]}{'p' if c[2] else ''}" for c in a1_configs(ctx)}) if use_a1 else [],
            "A1_torus_3x4_masks_removed_pixels": [list(r) for r in TORUS_3X4_REMOVED] if (use_a1 and not ctx.quick) else [],
            "A2_graphs": [list(c) for c in a2_configs(ctx)] if order_seam is not False else [],
            "B_shapes": "{3..8}^2",
            "B_every_mask": nall,
            "itoh_max_neighbour_step": "0.9*pi",
            "tolerance_rad": TOL,
            "L_shapes": [list(x) for x in long_shapes()], "L_points": len(lpts), "L_tolerance": "max(2e-3, 32*eps32*field range), <= 0.3 rad",
            "L_wrap_count_boundaries_straddled": ["127/128", "255/256"],
            "L_boundary_32767_32768": "not explored end to end (needs a 1 x 73,000 grid whose tree root is at one end); reached in A3 only, thorough tier",
            "A3_chains": [300, 600] + ([] if ctx.quick else [73000]), "A3_orders": list(A3_ORDERS),
            "H_call_alphabet": [[c[0], list(c[1])] for c in h_alphabet()], "H_history_length": 2 if ctx.quick else 3,
            "H_core_alphabet": [[c[0], list(c[1])] for c in h_core_alphabet()], "H_core_history_length": 4 if ctx.quick else 5,
            "H_histories": int(ht.extra["H_histories"]),
            "Y_points": [list(x) for x in y_lattice(ctx)[:3]] + ["..."], "Y_grid_points": len(y_lattice(ctx)), "Y_calls": int(yt.extra["Y_calls"]),
            "Y_phase_spellings": ["c_f32 (canonical)"] + list(Y_PHASE_F32 + Y_PHASE_OTHER), "Y_mask_spellings": ["bool (canonical)"] + list(Y_MASKS),
            "Y_must_accept": sorted(Y_MUST_ACCEPT),
            "T_ordered_field_pairs": [[t_describe(a), t_describe(b), t_pair_kind(a, b)] for a, b in t_pairs(ctx.quick)],
            "T_visit_numbers_per_code_location": list(T_VISITS_QUICK if ctx.quick else T_VISITS_THOROUGH) + ["last"],
            "T_schedules": int(tt.extra["T_schedules"]), "T_schedules_with_one_preemption": int(tt.extra["T_schedules_with_preemption"]),
            "T_schedules_replayed_identically": int(tt.extra["T_schedules_replayed_identically"]), "T_preemption_bound": 1, "T_threads": 2,
        },
        alphabet={
            "A1_fields_bounded": A1_BOUNDED_FIELDS, "A1_fields_periodic": A1_PERIODIC_FIELDS,
            "B_fields_core": {k: list(v) for k, v in CORE.items()},
            "B_fields_extended": {k: [f for f in v if not (ctx.quick and f in QUICK_DROPPED_FIELDS)] for k, v in EXTENDED.items()},
            "B_extended_shapes": [list(x) for x in QUICK_EXTENDED_SHAPES] if ctx.quick else "all",
            "B_f32_masks": list(QUICK_F32_MASKS) if ctx.quick else "all", "B_field_arbitrary": ROUGH,
            "B_masks": structured_masks(8, 8), "B_input": ["wrapped", "unwrapped"], "B_dtype": ["f64", "f32"],
            "wrap_around": [False, True],
        },
    )
    if len(b1.nontrivial) < 100 or len(b1.outcomes) < 20:
        raise Broken(f"B lattice degenerate: {len(b1.nontrivial)} non-trivial points, {len(b1.outcomes)} outcomes")


# ============================================================================= replay
def replay(ctx, case):
    S = seam()
    part = case["part"]
    seed = case.get("seed", ctx.seed)
    if part == "A1":
        if S.cls is None:
            print("  UnionFindPhase seam not present on this tree: nothing to replay")
            return
        cfg = (case["H"], case["W"], case["wrap"], case["mask_bits"], case["field"])
        su = a1_setup(cfg, seed)
        N = case["H"] * case["W"]
        print("  true wrap counts:", su["kk"])
        for a, b, inc, true_inc in su["label_bad"]:
            ctx.fail({"part": "A1_merge_orders", "relation": "edge_label_equals_true_wrap_difference", "wrap_around": bool(case["wrap"])}, case,
                     f"_find_wrap labels edge ({a},{b}) with {inc}, true wrap-count difference is {true_inc}")
        uf = S.make(N)
        done = []
        label = {(a, b): inc for a, b, inc in su["events"]}  # labels as THIS tree computes them, not as recorded
        for a, b, inc_recorded in case["history"]:
            inc = label.get((a, b), inc_recorded)
            if inc != inc_recorded:
                print(f"  edge ({a},{b}): this tree labels it {inc}, the recording tree labelled it {inc_recorded}")
            uf.union(a, b, inc)
            done.append((a, b, inc))
            roots, bad = inspect_state(uf, N, su["kk"], S.final)
            print(f"  after union{(a, b, inc)}: state {state_key(uf)}")
            for rel, msg in bad:
                ctx.fail({"part": "A1_merge_orders", "relation": rel, "wrap_around": bool(case["wrap"])}, case, f"after unions {done}: {msg}")
        if not case["history"] and not su["label_bad"]:
            t = a1_explore(cfg, seed=seed)
            for f in t.fails:
                ctx.fail(f["cls"], case, f["msg"])
    elif part == "A2":
        cfg = (case["H"], case["W"], case["mask_bits"], case["field"])
        bad, _, outcome, worst, calls = a2_run(cfg, tuple(case["perm"]), seed)
        print(f"  forced order {case['perm']}: argsort seam hit {calls}x, outcome {outcome}, worst deviation {worst:.3g} rad")
        for rel, msg in bad:
            ctx.fail({"part": "A2_forced_order", "relation": rel, "wrap_around": False}, case, msg)
    elif part == "B":
        md = tuple(case["mask"])
        r = run_point(case["H"], case["W"], md, case["wrap"], case["field"], case["kind"], case["dtype"], seed)
        mask = resolve_mask(md, case["H"], case["W"], seed)
        print("  mask:\n" + ("  (none)" if mask is None else "\n".join("   " + "".join("#" if v else "." for v in row) for row in mask)))
        print(f"  components {r['outcome'][0] if isinstance(r['outcome'], tuple) else r['outcome']}, worst deviation {r['worst']:.3g} rad, expected <= {TOL}")
        for rel, msg in r["bad"]:
            ctx.fail({"part": "B_end_to_end", "relation": rel, "wrap_around": bool(case["wrap"])}, case, msg)
    elif part == "L":
        pt = case["pt"]
        r = long_run(pt[0], pt[1], pt[2], pt[3], pt[4], pt[5])
        print(f"  true wrap count spans {r['span']} inside one region; worst deviation {r['worst']:.4g} rad, tolerance {r['tol']:.3g} rad")
        for rel, msg in r["bad"]:
            ctx.fail({"part": "L_long_steep_fields", "relation": rel, "wrap_around": bool(pt[3])}, case, msg)
    elif part == "A3":
        if S.cls is None:
            print("  UnionFindPhase seam not present on this tree: nothing to replay")
            return
        print(f"  union-find built as the unwrapper builds it: extra arguments {S.ctor_extra}")
        t = a3_worker((case["N"], case["order"], case["sign"]), seed=seed)
        for f in t.fails:
            ctx.fail(f["cls"], case, f["msg"])
    elif part == "H":
        hist = [(c[0], tuple(c[1])) for c in case["history"]]
        bad = h_run_history(hist, seed)
        alone = h_run_history(hist[-1:], seed)
        h_reload()
        print(f"  last call after the history: {len(bad)} failure(s); the same call alone in a fresh module: {len(alone)} failure(s)")
        for rel, msg in bad:
            ctx.fail({"part": "H_call_history", "relation": rel, "last_call": hist[-1][0]}, case, f"history {case['history']}: [{rel}] {msg}")
    elif part == "T":
        t = t_worker((0, 0, 1), seed=seed, quick=True, only=case)
        print(f"  schedule {case['point']}: {int(t.extra['T_schedules'])} schedule(s) executed, {int(t.extra['T_schedules_replayed_identically'])} replayed identically")
        if not t.extra["T_schedules"]:
            print("  this tree does not pass the recorded code location (different code): nothing to replay")
        for f in t.fails:
            ctx.fail(f["cls"], case, f["msg"])
    elif part == "Y":
        pt = case["pt"]
        t = y_worker((pt[0], pt[1], pt[2], pt[3], pt[4]), seed=seed, only=case["spelling"])
        print(f"  spelling {case['spelling']}: {int(t.extra['Y_calls'])} call(s), " + ", ".join(f"{k}={v}" for k, v in sorted(t.extra.items()) if k.startswith(("Y_rejected", "Y_accepted", "Y_not"))))
        for f in t.fails:
            ctx.fail(f["cls"], case, f["msg"])
    elif part == "BF":
        if S.bf is None:
            print("  unwrap_bf_overlap_phase_torch not present on this tree")
            return
        t = bf_point(tuple(case["pt"]), seed=seed)
        for f in t.fails:
            ctx.fail(f["cls"], case, f["msg"])
    elif part == "P":
        pt = case["pt"]
        t = poisson_point((pt[0], pt[1], pt[2], pt[3], pt[4], pt[5]), seed=seed)
        for f in t.fails:
            ctx.fail(f["cls"], case, f["msg"])
    else:
        raise Broken(f"unknown replay part {part!r}")
