"""C19 — configuration store is a last-writer-wins nested map; refresh restores defaults.

Shape H (operation histories), level model_checking: explicit-state BFS over the *real* module
globals `quantem.core.config.config` / `.defaults`, every transition executed on the real
functions (set / update_defaults / refresh / set_device / `with set(...)`) and on a boring
reference model (nested dict with '-'/'_' normalised keys + list of default layers); after every
transition `get` is asked for every key of the universe in both spellings.

State = (config, defaults-beyond-import). Canonical form = JSON of both with sorted keys (fine:
spelling of keys is kept, nothing the property can observe is dropped).
"""
from __future__ import annotations

import copy
import json
import pickle
import warnings

from mc.explore import BfsResult
from mc.harness import Tally, digest

LEVEL = "model_checking"
TECHNIQUE = "explicit-state BFS over operation histories on the real module globals, canonical-state dedup, dict reference model compared on every transition"
CLAIM = (
    "Every history of set / update_defaults / refresh / device requests / with-set events up to depth 3 over the full alphabet (both tiers) and, in the thorough tier, up to depth 4 over the core alphabet (the events without the round-6 key / value content members) "
    "from the import-time state is executed on the real config module; after every transition get() on the "
    "whole key universe in both '-'/'_' spellings equals a nested-dict reference model, refresh equals the merge of the "
    "accumulated defaults, rejected device requests leave device and store unchanged, and leaving `with set(...)` restores "
    "the pre-entry values (also when one call writes the same entry twice, and for keys up to four levels deep); deeper histories are covered by deviation bounding (length 8, at most 1/2 positions replaced by any other event). Model checking is the right level because the property is about every history of a small state machine."
    ' The alphabet also holds ties (setting the value a later block writes; equal values of another type, compared with their types), with-blocks whose body runs update_defaults / refresh / a plain set on the same key / a nested block / raises, and the reference model carries the undo log the documentation describes.'
    " The alphabet also holds keys that differ from another key in case only, numeric-looking and non-ASCII keys, falsy values (0, '', False) as values and defaults, and a BaseException that is no Exception leaving a with-block."
)
NOTE = (
    "Trusted: the reference model in checks/C19.py (about 60 lines), the event alphabet (about 80 events over a 25-key universe) and the "
    "depth bound; CPU-only sandbox, so accepted accelerator requests are not reachable; user and default value domains are disjoint."
)
RULE = (
    "BFS with canonical-state dedup over all histories of config events up to the stated depth from the "
    "import-time state; every transition is compared with a dict reference model through get() on the "
    "whole key universe in both spellings. A transition is non-trivial when it changes the canonical state."
)

# ----------------------------------------------------------------------------- alphabet
KEYS = ["vb", "a.b", "a.c", "x-y", "x_y", "a.x-y", "a.x_y"]
UNIVERSE = [
    "vb", "a", "a.b", "a.c", "a.d", "a.e", "a.z", "x-y", "a.x-y", "n", "n.p", "n.p.q", "n.p.r",
    "new", "new.k", "device", "verbose", "viz.cmap", "mkl.threads", "cupy.fft-cache-size", "d-e.f-g",
    "viz.colors.set", "viz.colors", "deep.l2.l3.l4", "deep.l2",
    "VB", "k é", "1",
]
DEVICES = ["cpu", "cpu:1", None, "gpu", "cuda:0", "cuda:9", "mps", "tpu", -1, 3.5, "cuda:x", 0, "CPU", ""]


def build_events():
    ev = []
    for k in KEYS:
        for v in (1, 2):
            ev.append(("set", k, v))
    ev += [("set", "vb", "s"), ("set", "vb", None), ("set", "n.p.r", 2), ("set", "d_e.f_g", 1), ("set", "d-e.f-g", 2)]
    ev += [("setkw", "a__d", 1), ("setkw", "x_y", 2), ("setkw", "mkl__threads", 1)]
    ev += [("setmap", ["vb", "a.b"], [2, 2]), ("setmap", ["a.x_y", "a.x-y"], [1, 2])]
    ev += [("setnested", "a", {"e": 1}), ("setnested", "n", {"p": {"q": 1}}), ("setnested", "a", {"x-y": 2})]
    ev += [
        ("dflt", {"vb": 10}),
        ("dflt", {"a": {"b": 10}}),
        ("dflt", {"a": {"z": 20}}),
        ("dflt", {"x-y": 10}),
        ("dflt", {"x_y": 20}),
        ("dflt", {"new": {"k": 10}}),
        ("dflt", {"a": {"b": 20, "c": 10}}),
        # defaults three and four levels deep (the shipped yaml has viz.colors.set at depth 3)
        ("dflt", {"n": {"p": {"q": 10}}}),
        ("dflt", {"deep": {"l2": {"l3": {"l4": 10}}}}),
        ("set", "viz.colors.set", 1),
        ("set", "deep.l2.l3.l4", 1),
        ("set", "n.p.q", 2),
        ("refresh",),
    ]
    ev += [("dev", d) for d in DEVICES]
    ev += [("devkw", "tpu"), ("devfn", "cuda:0"), ("devfn", "cpu"), ("devmap", "tpu"), ("devdflt", "tpu")]
    # ties: a plain set to the very value a later with-block writes (an undo record must not depend on whether the value
    # changes), and equal values of another type (True == 1 == 1.0: the LAST one written must come back, type included)
    ev += [("set", "vb", 5), ("set", "a.b", 5), ("set", "vb", True), ("set", "vb", 1.0)]
    withs = [{"vb": 5}, {"a.b": 5}, {"w.new": 5}, {"x_y": 5}, {"vb": 5, "a.c": 6}]
    # inside the block: nothing / a disjoint key / the same leaf through a plain set / the other entry points that write
    # configuration (update_defaults on the first key of the block, refresh)
    # ... a nested with-block (same key / another key), and an exception raised inside the block (exit must still restore)
    inners = [None, ("set", "q", 1), "same", "dflt_same", ("refresh",), ("with", {"vb": 6}, None), ("with", {"a.b": 6}, "same"), "raise"]
    for w in withs:
        for i in inners:
            if i == ("refresh",) and any(k.startswith("w.") for k in w):
                continue  # refresh drops the freshly inserted parent; what exit then restores is not prescribed
            ev.append(("with", w, i))
    # one call writing the same entry twice: two spellings, mapping + keyword form, dotted key + parent mapping
    ev += [
        ("with", {"x_y": 5, "x-y": 6}, None),
        ("with", {"vb": 5}, None, {"vb": 7}),
        ("with", {"a.b": 8, "a": {"b": 16}}, None),
        ("with", {"w.k": 1}, None, {"w__k": 2}),
    ]
    ev.append(("__core_end__",))
    # content of keys and values: keys that differ from another key only in CASE (distinct entries: only '-' and '_' are one
    # spelling), keys that look like numbers / hold a space / are not ASCII, FALSY values (0, "", False, an empty mapping
    # is left out: what get returns for it is not prescribed), and a BaseException that is no Exception leaving a block
    ev += [("set", "VB", 1), ("set", "k é", 1), ("set", "1", 1)]
    ev += [("set", "vb", 0), ("set", "vb", ""), ("set", "vb", False)]
    ev += [("dflt", {"vb": 0}), ("dflt", {"VB": 10})]
    ev += [("with", {"vb": 0}, None), ("with", {"VB": 5}, None), ("with", {"vb": 5}, "raise_base"), ("with", {"a.b": 0, "vb": ""}, "raise_base")]
    return ev


_ALL = build_events()
_CUT = _ALL.index(("__core_end__",))
CORE_EVENTS = _ALL[:_CUT]  # the alphabet explored one level deeper in the thorough tier
EVENTS = _ALL[:_CUT] + _ALL[_CUT + 1 :]


# ----------------------------------------------------------------------------- reference model
def norm(k):
    return k.replace("-", "_")


def norm_tree(v):
    if isinstance(v, dict):
        return {norm(k): norm_tree(x) for k, x in v.items()}
    return v


class Model:
    """Nested dict with normalised keys + list of default layers (normalised)."""

    def __init__(self, cfg, dfl):
        self.cfg = norm_tree(copy.deepcopy(cfg))
        self.dfl = [norm_tree(copy.deepcopy(d)) for d in dfl]

    def copy(self):
        m = Model.__new__(Model)
        m.cfg = copy.deepcopy(self.cfg)
        m.dfl = copy.deepcopy(self.dfl)
        return m

    def set(self, key, value):
        parts = [norm(p) for p in key.split(".")]
        d = self.cfg
        for p in parts[:-1]:
            if p not in d:
                d[p] = {}
            d = d[p]
        d[parts[-1]] = norm_tree(copy.deepcopy(value))

    def get(self, key):
        d = self.cfg
        for p in key.split("."):
            d = d[norm(p)]  # KeyError/TypeError = absent
        return d

    def delete(self, key):
        parts = [norm(p) for p in key.split(".")]
        d = self.cfg
        for p in parts[:-1]:
            d = d[p]
        d.pop(parts[-1], None)

    @staticmethod
    def _merge_into(res, layer):
        for k, v in layer.items():
            if isinstance(v, dict):
                if not isinstance(res.get(k), dict):
                    res[k] = {}
                Model._merge_into(res[k], v)
            else:
                res[k] = copy.deepcopy(v)

    def merged_defaults(self):
        res = {}
        for layer in self.dfl:
            Model._merge_into(res, layer)
        return res

    def update_defaults(self, new):
        new = norm_tree(copy.deepcopy(new))
        cur = self.merged_defaults()
        self.dfl.append(new)

        def rec(old, nw, cur):
            for k, v in nw.items():
                if isinstance(v, dict):
                    if not isinstance(old.get(k), dict):
                        old[k] = {}
                    rec(old[k], v, cur.get(k) if isinstance(cur, dict) and isinstance(cur.get(k), dict) else {})
                else:
                    # a user-set value survives; a value still equal to the current default follows the new default
                    if k not in old or (isinstance(cur, dict) and k in cur and cur[k] == old[k]):
                        old[k] = copy.deepcopy(v)

        rec(self.cfg, new, cur)

    def refresh(self):
        self.cfg = self.merged_defaults()


def device_expectation(d):
    """What a device request must do on this machine: ('store', value) or ('reject',)."""
    import torch

    cuda = torch.cuda.is_available()
    mps = torch.mps.is_available() if hasattr(torch, "mps") else False
    if cuda or mps:
        return None  # accelerator present: expectations below would be wrong, handled by caller
    if isinstance(d, str) and d.lower().startswith("cpu"):
        return ("store", "cpu")  # "cpu", "CPU", "cpu:1" all denote the one CPU device
    if d is None:
        return ("store", "cpu")
    return ("reject",)


# ----------------------------------------------------------------------------- implementation driver
class Impl:
    def __init__(self):
        warnings.simplefilter("ignore")
        from quantem.core import config as C

        self.C = C
        self.base_cfg = copy.deepcopy(C.config)
        self.base_dfl = copy.deepcopy(C.defaults)
        self.nbase = len(C.defaults)

    def restore_base(self):
        C = self.C
        C.config.clear()
        C.config.update(copy.deepcopy(self.base_cfg))
        C.defaults[:] = copy.deepcopy(self.base_dfl)

    def dump(self):
        return pickle.dumps((self.C.config, self.C.defaults), protocol=pickle.HIGHEST_PROTOCOL)

    def load(self, blob):
        cfg, dfl = pickle.loads(blob)
        C = self.C
        C.config.clear()
        C.config.update(cfg)
        C.defaults[:] = dfl

    def canon(self):
        return digest(json.dumps([self.C.config, self.C.defaults[self.nbase :]], sort_keys=True, default=repr).encode())

    def get(self, key):
        try:
            return ("ok", copy.deepcopy(self.C.get(key)))
        except (KeyError, TypeError, IndexError):
            return ("absent",)


SENT = ("absent",)


def model_get(m, key):
    try:
        return ("ok", m.get(key))
    except (KeyError, TypeError, IndexError):
        return SENT


def typed(v):
    """Values with their types: True, 1 and 1.0 are equal but not the same configuration value."""
    if isinstance(v, dict):
        return {k: typed(x) for k, x in v.items()}
    if isinstance(v, (list, tuple)):
        return (type(v).__name__, [typed(x) for x in v])
    return (type(v).__name__, v)


def observe_and_compare(I, M, where, fails):
    """get() for every key of the universe in both spellings vs the model; whole-tree comparison."""
    for k in UNIVERSE:
        for spelled in {k, k.replace("-", "_"), k.replace("_", "-")}:
            got = I.get(spelled)
            exp = model_get(M, spelled)
            if got[0] == "ok":
                got = ("ok", norm_tree(got[1]))
            if typed(got) != typed(exp):
                fails.append(({"relation": "get_equals_model"}, f"{where}: get({spelled!r}) = {got!r}, reference model says {exp!r}"))
                return
    if typed(norm_tree(I.C.config)) != typed(M.cfg):
        fails.append(({"relation": "tree_equals_model"}, f"{where}: config tree {norm_tree(I.C.config)!r} != model {M.cfg!r}"))
    # no key may be stored twice under two spellings
    def dup(d, path=""):
        if isinstance(d, dict):
            seen = {}
            for k in d:
                n = norm(k)
                if n in seen:
                    return f"{path}{seen[n]!r} and {path}{k!r}"
                seen[n] = k
                r = dup(d[k], f"{path}{k}.")
                if r:
                    return r
        return None

    r = dup(I.C.config)
    if r:
        fails.append(({"relation": "one_entry_per_key"}, f"{where}: the same key is stored under two spellings: {r}"))


class _InsideBlock(Exception):
    pass


class _InsideBlockBase(BaseException):
    """Like KeyboardInterrupt / SystemExit: not an Exception."""


def apply_event(I, M, ev, fails, where):
    """Apply one event to implementation and model; append (cls, msg) to fails. An exception raised by the library
    for a well-formed request (anything but a rejected device) is a verdict, not a harness error."""
    try:
        _apply_event(I, M, ev, fails, where)
    except Exception as e:  # noqa: BLE001
        fails.append(({"relation": "valid_request_raises", "event": str(ev[0])}, f"{where}: {ev[0]} raised {type(e).__name__}: {str(e)[:200]}"))


def _apply_event(I, M, ev, fails, where):
    C = I.C
    t = ev[0]
    if t == "set":
        C.set({ev[1]: ev[2]})
        M.set(ev[1], ev[2])
    elif t == "setkw":
        C.set(**{ev[1]: ev[2]})
        M.set(ev[1].replace("__", "."), ev[2])
    elif t == "setmap":
        C.set(dict(zip(ev[1], ev[2])))
        for k, v in zip(ev[1], ev[2]):
            M.set(k, v)
    elif t == "setnested":
        C.set({ev[1]: copy.deepcopy(ev[2])})
        M.set(ev[1], ev[2])
    elif t == "dflt":
        C.update_defaults(copy.deepcopy(ev[1]))
        M.update_defaults(ev[1])
    elif t == "refresh":
        C.refresh()
        M.refresh()
        if norm_tree(C.config) != M.merged_defaults():
            fails.append(({"relation": "refresh_equals_accumulated_defaults"}, f"{where}: after refresh config != merge of accumulated defaults"))
    elif t in ("dev", "devkw", "devfn", "devmap", "devdflt"):
        d = ev[1]
        exp = device_expectation(d)
        before_dev = I.get("device")
        before = I.canon()
        raised = None
        try:
            if t == "dev":
                C.set({"device": d})
            elif t == "devkw":
                C.set(device=d)
            elif t == "devfn":
                C.set_device(d)
            elif t == "devmap":
                C.set({"vb": 7, "device": d})
            elif t == "devdflt":
                C.update_defaults({"device": d})
        except Exception as e:  # any exception class counts as a rejection
            raised = e
        if exp is None:
            return
        if exp[0] == "reject":
            if raised is None:
                fails.append(({"relation": "bad_device_rejected"}, f"{where}: device request {d!r} via {t} was accepted; get('device') = {I.get('device')!r}"))
            if I.get("device") != before_dev:
                fails.append(({"relation": "rejected_device_leaves_device_unchanged"}, f"{where}: rejected device request {d!r} via {t} changed device {before_dev!r} -> {I.get('device')!r}"))
            if t == "devmap":
                # the other key of the mapping may legitimately have been written before the rejection
                try:
                    M.cfg["vb"] = copy.deepcopy(C.config["vb"])
                except KeyError:
                    M.cfg.pop("vb", None)
            elif t == "devdflt":
                if len(C.defaults) != len(M.dfl) :
                    fails.append(({"relation": "rejected_device_leaves_defaults_unchanged"}, f"{where}: rejected default device {d!r} was recorded in defaults"))
            elif I.canon() != before:
                fails.append(({"relation": "rejected_device_leaves_config_unchanged"}, f"{where}: rejected device request {d!r} changed the configuration"))
        else:
            if raised is not None:
                fails.append(({"relation": "good_device_accepted"}, f"{where}: device request {d!r} raised {raised!r}"))
            else:
                M.set("device", exp[1])
    elif t == "with":
        # ("with", mapping, inner[, kwargs]): `with set(mapping, **kwargs): inner`. The same entry may be written
        # more than once inside one call (two spellings, mapping + keyword form, dotted key + parent mapping).
        w, inner = ev[1], ev[2]
        kw = ev[3] if len(ev) > 3 else {}
        writes = list(w.items()) + [(k.replace("__", "."), v) for k, v in kw.items()]
        keys = [k for k, _ in writes]
        pre = {k: copy.deepcopy(model_get(M, k)) for k in keys}
        # the model keeps the undo log the documentation describes: per write, the old value of the leaf, or — when an
        # ancestor did not exist — the fact that this ancestor was inserted; exit undoes the log newest-first
        record = []
        for k, v in writes:
            parts = [norm(p_) for p_ in k.split(".")]
            d, missing = M.cfg, None
            for i_, p_ in enumerate(parts):
                if not isinstance(d, dict) or p_ not in d:
                    missing = parts[: i_ + 1]
                    break
                d = d[p_]
            record.append(("insert", missing, None) if missing is not None else ("replace", parts, copy.deepcopy(d)))
            M.set(k, v)
        if inner in ("raise", "raise_base"):
            inner_ev = None
        elif inner == "same":
            inner_ev = ("set", keys[0], 9)
        elif inner == "dflt_same":
            nested = 10
            for p_ in reversed(keys[0].split(".")):
                nested = {p_: nested}
            inner_ev = ("dflt", nested)
        else:
            inner_ev = inner
        try:
            with C.set(copy.deepcopy(w), **copy.deepcopy(kw)):
                for k in keys:
                    got = I.get(k)
                    g = ("ok", norm_tree(got[1])) if got[0] == "ok" else got
                    if typed(g) != typed(model_get(M, k)):
                        fails.append(({"relation": "with_sets_inside"}, f"{where}: inside `with set({w}, **{kw})` get({k!r}) = {got!r}, last writer says {model_get(M, k)!r}"))
                if inner == "raise":
                    raise _InsideBlock()
                if inner == "raise_base":
                    raise _InsideBlockBase()
                if inner_ev is not None:
                    _apply_event(I, M, inner_ev, fails, where + f" inside with set({w})")
        except (_InsideBlock, _InsideBlockBase):
            pass  # the exception left the block through __exit__, which must have restored the entries (checked below)
        except TypeError as e:
            fails.append(({"relation": "with_protocol"}, f"{where}: `with config.set({w}, **{kw})` raised {e!r}"))
            # the model follows what a failed `with` leaves behind: the plain assignments
            return
        for op, parts, old in reversed(record):
            d = M.cfg
            if op == "replace":
                for p_ in parts[:-1]:
                    d = d.setdefault(p_, {})
                d[parts[-1]] = old
            else:
                for p_ in parts[:-1]:
                    d = d.get(p_) if isinstance(d, dict) else None
                    if d is None:
                        break
                else:
                    d.pop(parts[-1], None)
        # after exit: every key written by the with-set has its pre-entry value again, whatever happened inside
        for k in keys:
            got = I.get(k)
            g = ("ok", norm_tree(got[1])) if got[0] == "ok" else got
            if typed(g) != typed(pre[k]):
                fails.append(({"relation": "with_restores_on_exit", "inner": "none" if inner is None else (inner if isinstance(inner, str) else str(inner[0]))}, f"{where}: after `with set({w}, **{kw})` (inner={inner}) get({k!r}) = {got!r}, before entry it was {pre[k]!r}"))
    else:
        raise ValueError(ev)


# ----------------------------------------------------------------------------- BFS shard
_IMPL = None


def impl():
    global _IMPL
    if _IMPL is None:
        _IMPL = Impl()
    return _IMPL


def run_history(hist, check_every=True):
    """Replay a history from the import-time state on implementation + model. Returns (I, M, fails)."""
    I = impl()
    I.restore_base()
    M = Model(I.base_cfg, I.base_dfl)
    fails = []
    for i, ev in enumerate(hist):
        where = f"after {json.dumps(hist[: i + 1], default=repr)}"
        apply_event(I, M, ev, fails, where)
        if check_every or i == len(hist) - 1:
            observe_and_compare(I, M, where, fails)
        if fails:
            break  # later steps would only repeat the divergence
    return I, M, fails


def shard(first, depth=3, core=False):
    """BFS of depth `depth` below the state reached by history `first` (a list of events); core=True: over CORE_EVENTS."""
    EVS = CORE_EVENTS if core else EVENTS
    I = impl()
    t = Tally()
    res = BfsResult()
    try:
        I, M, fails = run_history(first)
        for cls, msg in fails:
            t.fail(cls, {"history": first}, msg)
        k0 = I.canon()
        res.states.add(k0)
        frontier = [] if fails else [(list(first), I.dump(), M.copy())]
        for d in range(depth):
            nxt = []
            for hist, blob, model in frontier:
                for ev in EVS:
                    I.load(blob)
                    M2 = model.copy()
                    fl = []
                    h2 = hist + [ev]
                    where = f"after {json.dumps(h2, default=repr)}"
                    apply_event(I, M2, ev, fl, where)
                    observe_and_compare(I, M2, where, fl)
                    res.transitions += 1
                    k = I.canon()
                    for cls, msg in fl:
                        t.fail(cls, {"history": h2}, msg)
                    t.case(key=None, nontrivial=False, outcome=None)
                    if fl:
                        continue  # model and implementation have diverged: do not explore below a failing transition
                    if k in res.states:
                        continue
                    res.states.add(k)
                    t.nontrivial.add(k)
                    if len(h2) >= 3:
                        t.sample({"history": h2, "device": I.get("device")}, cap=2)
                    res.max_depth = max(res.max_depth, len(h2))
                    if d + 1 < depth:
                        nxt.append((h2, I.dump(), M2))
            frontier = nxt
    finally:
        I.restore_base()
    t.outcomes |= res.states
    t.extra["transitions"] += res.transitions
    t.stat("bfs_depth_reached", res.max_depth)
    t.bfs_states = res.states
    return t


DEFAULT_HISTORY = [
    ("set", "a.b", 1),
    ("dflt", {"a": {"b": 10}}),
    ("set", "x_y", 1),
    ("dflt", {"x-y": 10}),
    ("refresh",),
    ("set", "a.x-y", 2),
    ("dflt", {"a": {"z": 20}}),
    ("refresh",),
]


def w_deviation(item, b=1):
    """All histories that differ from DEFAULT_HISTORY exactly at the positions `item` (a tuple of positions),
    every deviating position taking every other event. Every step compared with the model."""
    import itertools

    t = Tally()
    pos = list(item)
    pools = [[e for e in EVENTS if e != DEFAULT_HISTORY[p]] for p in pos]
    try:
        for repl in itertools.product(*pools):
            h = list(DEFAULT_HISTORY)
            for p, r in zip(pos, repl):
                h[p] = r
            I, M, fails = run_history(h)
            for cls, msg in fails:
                t.fail(cls, {"history": h}, msg)
            t.case(key=None, nontrivial=False, n=len(h))
            t.nontrivial.add(I.canon())
            t.outcomes.add(I.canon())
            t.extra["deviation_histories"] += 1
    finally:
        impl().restore_base()
    return t


def run(ctx):
    I = impl()
    ctx.assume(
        "CPU-only sandbox: every accelerator request (gpu/cuda/mps/index) must be rejected; with an accelerator present the device sub-checks are skipped",
        "values given to set() and to update_defaults() are disjoint (the 'new-defaults' rule cannot tell a user value equal to the current default from the default)",
        "QUANTEM_CONFIG points at an empty scratch directory, so refresh() reads no user yaml",
        "context-manager inner events are restricted to none / a disjoint key / the same leaf",
    )

    def once():
        _, _, f = run_history([("set", "x_y", 1), ("dflt", {"x-y": 10}), ("refresh",), ("set", "a.x-y", 2)])
        return (I.canon(), [m for _, m in f])

    ctx.selftest(once)
    I.restore_base()
    depth = 3 if ctx.quick else 4
    # depth-1 prefix = every single event; each shard explores `depth-1` further levels
    # every history up to depth 3 over the FULL alphabet (both tiers) ...
    firsts = [[ev] for ev in EVENTS]
    ctx.say(f"{len(EVENTS)} events, BFS depth 3 sharded by first event" + ("" if ctx.quick else f"; {len(CORE_EVENTS)} core events, BFS depth 4"))
    # root transitions (depth 1) are covered inside shard() by run_history(first)
    merged = ctx.pmap(shard, firsts, chunk=1, label="bfs", depth=2)
    states = set()
    states |= merged.outcomes
    transitions = int(merged.extra["transitions"]) + len(firsts)
    if not ctx.quick:
        # ... and, in the thorough tier, every history up to depth 4 over the core alphabet (the events without the
        # key / value CONTENT members added in round 6: with them depth 4 does not fit the wall-clock ceiling)
        firsts4 = [[ev] for ev in CORE_EVENTS]
        m4 = ctx.pmap(shard, firsts4, chunk=1, label="bfs depth 4 (core alphabet)", depth=3, core=True)
        states |= m4.outcomes
        transitions += int(m4.extra["transitions"]) + len(firsts4)
        merged.extra["transitions"] += m4.extra["transitions"]
    # deeper histories by deviation bounding: length-8 default history, at most b positions replaced by any other event
    import itertools

    b = 1 if ctx.quick else 2
    L = len(DEFAULT_HISTORY)
    items = [()] + [tuple(c) for k in range(1, b + 1) for c in itertools.combinations(range(L), k)]
    dev = ctx.pmap(w_deviation, items, chunk=1, label=f"deviation-bounded histories (length {L}, <= {b} deviations)")
    ndev = int(dev.extra["deviation_histories"])
    transitions += ndev * L
    states |= dev.outcomes
    ctx.coverage["deviation_bound"] = {"history_length": L, "max_deviations": b, "histories": ndev}
    ctx.coverage.update(
        states=len(states) + 1,
        transitions=transitions,
        traces_validated_against_impl=transitions,
        max_depth=depth,
        events=len(EVENTS),
        universe_keys=len(UNIVERSE),
        distinct_nontrivial=len(merged.nontrivial),
        evaluations=transitions,
        exhaustive=True,
    )
    if len(states) < 50 and ctx.tally.nfails == 0:
        from mc.harness import Broken

        raise Broken(f"state space suspiciously small ({len(states)} states)")


def replay(ctx, case):
    hist = case["history"]
    I, M, fails = run_history(hist)
    for cls, msg in fails:
        ctx.fail(cls, case, msg)
    print("  final config (normalised, user-visible keys):", {k: I.get(k) for k in UNIVERSE[:15]})
    I.restore_base()
