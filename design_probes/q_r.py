import numpy as np, warnings, torch, time, itertools, traceback
warnings.simplefilter("ignore"); torch.set_num_threads(1)
exec(open("/verif/design_probes/p9.py").read().split("t0=time.time()")[0])
t0=time.time(); bad=[]; n=0
for ot,S,M,roi,gpts,step,pad in itertools.product(["complex","pure_phase","potential"],[1,2,4],[1,3],[(8,8),(12,8),(8,10)],[(2,2),(3,4),(1,5),(5,1)],[(1.25,1.25),(1.3,0.9)],[(0,0),(3,5),(8,8)]):
    n+=1
    try:
        l0,l1,relI,scale=run(roi=roi,gpts=gpts,step=step,dq=(0.05,0.04),S=S,M=M,obj_type=ot,pad=pad)
        if not (l0<1e-8 and l1>1e4*max(l0,1e-14) and relI<1e-5): bad.append((ot,S,M,roi,gpts,step,pad,l0,l1,relI))
    except Exception as e:
        bad.append((ot,S,M,roi,gpts,step,pad,"EXC",type(e).__name__,str(e)[:90]))
print("points",n,"bad",len(bad),"time",round(time.time()-t0,1))
from collections import Counter
print(Counter((b[4],b[7] if b[7]=="EXC" else "num") for b in bad))
for b in bad[:8]: print(b)
