#!/venv/bin/python
"""Print the markdown table of seeded breaking changes (from /verif/seeded/*/meta.json)."""
import glob
import json
import os

HERE = os.path.dirname(os.path.dirname(os.path.abspath(__file__)))


def main():
    print("| id | what the change does (sub-agent's summary, shortened) | needs to manifest | tests still 176/176 | detected by (quick tier unless stated) | first evaluation |")
    print("|---|---|---|---|---|---|")
    n = det = nonv = 0
    for d in sorted(glob.glob(os.path.join(HERE, "seeded", "C*"))):
        m = json.load(open(os.path.join(d, "meta.json")))
        n += 1
        cur = m.get("detected_by") or []
        det += bool(cur)
        hist = m.get("history") or []
        first = "detected"
        notes = [h.get("note") for h in hist if h.get("note")]
        missed_first = any(("detected_by" in h and not h["detected_by"]) for h in hist) or any("missed" in (x or "") or "would have missed" in (x or "") for x in notes)
        if missed_first:
            first = "MISSED, check strengthened"
        if not cur:
            first = "MISSED"
        if m.get("not_a_violation"):
            first = "not a violation of the property as stated (deliberately not flagged; see meta.json)"
            nonv += 1
            det -= bool(cur)
        summ = (m.get("summary") or "").replace("|", "/").replace("\n", " ")
        need = (m.get("needs_to_manifest") or "").replace("|", "/").replace("\n", " ")
        t = m.get("tests_with_change") or {}
        first_cls = ""
        for c in cur:
            lines = m["checks"][c].get("first_lines") or []
            for l in lines:
                if "violation class=" in l:
                    first_cls = l.split("violation class=")[1].split(" :: ")[0][:110]
                    break
        print(f"| {m['id']} | {summ[:170]} | {need[:150]} | {t.get('passed')}/{176} | {', '.join(c + (' (thorough tier only)' if m['checks'][c].get('tier') == 'thorough' else '') for c in cur) or '—'} {('`' + first_cls + '`') if first_cls else ''} | {first} |")
    print(f"\n{n} seeded changes, {nonv} judged not to violate the property as stated, {det} of the other {n - nonv} detected by the registered checks (quick tier unless stated).")


if __name__ == "__main__":
    main()
