import numpy as np, warnings, itertools, time
warnings.simplefilter("ignore")
from quantem.core.datastructures import Dataset, Dataset2d, Dataset3d, Dataset4d
from quantem.core.datastructures.dataset4dstem import Dataset4dstem
print("registry", Dataset._registry)
t0=time.time(); bad=[]; n=0
rng=np.random.default_rng(0)
# bin
for shape in [(5,),(4,6),(5,7),(3,4,5),(2,3,4,5)]:
  for dt in [np.int32,np.float64,np.complex64]:
    a=(rng.integers(0,9,size=shape)).astype(dt); 
    if dt==np.complex64: a=a+1j*rng.integers(0,9,size=shape)
    nd=len(shape); org=np.arange(nd)*0.5+1; smp=np.arange(nd)*0.25+0.5
    for axes in [None]+[c for r in range(1,nd+1) for c in itertools.combinations(range(nd),r)]:
      ax=tuple(range(nd)) if axes is None else axes
      for fac in itertools.product([1,2,3],repeat=len(ax)):
        for red in ["sum","mean"]:
          d=Dataset.from_array(a.copy(),origin=org,sampling=smp,units=["u"]*nd)
          try:
            o=d.bin(fac if len(fac)>1 else fac[0],axes=axes,reducer=red)
          except Exception as e:
            bad.append(("bin EXC",shape,dt.__name__,axes,fac,red,repr(e))); continue
          n+=1
          # oracle
          ref=a.astype(np.complex128 if dt==np.complex64 else np.float64)
          for k,(x,f) in enumerate(zip(ax,fac)):
            L=(ref.shape[x]//f)*f; ref=np.take(ref,range(L),axis=x)
            sh=list(ref.shape); sh[x:x+1]=[L//f,f]; ref=ref.reshape(sh).sum(axis=x+1)
          if red=="mean": ref=ref/np.prod(fac)
          oo=org.copy(); ss=smp.copy()
          for x,f in zip(ax,fac): oo[x]+=0.5*(f-1)*ss[x]; ss[x]*=f
          if o.array.shape!=ref.shape or not np.allclose(o.array,ref) or not np.allclose(o.origin,oo) or not np.allclose(o.sampling,ss) or not np.array_equal(d.array,a):
            bad.append(("bin",shape,dt.__name__,axes,fac,red))
print("bin cases",n,"bad",len(bad),bad[:4],round(time.time()-t0,1))
# fourier resample
bad=[];n=0
for shape in [(6,),(7,),(4,5),(5,6),(3,4,5)]:
  nd=len(shape)
  for dt in [np.float64,np.complex128,np.int16]:
    a=rng.normal(size=shape); 
    if dt==np.complex128: a=a+1j*rng.normal(size=shape)
    if dt==np.int16: a=np.round(a*10)
    a=a.astype(dt)
    org=np.arange(nd)*0.5+1; smp=np.arange(nd)*0.25+0.5
    for out in itertools.product(*[[max(1,s-2),s-1,s,s+1,s+3,2*s] for s in shape]):
      d=Dataset.from_array(a.copy(),origin=org,sampling=smp,units=["u"]*nd)
      try: o=d.fourier_resample(out_shape=out)
      except Exception as e: bad.append(("fr EXC",shape,dt.__name__,out,repr(e))); continue
      n+=1
      okmean=np.allclose(o.array.mean(),a.mean(),atol=1e-9)
      cen_old=org+(np.array(shape)-1)/2*smp; cen_new=o.origin+(np.array(out)-1)/2*o.sampling
      okc=np.allclose(cen_old,cen_new); okext=np.allclose(np.array(shape)*smp,np.array(out)*o.sampling)
      okid = (out!=shape) or np.allclose(o.array,a)
      if not(okmean and okc and okext and okid and o.array.shape==out): bad.append(("fr",shape,dt.__name__,out,okmean,okc,okext,okid))
print("fourier_resample cases",n,"bad",len(bad),bad[:6])
# up then down roundtrip for signals w/o Nyquist
bad=[]
for shape in [(6,),(7,),(4,5),(6,8)]:
  a=rng.normal(size=shape); F=np.fft.fftn(a)
  for ax,s in enumerate(shape):
    if s%2==0:
      sl=[slice(None)]*len(shape); sl[ax]=s//2; F[tuple(sl)]=0
  a=np.fft.ifftn(F).real
  for up in itertools.product(*[[s,s+1,s+2,2*s,2*s+1] for s in shape]):
    d=Dataset.from_array(a.copy()); o=d.fourier_resample(out_shape=up).fourier_resample(out_shape=shape)
    if not np.allclose(o.array,a,atol=1e-9) or not np.allclose(o.origin,d.origin) : bad.append((shape,up,np.abs(o.array-a).max()))
print("updown bad",len(bad),bad[:5])
# pad/crop
d=Dataset.from_array(np.arange(12.).reshape(3,4)); p=d.pad(output_shape=(6,9)); c=p.crop(((1,-2),(2,-3))); print("padcrop",np.array_equal(c.array,d.array),p.shape)
