"""C18 — centre-of-mass origin estimation is exact, path-independent and batch-invariant (shapes S + L, level EX).

Enumerated completely:
  * scan shapes x detector shapes x masks x data kinds (asymmetric positive patterns) x EVERY batch size 1..N and None
    x code paths {CenterOfMassOriginModel.calculate_origin, PtychographyDatasetRaster.preprocess(vectorized=True),
    preprocess(vectorized=False), both read back through com_measured / com_fit, and - when the private seam
    _set_intensities_com(dp_mask=...) exists - the mask argument of both dataset paths};
  * plane and constant fits: origins exactly on a plane/constant over a grid of integer/half-integer coefficients through
    ptycho_utils.fit_origin (explicit mask, the way the library drives it) and CenterOfMassOriginModel.fit_origin_background,
    and through the public pipelines on patterns whose centre of mass is exactly planar;
  * shift_origin_to for EVERY integer origin of the detector (uniform and per-pattern) x every batch size x both
    interpolation modes.
  * detector shapes with large prime factors and powers of two ({13,16,17,26} x {8,13}, both ways) for all shift parts;
    ptycho_utils.shift_array for every integer shift; "integer fitted origin -> circular roll" through BOTH classes (dataset
    model: public preprocess on patterns whose centre of mass is exactly integer, read back through centered_amplitudes /
    centered_intensities);
  * input dtype {float16 (incl. pattern totals beyond the float16 range), float32, float64, uint8, uint16, int32, int64, bool}
    x memory layout {C, Fortran, transposed view, strided slice} of the 4-D stack x both classes x both dataset paths x every
    batch size, against the same float64 weighted mean of the stored values, and shift_origin_to of the same stack against
    np.roll (complex64, rejected on HEAD, is counted; any other rejected dtype or layout fails);
  * intensity scale {1e-30 .. 1e30} (float32 where representable, float64) on every centre-of-mass path and batch size: weighted
    mean and scale invariance; plane / constant fits with slopes x {1e-3, 1} and offsets {0, +-100, +-1000} px;
  * integer-origin RANGE: shift_origin_to with per-pattern origins and target coordinate over [-2H,2H] x [-2W,2W] (negative,
    zero, exactly H/W, beyond, mixed signs, planes crossing the edges), shift_array over the same range;
  * object histories (length 2..3 quick, ..4 thorough) over calculate / set origins + shift (two origin sets, corner and another
    target, both modes) / copy, deepcopy, pickle (save+load in fixed histories) / model.tensor = model.shifted_tensor: every exposed
    result is kept and must stay bit-identical; after every event BOTH objects are judged by their own oracle;
  * call histories: every single call / ordered pair (thorough: triple) of calculate_origin, shift_origin_to (corner and
    other targets), fit_origin_background and preprocess on models sharing a detector shape, modules re-imported before each
    history, the LAST call judged ("a result must not depend on earlier calls"), inputs bit-identical afterwards.
  * CONTENT of the detector mask: 12 masks (binary incl. all-ones / single open pixel / one excluded pixel; fractional: constant 0.5,
    soft disc, soft half plane, ramp, seeded weights, weights above one; integer weights 0..3) x mask dtype {bool, uint8, int64, float32,
    float64 where the values are exact} x memory order x the dataset model's vectorised AND looped path (mask argument) and both classes
    on intensity x mask (every batch size): the float64 intensity x mask weighted mean, and every path against every other.
Oracle: float64 weighted means in (row, column) order; np.roll.
"""
from __future__ import annotations

import inspect
import itertools
import math
import warnings

import numpy as np
import torch

from mc.harness import Broken, Tally

LEVEL = "exploration"
TECHNIQUE = "exhaustive lattice (scan x detector x mask x data kind x code path) and every batch size = every schedule, float64 weighted-mean and np.roll oracles"
CLAIM = (
    "For every point of the lattice scan shape x detector shape x mask x data kind and EVERY batch size 1..num_patterns and None, "
    "CenterOfMassOriginModel.calculate_origin, PtychographyDatasetRaster.preprocess(vectorized=True) and preprocess(vectorized=False), "
    "read back through com_measured / com_fit, return the float64 intensity-weighted mean (row, then column) to 1e-4 px and agree "
    "with each other; origins lying exactly on a plane or constant (integer/half-integer coefficient grid, and data whose centre of "
    "mass is exactly planar) are returned by fit_origin and fit_origin_background to 1e-4; shift_origin_to equals np.roll of each "
    "pattern for every integer origin of the detector, uniform or per pattern, at every batch size, also on detector lengths "
    "with large prime factors; the dataset model's centred amplitudes/intensities for integer fitted origins equal the same roll "
    "and agree with the origin model; the centre of mass is the weighted mean of the stored values for every accepted input dtype "
    "and memory layout on every path; under a detector mask of ANY content (binary, constant, soft edge, ramp, weights above one; bool / integer / "
    "float dtypes) the dataset model's vectorised and looped paths return the intensity x mask weighted mean and agree with each other and with "
    "both classes fed the product; no result depends on earlier calls (call histories on freshly imported modules). Exploration is the right level: "
    "the only schedule freedom is the batch size and it is enumerated completely; everything else is a configuration lattice."
)
NOTE = (
    "Trusted: NumPy float64 weighted means and np.roll as oracles; data alphabet = deterministic asymmetric ramps, seeded positive "
    "noise and blob patterns with exactly planar centre of mass; masks enter the public paths as pre-masked data and the dataset "
    "paths additionally through the private dp_mask seam when it exists. fit_origin is driven with an explicit all-true mask."
)
RULE = (
    "Full product scan {(2,3),(3,4),(1,5),(4,1)} x detector {(6,8),(8,6),(7,7)} (thorough: + scans (2,2),(3,3),(4,5), detectors "
    "(5,9),(9,5), two more seeded members) x mask {none, half-plane, disc} x data kind x code path x batch size {None, 1..N}; "
    "plane coefficients on {-1,-.5,0,.5,1}^2 x {0,2.5,3}, constants on {0,.5,2.5,3,7}^2; every integer origin x "
    "{uniform, per-pattern} x batch size x {bilinear, nearest}. A centre-of-mass point is non-trivial when the batch size "
    "actually splits the set or the row and column centres differ by > 0.05 px (a swap would show); a shift point when the roll is "
    "not the identity; distinct = distinct (configuration, batch size, path). Shift parts also on detectors {13,16,17,26}x{8,13} "
    "both ways (scan (2,3)); shift_array: every integer shift x 2 branches; integer-origin roll: scans x detectors x 3 origin/fit "
    "kinds x both classes x (vectorized, bilinear); call histories: all singles and ordered pairs (thorough: triples) over 20 calls; object histories: every history of length 2..3 (thorough 4) over 13 events incl. copies and feed-back; intensity scale (8 powers of ten x float32/float64) x all paths; origin range [-2H,2H]x[-2W,2W] for origins and target; input dtype (8, three count levels) x layout (4) "
    "x 2 scans x 2 detectors x all paths and batch sizes; mask content: 12 masks (5 binary, 6 fractional incl. weights above one, 1 integer 0..3) x "
    "their dtypes (bool/uint8/int64/float32/float64 where exact) x order (C, F for float32) x 2 scans x 2 detectors x 2 data kinds x "
    "{mask argument vectorised, looped; intensity x mask: calculate_origin every batch size, preprocess both paths}; non-trivial = mask is not all ones."
)

# ----------------------------------------------------------------------------- tolerances
# centre of mass, float32 code vs float64 oracle: worst observed 6.7e-7 px against the oracle, 9.5e-7 px between the two
# classes (seeds {0,1,2,7,12345}); smallest mutant effect (row/column exchange on the least asymmetric configuration,
# disc-masked ramp) 7.6e-2 px, wrong batch offset > 1 px.
TOL_COM = 1e-4
# plane / constant fits (float32 eigh; curve_fit is exact to 3e-15): worst observed 9.5e-7; smallest mutant effect 0.25
# (constants 0 and 0.5 averaged together).
TOL_FIT = 1e-4
# bilinear shift at integer origins, relative to the pattern maximum: worst observed 1.6e-7; a one-pixel error is >= 1e-2.
# mode="nearest" is compared exactly.
TOL_SHIFT = 1e-5

SCANS = [(2, 3), (3, 4), (1, 5), (4, 1)]
DETS = [(6, 8), (8, 6), (7, 7)]
MASKS = ["none", "half_plane", "disc"]
BLOB_SLOPES = [  # ((a_r, b_r), (a_c, b_c)): blob position = offset + a * scan_row + b * scan_col
    ((0.0, 0.0), (0.0, 0.0)),
    ((0.5, 0.0), (0.0, 0.5)),
    ((0.0, 0.5), (0.5, 0.0)),
    ((0.5, 0.5), (-0.5, 0.5)),
    ((-0.5, 0.5), (0.5, -0.5)),
    ((0.5, -0.5), (-0.5, -0.5)),
]
KINDS = ["ramp", "seeded"] + [f"blob{i}" for i in range(len(BLOB_SLOPES))]
# thorough tier: more shapes (incl. a 20-pattern scan = 21 batch sizes) and more seeded members
SCANS_T = SCANS + [(2, 2), (3, 3), (4, 5)]
DETS_T = DETS + [(5, 9), (9, 5)]
KINDS_T = ["ramp", "seeded", "seeded1", "seeded2"] + [f"blob{i}" for i in range(len(BLOB_SLOPES))]


def blob_fits(scan, idx):
    """the blob (bilinear deposit) must stay on pixels 0..4 in both directions, inside every detector and mask of the alphabet."""
    pr, pc = blob_positions(scan, idx)
    return math.ceil(pr.max()) <= 4 and math.ceil(pc.max()) <= 4
PLANE_SLOPES = [-1.0, -0.5, 0.0, 0.5, 1.0]
PLANE_OFFSETS = [0.0, 2.5, 3.0]
CONSTANTS = [0.0, 0.5, 2.5, 3.0, 7.0]


# ----------------------------------------------------------------------------- data alphabet
def make_mask(det, name):
    H, W = det
    kr, kc = np.mgrid[:H, :W]
    if name == "none":
        return None
    if name == "half_plane":
        return (2 * kr + kc <= 12).astype(np.float32)
    if name == "disc":
        return ((kr - 2.5) ** 2 + (kc - 2.5) ** 2 <= 2.6**2 + 1e-9).astype(np.float32)
    raise ValueError(name)


def blob_positions(scan, idx):
    (ar, br), (ac, bc) = BLOB_SLOPES[idx]
    x, y = np.meshgrid(np.arange(scan[0]), np.arange(scan[1]), indexing="ij")
    pr = ar * x + br * y
    pc = ac * x + bc * y
    return pr - pr.min() + 1.0, pc - pc.min() + 1.5


def make_data(scan, det, kind, seed):
    """float32 4-D array of positive patterns, asymmetric in (row, column)."""
    H, W = det
    N = scan[0] * scan[1]
    kr, kc = np.mgrid[:H, :W]
    k = np.arange(N).reshape(scan)[..., None, None]
    if kind == "ramp":
        arr = 1.0 + 0.5 * kr + 0.125 * kc * kc + 0.25 * ((kr + 2 * kc + k) % 5) + 0.0625 * k * kr
    elif kind.startswith("seeded"):
        rng = np.random.default_rng([seed, 18, scan[0], scan[1], H, W, int(kind[6:] or 0)])
        arr = (rng.random((*scan, H, W)) + 0.1) * (1.0 + 0.5 * kr / H)
    elif kind.startswith("blob"):
        pr, pc = blob_positions(scan, int(kind[4:]))
        arr = np.full((*scan, H, W), 0.25)
        for ix in np.ndindex(*scan):
            r0, c0 = int(math.floor(pr[ix])), int(math.floor(pc[ix]))
            fr, fc = pr[ix] - r0, pc[ix] - c0
            for dr, dc, w in ((0, 0, (1 - fr) * (1 - fc)), (1, 0, fr * (1 - fc)), (0, 1, (1 - fr) * fc), (1, 1, fr * fc)):
                if w > 0:
                    arr[ix][r0 + dr, c0 + dc] += 16.0 * w
    else:
        raise ValueError(kind)
    return np.ascontiguousarray(arr.astype(np.float32))


def oracle_com(arr32, mask):
    a = arr32.astype(np.float64)
    if mask is not None:
        a = a * mask.astype(np.float64)
    H, W = a.shape[-2:]
    kr, kc = np.mgrid[:H, :W]
    s = a.sum((-2, -1))
    return (a * kr).sum((-2, -1)) / s, (a * kc).sum((-2, -1)) / s


def make_ds(arr):
    from quantem.core.datastructures import Dataset4dstem

    return Dataset4dstem.from_array(arr.copy(), sampling=[1, 1, 0.1, 0.1], units=["A", "A", "A^-1", "A^-1"])


def batch_sizes(n):
    return [None] + list(range(1, n + 1))


def _tag(fails):
    """every recorded sub-case names the relation and path it failed, so that replay() re-reports only that class."""
    out = []
    for cls, sub, msg in fails:
        sub = dict(sub)
        sub["relation"] = cls["relation"]
        sub["cls_path"] = cls.get("path", cls.get("mode"))
        out.append((cls, sub, msg))
    return out


# ----------------------------------------------------------------------------- seams
def seams():
    from quantem.diffractive_imaging.dataset_models import PtychographyDatasetRaster as P

    s = {}
    try:
        s["preprocess_vectorized"] = "vectorized" in inspect.signature(P.preprocess).parameters
    except Exception:
        s["preprocess_vectorized"] = False
    f = getattr(P, "_set_intensities_com", None)
    try:
        pars = inspect.signature(f).parameters if f is not None else {}
        s["dp_mask"] = all(p in pars for p in ("dp_mask", "fit_function", "vectorized_calculation"))
    except Exception:
        s["dp_mask"] = False
    return s


def run_preprocess(arr, vectorized, fit_function, have_vec=True):
    from quantem.diffractive_imaging.dataset_models import PtychographyDatasetRaster

    p = PtychographyDatasetRaster.from_dataset4dstem(make_ds(arr), verbose=0)
    kw = dict(com_fit_function=fit_function, force_com_rotation=0.0, force_com_transpose=False, plot_rotation=False, plot_com=False, obj_padding_px=(8, 8))
    if have_vec:
        kw["vectorized"] = vectorized
    with warnings.catch_warnings():
        warnings.simplefilter("ignore")
        p.preprocess(**kw)
    return np.asarray(p.com_measured, dtype=np.float64), np.asarray(p.com_fit, dtype=np.float64)


# ----------------------------------------------------------------------------- part 1: centre of mass, all paths, all batch sizes
def com_case(case, verbose=False):
    """case = {scan, det, mask, kind, seed}. Returns (list of (cls, subcase, msg), per-point records)."""
    from quantem.diffractive_imaging.dataset_models import PtychographyDatasetRaster
    from quantem.diffractive_imaging.origin_models import CenterOfMassOriginModel

    scan, det, mname, kind, seed = tuple(case["scan"]), tuple(case["det"]), case["mask"], case["kind"], case["seed"]
    sm = seams()
    N = scan[0] * scan[1]
    raw = make_data(scan, det, kind, seed)
    mask = make_mask(det, mname)
    arr = raw if mask is None else np.ascontiguousarray((raw * mask).astype(np.float32))  # public paths see pre-masked data
    er, ec = oracle_com(arr, None)
    swap_visible = bool(np.max(np.abs(er - ec)) > 0.05)
    fails = []
    points = []  # (key, nontrivial, outcome)
    base = {"part": "com", "scan": list(scan), "det": list(det), "mask": mname, "kind": kind, "seed": seed}

    def judge(path, got_r, got_c, extra, rel="com_equals_weighted_mean"):
        got_r = np.asarray(got_r, dtype=np.float64).reshape(scan)
        got_c = np.asarray(got_c, dtype=np.float64).reshape(scan)
        d = max(float(np.max(np.abs(got_r - er))), float(np.max(np.abs(got_c - ec))))
        if not (d <= TOL_COM):
            dsw = max(float(np.max(np.abs(got_r - ec))), float(np.max(np.abs(got_c - er))))
            hint = " (equals the oracle with row and column exchanged)" if dsw <= TOL_COM else ""
            ix = np.unravel_index(int(np.argmax(np.abs(got_r - er) + np.abs(got_c - ec))), scan)
            fails.append(
                (
                    {"relation": rel, "path": path},
                    dict(base, path=path, **extra),
                    f"{path} {extra} scan {scan} det {det} mask {mname} data {kind}: centre of mass differs from the float64 weighted mean by {d:.3e} px{hint}; "
                    f"pattern {tuple(int(i) for i in ix)}: got (row {got_r[ix]:.5f}, col {got_c[ix]:.5f}), expected (row {er[ix]:.5f}, col {ec[ix]:.5f})",
                )
            )
        if verbose:
            print(f"    {path:38s} {str(extra):24s} max deviation {d:.3e} px")
        return d

    def attempt(path, fn, extra=None):
        """A code path that raises on a valid input is a verdict (recorded), not a harness error."""
        try:
            return fn()
        except Broken:
            raise
        except Exception as e:
            fails.append(({"relation": "path_runs", "path": path}, dict(base, path=path, **(extra or {})), f"{path} {extra or ''} raised {type(e).__name__}: {str(e)[:200]} on scan {scan} det {det} mask {mname} data {kind}"))
            if verbose:
                print(f"    {path:38s} raised {type(e).__name__}: {e}")
            return None

    # (a) origin model, every batch size
    om = CenterOfMassOriginModel.from_dataset(make_ds(arr))
    om_ref = None
    for bs in batch_sizes(N):
        if attempt("CenterOfMassOriginModel.calculate_origin", lambda: (om.calculate_origin(bs), 1), {"batch_size": bs}) is None:
            continue
        o = om.origin_measured.detach().cpu().numpy().astype(np.float64).reshape(*scan, 2)
        judge("CenterOfMassOriginModel.calculate_origin", o[..., 0], o[..., 1], {"batch_size": bs})
        if bs is None:
            om_ref = o.copy()
        elif om_ref is not None and (not np.array_equal(np.isfinite(o), np.isfinite(om_ref)) or float(np.max(np.abs(o - om_ref))) > TOL_COM):
            fails.append(({"relation": "batch_invariant", "path": "CenterOfMassOriginModel.calculate_origin"}, dict(base, path="origin_model", batch_size=bs), f"calculate_origin({bs}) differs from calculate_origin(None) by {float(np.max(np.abs(o - om_ref))):.3e} px on scan {scan} det {det}"))
        points.append((["om", bs], (bs is not None and bs < N) or swap_visible, [round(float(x), 4) for x in o.ravel()[:4]]))
    # (b, c) dataset model, vectorised and looped, read back through the public properties
    got = {}
    for vec in (True, False):
        if not sm["preprocess_vectorized"] and vec is False:
            continue
        path = f"preprocess(vectorized={vec}).com_measured"
        r = attempt(path, lambda: run_preprocess(arr, vec, "none", sm["preprocess_vectorized"]))
        if r is None:
            continue
        cm, cf = r
        judge(path, cm[0], cm[1], {})
        judge(f"preprocess(vectorized={vec}).com_fit[none]", cf[0], cf[1], {}, rel="com_fit_none_equals_measured")
        got[vec] = cm
        points.append((["ds", vec], swap_visible, [round(float(x), 4) for x in cm.ravel()[:4]]))
    # both classes and both paths agree
    for vec, cm in got.items():
        if om_ref is None:
            break
        d = max(float(np.max(np.abs(cm[0] - om_ref[..., 0]))), float(np.max(np.abs(cm[1] - om_ref[..., 1]))))
        if not (d <= TOL_COM):
            fails.append(({"relation": "classes_agree", "path": f"preprocess(vectorized={vec}) vs calculate_origin"}, dict(base, path="agree", vectorized=vec), f"PtychographyDatasetRaster (vectorized={vec}) and CenterOfMassOriginModel disagree by {d:.3e} px on scan {scan} det {det} mask {mname} data {kind}"))
    if True in got and False in got:
        d = float(np.max(np.abs(got[True] - got[False])))
        if not (d <= TOL_COM):
            fails.append(({"relation": "paths_agree", "path": "preprocess vectorized vs looped"}, dict(base, path="agree"), f"vectorised and looped centre of mass disagree by {d:.3e} px on scan {scan} det {det} mask {mname} data {kind}"))
    # (d) private seam: the mask argument of the dataset model (raw data + dp_mask), both paths
    if mask is not None and sm["dp_mask"]:
        mr, mc = oracle_com(raw, mask)
        for vec in (True, False):
            p = PtychographyDatasetRaster.from_dataset4dstem(make_ds(raw), verbose=0)
            if attempt(f"_set_intensities_com(dp_mask, vectorized={vec})", lambda: (p._set_intensities_com(raw.copy(), dp_mask=mask.copy(), fit_function="none", vectorized_calculation=vec), 1)) is None:
                continue
            cm = np.asarray(p.com_measured, dtype=np.float64)
            d = max(float(np.max(np.abs(cm[0] - mr))), float(np.max(np.abs(cm[1] - mc))))
            if not (d <= TOL_COM):
                fails.append(({"relation": "com_equals_weighted_mean", "path": f"_set_intensities_com(dp_mask, vectorized={vec})"}, dict(base, path="dp_mask", vectorized=vec), f"_set_intensities_com(dp_mask={mname}, vectorized_calculation={vec}) differs from the masked float64 weighted mean by {d:.3e} px on scan {scan} det {det} data {kind}"))
            if verbose:
                print(f"    _set_intensities_com(dp_mask, vec={vec})                              max deviation {d:.3e} px")
            points.append((["dp_mask", vec], True, [round(float(x), 4) for x in cm.ravel()[:4]]))
    # (e) data with exactly planar centre of mass: the public pipelines return the plane
    if kind.startswith("blob"):
        slopes = BLOB_SLOPES[int(kind[4:])]
        constant = slopes == ((0.0, 0.0), (0.0, 0.0))
        xs, ys = np.meshgrid(np.arange(scan[0]), np.arange(scan[1]), indexing="ij")
        G = np.stack([xs.ravel(), ys.ravel(), np.ones(N)], 1).astype(np.float64)
        for e in (er, ec):
            res = e.ravel() - G @ np.linalg.lstsq(G, e.ravel(), rcond=None)[0]
            if float(np.max(np.abs(res))) > 1e-9:
                raise Broken(f"blob data for {case} does not have an exactly planar centre of mass (residual {float(np.max(np.abs(res))):.2e}): data builder and mask disagree")
        degenerate = 1 in scan
        for fit in ["plane"] + (["constant"] if constant else []):
            rel = "plane_fit_returns_plane" if fit == "plane" else "constant_fit_returns_constant"
            for vec in got:
                r = attempt(f"preprocess(com_fit_function={fit})", lambda: run_preprocess(arr, vec, fit, sm["preprocess_vectorized"]))
                if r is None:
                    continue
                cm, cf = r
                d = float(np.max(np.abs(cf - np.stack([er, ec])))) if np.all(np.isfinite(cf)) else float("inf")
                if not (d <= TOL_FIT):
                    fails.append(({"relation": rel, "path": "preprocess.com_fit", "scan_has_axis_of_length_1": degenerate}, dict(base, path="com_fit", fit=fit, vectorized=vec), f"preprocess(com_fit_function={fit!r}, vectorized={vec}).com_fit differs from the exactly {fit} centre of mass by {d:.3e} px on scan {scan} det {det} mask {mname} ({kind}, slopes {slopes})"))
                if verbose:
                    print(f"    preprocess(com_fit_function={fit}, vec={vec}).com_fit                  max deviation {d:.3e} px")
                points.append((["com_fit", fit, vec], True, [round(float(x), 4) for x in cf.ravel()[:4]]))
            if attempt(f"calculate_origin + fit_origin_background({fit})", lambda: (om.calculate_origin(None), om.fit_origin_background(fit_method=fit))) is None:
                continue
            of = om.origin_fitted.detach().cpu().numpy().astype(np.float64).reshape(*scan, 2)
            with np.errstate(invalid="ignore"):
                d = float(np.max(np.abs(of - np.stack([er, ec], -1)))) if np.all(np.isfinite(of)) else float("inf")
            if not (d <= TOL_FIT):
                fails.append(({"relation": rel, "path": "fit_origin_background", "scan_has_axis_of_length_1": degenerate, "via": "calculate_origin"}, dict(base, path="fit_origin_background", fit=fit), f"calculate_origin + fit_origin_background({fit!r}).origin_fitted differs from the exactly {fit} centre of mass by {d:.3e} px on scan {scan} det {det} mask {mname} ({kind}, slopes {slopes})"))
            if verbose:
                print(f"    calculate_origin + fit_origin_background({fit})                       max deviation {d:.3e} px")
            points.append((["om_fit", fit], True, [round(float(x), 4) if np.isfinite(x) else "nan" for x in of.ravel()[:4]]))
    return _tag(fails), points, swap_visible


def eval_com(case):
    t = Tally()
    fails, points, swap_visible = com_case(case)
    key0 = [case["scan"], case["det"], case["mask"], case["kind"]]
    for key, nontriv, outcome in points:
        t.case(key=key0 + key, nontrivial=nontriv, outcome=[key0, outcome])
    for cls, sub, msg in fails:
        t.fail(cls, sub, msg)
    t.extra["com_configurations"] += 1
    t.extra["com_configurations_swap_visible"] += int(swap_visible)
    t.extra["com_points_batch_splits"] += sum(1 for k, _, _ in points if k[0] == "om" and k[1] is not None and k[1] < case["scan"][0] * case["scan"][1])
    if case["kind"] == "ramp" and case["mask"] == "half_plane":
        t.sample({"com_configuration": key0, "paths": len(points), "first_values": points[0][2]}, cap=1)
    return t


# ----------------------------------------------------------------------------- part 2: fits on the coefficient grid
def plane_values(scan, coef):
    mx, my, b = coef
    x, y = np.meshgrid(np.arange(scan[0]), np.arange(scan[1]), indexing="ij")
    return mx * x + my * y + b


def coefficient_grid():
    return [(mx, my, b) for mx in PLANE_SLOPES for my in PLANE_SLOPES for b in PLANE_OFFSETS]


def fit_case(case, verbose=False):
    """case = {scan, coef_r, coef_c}: origins exactly on planes (constants when both slopes are zero)."""
    from quantem.diffractive_imaging.origin_models import CenterOfMassOriginModel
    from quantem.diffractive_imaging.ptycho_utils import fit_origin

    scan = tuple(case["scan"])
    cr, cc = tuple(case["coef_r"]), tuple(case["coef_c"])
    pr, pc = plane_values(scan, cr), plane_values(scan, cc)
    degenerate = 1 in scan
    constant = cr[:2] == (0.0, 0.0) and cc[:2] == (0.0, 0.0)
    fails = []
    outs = []
    base = {"part": "fit", "scan": list(scan), "coef_r": list(cr), "coef_c": list(cc)}
    fits = ["plane"] + (["constant"] if constant else [])
    for fit in fits:
        rel = "plane_fit_returns_plane" if fit == "plane" else "constant_fit_returns_constant"
        # ptycho_utils.fit_origin, driven with an explicit all-true mask as _set_intensities_com does
        try:
            with warnings.catch_warnings():
                warnings.simplefilter("ignore")
                qr, qc, rr, rc = fit_origin(data=(pr.copy(), pc.copy()), fit_function=fit, mask=np.ones(scan, dtype=bool))
            d = max(float(np.max(np.abs(qr - pr))), float(np.max(np.abs(qc - pc))), float(np.max(np.abs(rr))), float(np.max(np.abs(rc))))
            if not np.isfinite(d):
                d = float("inf")
        except Exception as e:
            d = float("inf")
            qr = repr(e)
        if not (d <= TOL_FIT):
            fails.append(({"relation": rel, "path": "fit_origin", "scan_has_axis_of_length_1": degenerate}, dict(base, fit=fit, path="fit_origin"), f"fit_origin({fit!r}) on scan {scan}: origins exactly on row-plane {cr}, column-plane {cc} come back off by {d:.3e} ({qr if isinstance(qr, str) else ''})"))
        if verbose:
            print(f"    fit_origin({fit})              max deviation {d:.3e}")
        # CenterOfMassOriginModel.fit_origin_background
        om = CenterOfMassOriginModel.from_dataset(make_ds(np.ones((*scan, 2, 3), dtype=np.float32)))
        want = np.stack([pr, pc], -1).reshape(-1, 2)
        try:
            om.origin_measured = torch.tensor(want, dtype=torch.float32)
            om.fit_origin_background(fit_method=fit)
            of = om.origin_fitted.detach().cpu().numpy().astype(np.float64)
            d2 = float(np.max(np.abs(of - want))) if np.all(np.isfinite(of)) else float("inf")
        except Exception as e:
            of = np.full_like(want, np.nan)
            d2 = float("inf")
        if not (d2 <= TOL_FIT):
            fails.append(({"relation": rel, "path": "fit_origin_background", "scan_has_axis_of_length_1": degenerate, "via": "direct"}, dict(base, fit=fit, path="fit_origin_background"), f"fit_origin_background({fit!r}) on scan {scan}: origins exactly on row-plane {cr}, column-plane {cc} come back off by {d2:.3e}; first fitted origin {of[0].tolist()}, expected {want[0].tolist()}"))
        if verbose:
            print(f"    fit_origin_background({fit})   max deviation {d2:.3e}")
        outs.append([fit, round(min(d, 9.0), 3), round(min(d2, 9.0), 3), [round(float(x), 3) for x in want.ravel()[:3]]])
    return _tag(fails), outs


def eval_fit(item):
    scan, mx = item
    t = Tally()
    grid = coefficient_grid()
    for i, cr in enumerate(grid):
        if cr[0] != mx:
            continue
        cc = grid[(i * 7 + 3) % len(grid)]  # a different plane for the column origin (7 is coprime to 75: a permutation)
        case = {"part": "fit", "scan": list(scan), "coef_r": list(cr), "coef_c": list(cc)}
        fails, outs = fit_case(case)
        t.case(key=case, nontrivial=True, outcome=[list(scan), outs])
        for cls, sub, msg in fails:
            t.fail(cls, sub, msg)
        t.extra["fit_cases"] += 1
        t.extra["fit_calls"] += 2 * len(outs)
        if cr == (0.5, -0.5, 2.5):
            t.sample({"fit": case, "deviations": outs}, cap=1)
    if mx == 0.0:  # constants: every pair of row/column constants on the integer/half-integer grid
        for b1, b2 in itertools.product(CONSTANTS, CONSTANTS):
            case = {"part": "fit", "scan": list(scan), "coef_r": [0.0, 0.0, b1], "coef_c": [0.0, 0.0, b2]}
            fails, outs = fit_case(case)
            t.case(key=case, nontrivial=True, outcome=[list(scan), outs])
            for cls, sub, msg in fails:
                t.fail(cls, sub, msg)
            t.extra["fit_cases"] += 1
            t.extra["fit_cases_constant"] += 1
            t.extra["fit_calls"] += 2 * len(outs)
    return t


# ----------------------------------------------------------------------------- part 3: integer-origin shift = roll
def shift_case(case, verbose=False):
    """case = {scan, det, variant, origin_row, seed}: all origin columns x batch sizes x modes."""
    from quantem.diffractive_imaging.origin_models import CenterOfMassOriginModel

    scan, det, variant, o_r, seed = tuple(case["scan"]), tuple(case["det"]), case["variant"], case["origin_row"], case["seed"]
    H, W = det
    N = scan[0] * scan[1]
    arr = make_data(scan, det, "ramp" if variant == "uniform" else "seeded", seed)
    flat = arr.reshape(N, H, W)
    om = CenterOfMassOriginModel.from_dataset(make_ds(arr))
    fails = []
    points = []
    only_col = case.get("origin_col")
    for o_c in range(W):
        if only_col is not None and o_c != only_col:
            continue
        if variant == "uniform":
            org = np.tile(np.array([[o_r, o_c]]), (N, 1))
            om.origin_fitted = torch.tensor([[float(o_r), float(o_c)]])
        else:
            kk = np.arange(N)
            org = np.stack([(o_r + kk) % H, (o_c + 2 * kk) % W], -1)
            om.origin_fitted = torch.tensor(org, dtype=torch.float32)
        ref = np.stack([np.roll(flat[k], (-int(org[k, 0]), -int(org[k, 1])), axis=(0, 1)) for k in range(N)]).reshape(arr.shape)
        identity = bool(np.all(org == 0))
        for bs in batch_sizes(N):
            if case.get("batch_size", "all") != "all" and bs != case["batch_size"]:
                continue
            for mode in ("bilinear", "nearest"):
                try:
                    om.shift_origin_to((0, 0), max_batch_size=bs, mode=mode)
                    s = om.shifted_tensor.detach().cpu().numpy()
                except Exception as e:
                    fails.append(({"relation": "path_runs", "path": "shift_origin_to", "mode": mode}, {"part": "shift", "scan": list(scan), "det": list(det), "variant": variant, "origin_row": o_r, "origin_col": o_c, "batch_size": bs, "seed": seed}, f"shift_origin_to((0,0), max_batch_size={bs}, mode={mode!r}) raised {type(e).__name__}: {str(e)[:200]}"))
                    continue
                if mode == "nearest":
                    bad = not np.array_equal(s, ref)
                    d = float(np.max(np.abs(s - ref)))
                else:
                    d = float(np.max(np.abs(s.astype(np.float64) - ref))) / float(ref.max())
                    bad = not (d <= TOL_SHIFT)
                if bad:
                    k = int(np.argmax(np.abs(s - ref).reshape(N, -1).max(1)))
                    fails.append(
                        (
                            {"relation": "integer_origin_shift_equals_roll", "mode": mode},
                            {"part": "shift", "scan": list(scan), "det": list(det), "variant": variant, "origin_row": o_r, "origin_col": o_c, "batch_size": bs, "seed": seed},
                            f"shift_origin_to((0,0), max_batch_size={bs}, mode={mode!r}) scan {scan} det {det} {variant} origin ({o_r},{o_c}): differs from np.roll by {d:.3e}; pattern {k} origin {org[k].tolist()}: first row got {s.reshape(N, H, W)[k, 0].round(4).tolist()}, expected {ref.reshape(N, H, W)[k, 0].round(4).tolist()}",
                        )
                    )
                if verbose:
                    print(f"    origin ({o_r},{o_c}) batch {bs} {mode:8s} max deviation {d:.3e}")
                points.append(([o_c, bs, mode], not identity, [round(float(x), 4) for x in s.ravel()[:3]]))
    return _tag(fails), points


def eval_shift(case):
    t = Tally()
    fails, points = shift_case(case)
    key0 = [case["scan"], case["det"], case["variant"], case["origin_row"]]
    for key, nontriv, outcome in points:
        t.case(key=key0 + key, nontrivial=nontriv, outcome=[key0[:3], outcome])
    for cls, sub, msg in fails:
        t.fail(cls, sub, msg)
    t.extra["shift_calls"] += len(points)
    if case["origin_row"] == 2 and case["variant"] == "per_pattern" and tuple(case["det"]) == (6, 8):
        t.sample({"shift": key0, "calls": len(points)}, cap=1)
    return t


# ----------------------------------------------------------------------------- detector sizes with large prime factors
# Lengths whose FFT is "awkward" (13, 17, 26 = 2 x 13) and a power of two, crossed with 8 and 13, non-square both ways: a shift
# that is only periodic for 7-smooth lengths, or a normalisation that mixes H and W, cannot hide here. Used by the shift parts.
DETS_BIG = sorted({(a, b) for a in (13, 16, 17, 26) for b in (8, 13)} | {(b, a) for a in (13, 16, 17, 26) for b in (8, 13)})
BIG_SCAN = (2, 3)
# Fourier / bilinear shift of the dataset model at (numerically) integer origins, relative to the pattern maximum: worst observed
# 8.0e-7 (the data of these parts do not depend on the seed); a shift that is not periodic changes a pattern by the order of its maximum (> 1e-2).
TOL_DSHIFT = 1e-4


def run_preprocess_obj(arr, vectorized, fit_function, bilinear, have_vec=True):
    from quantem.diffractive_imaging.dataset_models import PtychographyDatasetRaster

    p = PtychographyDatasetRaster.from_dataset4dstem(make_ds(arr), verbose=0)
    kw = dict(com_fit_function=fit_function, force_com_rotation=0.0, force_com_transpose=False, plot_rotation=False, plot_com=False, obj_padding_px=(8, 8), bilinear=bilinear)
    if have_vec:
        kw["vectorized"] = vectorized
    with warnings.catch_warnings():
        warnings.simplefilter("ignore")
        p.preprocess(**kw)
    return p


# ----------------------------------------------------------------------------- part 4: ptycho_utils.shift_array, every integer shift
def shift_array_case(case, verbose=False):
    """case = {det, seed}: shift_array(pattern, r, c) for every integer (r, c) in [-2H, 2H] x [-2W, 2W] (lengths > 9: |r| < H plus
    the edge / beyond values -2H, -H-1, -H, H, H+1, 2H), Fourier and bilinear branch."""
    from quantem.diffractive_imaging.ptycho_utils import shift_array

    det = tuple(case["det"])
    H, W = det
    ar = np.sqrt(make_data((1, 1), det, "ramp", case["seed"])[0, 0])  # an amplitude, as preprocess passes it
    snap = ar.copy()
    fails, points = [], []
    def full(n):
        if n <= 9:
            return list(range(-2 * n, 2 * n + 1))
        return sorted(set(range(-n + 1, n)) | {-2 * n, -n - 1, -n, n, n + 1, 2 * n})

    rows = [case["row"]] if "row" in case else full(H)
    for r in rows:
        for c in ([case["col"]] if "col" in case else full(W)):
            ref = np.roll(ar.astype(np.float64), (r, c), axis=(0, 1))
            for bil in (False, True):
                try:
                    got = np.asarray(shift_array(ar, r, c, bilinear=bil), dtype=np.float64)
                    d = float(np.max(np.abs(got - ref))) / float(ref.max()) if got.shape == ref.shape else float("inf")
                except Exception as e:
                    d = float("inf")
                    got = repr(e)
                if not (d <= TOL_DSHIFT):
                    fails.append(({"relation": "shift_array_integer_shift_equals_roll", "path": f"shift_array(bilinear={bil})"}, {"part": "shift_array", "det": list(det), "row": r, "col": c, "seed": case["seed"]}, f"shift_array(pattern {det}, {r}, {c}, bilinear={bil}) differs from np.roll by {d:.3e} of the pattern maximum" + (f"; worst row {int(np.argmax(np.abs(got - ref).max(1)))} got {np.round(got[int(np.argmax(np.abs(got - ref).max(1)))], 4).tolist()}, expected {np.round(ref[int(np.argmax(np.abs(got - ref).max(1)))], 4).tolist()}" if isinstance(got, np.ndarray) and got.shape == ref.shape else f" ({got if isinstance(got, str) else got.shape})")))
                if verbose:
                    print(f"    shift_array({r}, {c}, bilinear={bil}) deviation {d:.3e}")
                points.append(([r, c, bil], (r % H, c % W) != (0, 0)))
    if not np.array_equal(ar, snap):
        fails.append(({"relation": "inputs_unmodified", "path": "shift_array"}, {"part": "shift_array", "det": list(det), "seed": case["seed"]}, f"shift_array modified the array it was given (detector {det})"))
    return _tag(fails), points


def eval_shift_array(case):
    t = Tally()
    fails, points = shift_array_case(case)
    for key, nontriv in points:
        t.case(key=[case["det"]] + key, nontrivial=nontriv, outcome=None)
    for cls, sub, msg in fails:
        t.fail(cls, sub, msg)
    t.extra["shift_array_calls"] += len(points)
    return t


# ----------------------------------------------------------------------------- part 5: integer fitted origin -> circular roll, both classes
ICOM_KERNEL = np.array([[1.0, 2.0, 1.0], [3.0, 8.0, 3.0], [1.0, 2.0, 1.0]])  # point-symmetric, anisotropic in (row, column)


def integer_origins(scan, kind):
    x, y = np.meshgrid(np.arange(scan[0]), np.arange(scan[1]), indexing="ij")
    if kind == "constant":
        return np.full(scan, 2), np.full(scan, 3)
    return 1 + x + y, 1 + y + (scan[0] - 1 - x)


def intorigin_fits(scan, det, kind):
    """the 3x3 blob around every integer origin must lie inside the detector"""
    pr, pc = integer_origins(scan, kind)
    return pr.min() >= 1 and pc.min() >= 1 and pr.max() <= det[0] - 2 and pc.max() <= det[1] - 2


def integer_com_data(scan, det, kind):
    """Positive float32 patterns whose centre of mass is EXACTLY the integer pixel p(x, y): flat background 1/64, a point-symmetric
    3x3 blob at p, and one extra weight per axis next to p that cancels the moment of the background (all dyadic, exact in float32)."""
    H, W = det
    pr, pc = integer_origins(scan, kind)
    b = 1.0 / 64.0
    arr = np.full((*scan, H, W), b)
    for ix in np.ndindex(*scan):
        r0, c0 = int(pr[ix]), int(pc[ix])
        k = 1.0 + 0.25 * (ix[0] * scan[1] + ix[1])
        arr[ix][r0 - 1 : r0 + 2, c0 - 1 : c0 + 2] += k * ICOM_KERNEL
        mr = b * H * W * (r0 - (H - 1) / 2)  # moment the background lacks about p, rows
        mc = b * H * W * (c0 - (W - 1) / 2)
        if mr:
            arr[ix][r0 + (1 if mr > 0 else -1), c0] += abs(mr)
        if mc:
            arr[ix][r0, c0 + (1 if mc > 0 else -1)] += abs(mc)
    arr = np.ascontiguousarray(arr.astype(np.float32))
    er, ec = oracle_com(arr, None)
    if float(np.max(np.abs(er - pr))) > 1e-9 or float(np.max(np.abs(ec - pc))) > 1e-9 or arr.min() <= 0:
        raise Broken(f"integer-origin data builder is wrong for scan {scan} det {det} {kind}: centre of mass off by {float(np.max(np.abs(er - pr))):.2e}/{float(np.max(np.abs(ec - pc))):.2e}")
    return arr, pr, pc


def intorigin_case(case, verbose=False):
    """case = {scan, det, origins: constant|planar, fit: plane|constant}: both classes, all (vectorized, bilinear) variants."""
    from quantem.diffractive_imaging.origin_models import CenterOfMassOriginModel

    scan, det, kind, fit = tuple(case["scan"]), tuple(case["det"]), case["origins"], case["fit"]
    sm = seams()
    N = scan[0] * scan[1]
    arr, pr, pc = integer_com_data(scan, det, kind)
    flat = arr.reshape(N, *det).astype(np.float64)
    P = np.stack([pr.ravel(), pc.ravel()], -1)
    roll_int = np.stack([np.roll(flat[k], (-int(P[k, 0]), -int(P[k, 1])), axis=(0, 1)) for k in range(N)])
    roll_amp = np.stack([np.roll(np.sqrt(flat[k]), (-int(P[k, 0]), -int(P[k, 1])), axis=(0, 1)) for k in range(N)])
    degenerate = 1 in scan
    fails, points = [], []
    base = {"part": "intorigin", "scan": list(scan), "det": list(det), "origins": kind, "fit": fit}
    rel_fit = "plane_fit_returns_plane" if fit == "plane" else "constant_fit_returns_constant"

    def fail(cls, extra, msg):
        fails.append((cls, dict(base, **extra), msg))

    # direct-ptychography origin model
    om_shift = None
    try:
        om = CenterOfMassOriginModel.from_dataset(make_ds(arr))
        om.calculate_origin(None)
        om.fit_origin_background(fit_method=fit)
        of = om.origin_fitted.detach().cpu().numpy().astype(np.float64)
        dfit = float(np.max(np.abs(of - P))) if np.all(np.isfinite(of)) else float("inf")
        if not (dfit <= TOL_FIT):
            fail({"relation": rel_fit, "path": "fit_origin_background", "scan_has_axis_of_length_1": degenerate, "via": "calculate_origin"}, {"path": "fit_origin_background"}, f"calculate_origin + fit_origin_background({fit!r}) on exactly integer {kind} origins: fitted origins off by {dfit:.3e} px (scan {scan} det {det})")
        else:
            # diagnostic only (not a verdict): with the fitted origins as returned (integer to ~1e-5, float32 PCA) the row/column
            # that wraps around is interpolated against the zero padding instead of the opposite edge -> counted, reported
            om.shift_origin_to((0, 0))
            raw = om.shifted_tensor.detach().cpu().numpy().astype(np.float64).reshape(N, *det)
            if float(np.max(np.abs(raw - roll_int))) / float(roll_int.max()) > TOL_DSHIFT:
                points.append((["om_unrounded_fitted_origin_loses_wrapped_pixels"], False))
            # the property's clause: an INTEGER-valued fitted origin (the fitted values are within TOL_FIT of these integers)
            om.origin_fitted = torch.tensor(P, dtype=torch.float32)
            om.shift_origin_to((0, 0))
            om_shift = om.shifted_tensor.detach().cpu().numpy().astype(np.float64).reshape(N, *det)
            d = float(np.max(np.abs(om_shift - roll_int))) / float(roll_int.max())
            if not (d <= TOL_DSHIFT):
                fail({"relation": "integer_fitted_origin_shift_equals_roll", "path": "CenterOfMassOriginModel.shift_origin_to"}, {"path": "origin_model"}, f"calculate_origin + fit_origin_background({fit!r}) + shift_origin_to((0,0)) on integer {kind} origins differs from np.roll by {d:.3e} of the maximum (scan {scan} det {det})")
            if verbose:
                print(f"    origin model: fitted origins off by {dfit:.3e} px, shifted patterns vs roll {d:.3e}")
            points.append((["om"], True))
    except Exception as e:
        fail({"relation": "path_runs", "path": "CenterOfMassOriginModel"}, {"path": "origin_model"}, f"origin model pipeline raised {type(e).__name__}: {str(e)[:200]} (scan {scan} det {det})")
    # ptychography dataset model, read back through the public centred amplitudes / intensities
    for vec, bil in itertools.product((True, False) if sm["preprocess_vectorized"] else (True,), (False, True)):
        tagp = f"preprocess(vectorized={vec}, bilinear={bil})"
        try:
            p = run_preprocess_obj(arr, vec, fit, bil, sm["preprocess_vectorized"])
            cf = np.asarray(p.com_fit, dtype=np.float64)
            ca = p.centered_amplitudes.detach().cpu().numpy().astype(np.float64)
            ci = p.centered_intensities.detach().cpu().numpy().astype(np.float64)
        except Exception as e:
            fail({"relation": "path_runs", "path": tagp}, {"path": tagp}, f"{tagp} raised {type(e).__name__}: {str(e)[:200]} (scan {scan} det {det})")
            continue
        dfit = float(np.max(np.abs(cf - np.stack([pr, pc])))) if np.all(np.isfinite(cf)) else float("inf")
        if not (dfit <= TOL_FIT):
            fail({"relation": rel_fit, "path": "preprocess.com_fit", "scan_has_axis_of_length_1": degenerate}, {"path": tagp}, f"{tagp}.com_fit[{fit}] on exactly integer {kind} origins is off by {dfit:.3e} px (scan {scan} det {det})")
            continue
        ca_u = np.fft.ifftshift(ca, axes=(-2, -1))  # the library centres the corner-shifted pattern with fftshift
        ci_u = np.fft.ifftshift(ci, axes=(-2, -1))
        da = float(np.max(np.abs(ca_u - roll_amp))) / float(roll_amp.max())
        di = float(np.max(np.abs(ci_u - roll_int))) / float(roll_int.max())
        if not (da <= TOL_DSHIFT) or not (di <= TOL_DSHIFT):
            k = int(np.argmax(np.abs(ca_u - roll_amp).reshape(N, -1).max(1)))
            fail({"relation": "integer_fitted_origin_shift_equals_roll", "path": f"preprocess(bilinear={bil}).centered_amplitudes"}, {"path": tagp}, f"{tagp} with com_fit_function={fit!r} on integer {kind} origins: centered_amplitudes / centered_intensities differ from the circular roll by {da:.3e} / {di:.3e} of the maximum (scan {scan} det {det}); pattern {k} origin {P[k].tolist()}: first row got {np.round(ca_u[k, 0], 4).tolist()}, expected {np.round(roll_amp[k, 0], 4).tolist()}")
        if om_shift is not None:
            dd = float(np.max(np.abs(ci_u - om_shift))) / float(roll_int.max())
            if not (dd <= 2 * TOL_DSHIFT):
                fail({"relation": "classes_agree_on_shifted_patterns", "path": tagp}, {"path": tagp}, f"{tagp}.centered_intensities and CenterOfMassOriginModel.shifted_tensor disagree by {dd:.3e} of the maximum on integer {kind} origins (scan {scan} det {det})")
        if verbose:
            print(f"    {tagp}: com_fit off by {dfit:.3e} px, amplitudes vs roll {da:.3e}, intensities vs roll {di:.3e}")
        points.append((["ds", vec, bil], True))
    return _tag(fails), points


def eval_intorigin(case):
    t = Tally()
    fails, points = intorigin_case(case)
    for key, nontriv in points:
        t.case(key=[case["scan"], case["det"], case["origins"], case["fit"]] + key, nontrivial=nontriv, outcome=None)
    for cls, sub, msg in fails:
        t.fail(cls, sub, msg)
    t.extra["integer_origin_pipelines"] += len(points)
    t.extra["origin_model_unrounded_fitted_origin_loses_wrapped_pixels"] += sum(1 for k, _ in points if k[0].startswith("om_unrounded"))
    if tuple(case["det"]) == (13, 8) and case["origins"] == "planar":
        t.sample({"integer_origin_roll": [case["scan"], case["det"], case["origins"], case["fit"]], "pipelines": len(points)}, cap=1)
    return t


# ----------------------------------------------------------------------------- part 6: call histories
# "A result must not depend on earlier calls": every single call and ordered pair (thorough: triple) of calls on models that
# share one detector shape (and a second shape as control); the three modules are re-imported before each history, so a
# failure names the shortest history; the LAST call is judged by the usual float64 oracle, and the data handed to the models
# must be bit-identical afterwards.
HIST_MODULES = ["quantem.diffractive_imaging.ptycho_utils", "quantem.diffractive_imaging.origin_models", "quantem.diffractive_imaging.dataset_models"]
HIST_DETS = {"d1": (6, 8), "d2": (7, 7)}
HIST_SCAN = (2, 3)


def _reload_modules():
    import importlib
    import sys

    for name in HIST_MODULES:
        mod = sys.modules.get(name) or importlib.import_module(name)
        importlib.reload(mod)


def hist_calls():
    calls = []
    for m in ("A", "B"):
        calls += [["calc", "d1", m, None], ["calc", "d1", m, 4]]
        calls += [["shift", "d1", m, [0, 0], "bilinear"], ["shift", "d1", m, [2, 3], "bilinear"], ["shift", "d1", m, [1, 0], "bilinear"], ["shift", "d1", m, [2, 3], "nearest"]]
    calls += [["fitbg", "d1", "A", "plane"], ["fitbg", "d1", "A", "constant"], ["prep", "d1", True], ["prep", "d1", False]]
    calls += [["calc", "d2", "A", None], ["shift", "d2", "A", [0, 0], "bilinear"], ["shift", "d2", "A", [2, 3], "bilinear"], ["prep", "d2", True]]
    return calls


def _judged(call):
    """a shift to a target other than the corner is outside the property: it only ever appears as an EARLIER call"""
    return not (call[0] == "shift" and call[3] != [0, 0])


def _hist_data(det, model, seed):
    return make_data(HIST_SCAN, HIST_DETS[det], "ramp" if model == "A" else "seeded", seed)


def do_call(state, call, seed, check):
    """Execute one call; with check=True return (deviation / tolerance, detail)."""
    from quantem.diffractive_imaging.origin_models import CenterOfMassOriginModel

    kind, det = call[0], call[1]
    H, W = HIST_DETS[det]
    N = HIST_SCAN[0] * HIST_SCAN[1]
    if kind == "prep":
        arr = _hist_data(det, "A", seed)
        src = arr.copy()
        cm, cf = run_preprocess(src, call[2], "none", seams()["preprocess_vectorized"])
        if not np.array_equal(src, arr):
            state["modified"].append("preprocess modified the array it was given")
        if not check:
            return None
        er, ec = oracle_com(arr, None)
        d = max(float(np.max(np.abs(cm[0] - er))), float(np.max(np.abs(cm[1] - ec))))
        return d / TOL_COM, f"com_measured deviates from the float64 weighted mean by {d:.3e} px"
    model = call[2]
    key = (det, model)
    if key not in state["models"]:
        arr = _hist_data(det, model, seed)
        state["models"][key] = (CenterOfMassOriginModel.from_dataset(make_ds(arr)), arr)
    om, arr = state["models"][key]
    flat = arr.reshape(N, H, W)
    try:
        if kind == "calc":
            om.calculate_origin(call[3])
            if not check:
                return None
            o = om.origin_measured.detach().cpu().numpy().astype(np.float64).reshape(*HIST_SCAN, 2)
            er, ec = oracle_com(arr, None)
            d = max(float(np.max(np.abs(o[..., 0] - er))), float(np.max(np.abs(o[..., 1] - ec))))
            return d / TOL_COM, f"origin_measured deviates from the float64 weighted mean by {d:.3e} px (first pattern got {o[0, 0].round(4).tolist()}, expected {[round(float(er[0, 0]), 4), round(float(ec[0, 0]), 4)]})"
        if kind == "shift":
            kk = np.arange(N)
            org = np.stack([(1 + kk) % H, (2 + 2 * kk) % W], -1)
            given = torch.tensor(org, dtype=torch.float32)
            snap = given.clone()
            om.origin_fitted = given
            om.shift_origin_to(tuple(call[3]), mode=call[4])
            if not torch.equal(given, snap):
                state["modified"].append("shift_origin_to modified the origins it was given")
            if not check:
                return None
            s = om.shifted_tensor.detach().cpu().numpy().astype(np.float64).reshape(N, H, W)
            ref = np.stack([np.roll(flat[k].astype(np.float64), (-int(org[k, 0]), -int(org[k, 1])), axis=(0, 1)) for k in range(N)])
            d = float(np.max(np.abs(s - ref))) / float(ref.max())
            return d / TOL_SHIFT, f"shift to the corner differs from np.roll by {d:.3e} of the maximum"
        if kind == "fitbg":
            x, y = np.meshgrid(np.arange(HIST_SCAN[0]), np.arange(HIST_SCAN[1]), indexing="ij")
            if call[3] == "plane":
                want = np.stack([2 + 0.5 * x - 0.5 * y, 3 - 1.0 * x + 0.5 * y], -1).reshape(-1, 2)
            else:
                want = np.stack([2.5 + 0 * x, 3.0 + 0 * y], -1).reshape(-1, 2).astype(np.float64)
            om.origin_measured = torch.tensor(want, dtype=torch.float32)
            om.fit_origin_background(fit_method=call[3])
            if not check:
                return None
            of = om.origin_fitted.detach().cpu().numpy().astype(np.float64)
            d = float(np.max(np.abs(of - want))) if np.all(np.isfinite(of)) else float("inf")
            return d / TOL_FIT, f"origins exactly on a {call[3]} come back off by {d:.3e}"
    finally:
        if not np.array_equal(om.tensor.detach().cpu().numpy(), arr) or not np.array_equal(np.asarray(om.dataset.array), arr):
            state["modified"].append(f"{kind} modified the data of its model")
    raise ValueError(call)


def run_history(hist, seed, verbose=False):
    _reload_modules()
    state = {"models": {}, "modified": []}
    for c in hist[:-1]:
        do_call(state, c, seed, check=False)
    ratio, detail = do_call(state, hist[-1], seed, check=True)
    if verbose:
        print(f"    history {hist[:-1]} -> last call {hist[-1]}: deviation / tolerance = {ratio:.3e}  ({detail})")
    return ratio, detail, state["modified"]


def eval_history(item, seed=0, depth=2):
    t = Tally()
    calls = hist_calls()
    lasts = [c for c in calls if _judged(c)]
    first = list(item)
    tails = ([[]] if _judged(first) else []) + [[c] for c in lasts]
    if depth >= 3:
        tails += [[m, c] for m in calls[::3] for c in lasts]
    alone = {}
    try:
        for tail in tails:
            hist = [first] + tail
            case = {"part": "history", "history": hist, "seed": seed}
            last = hist[-1]
            try:
                ratio, detail, modified = run_history(hist, seed)
            except Exception as e:
                t.case(key=hist, nontrivial=True, outcome="raised")
                t.fail({"relation": "history_runs", "last_call": last[0]}, dict(case, relation="history_runs", cls_path=None), f"history {hist}: raised {type(e).__name__}: {str(e)[:200]}")
                continue
            t.case(key=hist, nontrivial=len(hist) > 1, outcome=None)
            t.extra["histories"] += 1
            t.extra["histories_with_an_earlier_non_corner_shift_on_the_same_detector"] += int(any(c[0] == "shift" and c[3] != [0, 0] and c[1] == last[1] for c in hist[:-1]))
            if modified:
                t.fail({"relation": "inputs_unmodified", "last_call": last[0]}, dict(case, relation="inputs_unmodified", cls_path=None), f"history {hist}: {modified[0]}")
            if not (ratio <= 1.0):
                if len(hist) == 1:
                    t.fail({"relation": "call_alone_matches_oracle", "last_call": last[0]}, dict(case, relation="call_alone_matches_oracle", cls_path=None), f"the single call {last} on freshly imported modules: {detail} ({ratio:.3e} x tolerance)")
                    continue
                kl = repr(last)
                if kl not in alone:
                    try:
                        alone[kl] = run_history([last], seed)[0]
                    except Exception:
                        alone[kl] = float("inf")
                if not (alone[kl] <= 1.0):
                    t.extra["histories_whose_last_call_fails_alone"] += 1
                    continue
                t.fail({"relation": "result_independent_of_earlier_calls", "last_call": last[0]}, dict(case, relation="result_independent_of_earlier_calls", cls_path=None), f"after the calls {hist[:-1]} the call {last}: {detail} ({ratio:.3e} x tolerance); alone on freshly imported modules it agrees ({alone[kl]:.1e} x tolerance)")
            elif len(hist) == 2 and hist[0] == ["shift", "d1", "A", [2, 3], "bilinear"] and last == ["calc", "d1", "B", None]:
                t.sample({"history": hist, "deviation_over_tolerance": ratio}, cap=1)
    finally:
        _reload_modules()
    return t


# ----------------------------------------------------------------------------- part 7: input dtype x memory layout
# The centre of mass of a stack stored as float16 / float32 / float64 / uint8 / uint16 / int32 / int64 / bool, in C, Fortran,
# transposed-view or strided-slice layout, is judged against the same float64 weighted mean of the stored values, through both
# classes, both dataset paths and every batch size. Every dtype below is accepted by both constructors on HEAD and delivered
# with float32 precision (worst observed 1.1e-7 px over the whole part); the seeded half-precision accumulation gives 1.5e-3 px
# at low counts (measured with the 'mid' member: 9.6e-4 .. 1.5e-3 px; centre of mass 0 once a pattern total exceeds 65504) -> bound
# 2e-5 px (175 x HEAD's worst, 1/48 of the smallest effect).
TOL_DTYPE = 2e-5
DTYPES = ["float16", "float32", "float64", "uint8", "uint16", "int32", "int64", "bool"]
DTYPES_REJECTED_ON_HEAD = ["complex64"]  # counted, not flagged
DTYPE_HIGH_SCALE = {"float16": 160, "float32": 160, "float64": 160, "uint8": 8, "uint16": 2000, "int32": 10000, "int64": 10000}
DTYPE_MID_SCALE = {"uint8": 7}
LAYOUTS = ["C", "F", "transposed_view", "strided_slice"]
# Every layout must be accepted by both classes (a Fortran-ordered / transposed-view stack used to make the origin model raise:
# .view on a tensor sharing the array's strides; repaired in /repo commit 83b0828). A path that raises on a non-C layout fails
# as {"relation": "layout_accepted", "path", "layout"}; on the C layout as {"relation": "dtype_accepted", "path", "dtype"}.
DT_SCANS = [(2, 3), (1, 5)]
DT_DETS = [(6, 8), (7, 7)]


def dtype_data(scan, det, dtype, member):
    """integer counts (exact in every dtype of the alphabet), asymmetric in (row, column) and different for every pattern"""
    H, W = det
    N = scan[0] * scan[1]
    kr, kc = np.mgrid[:H, :W]
    k = np.arange(N).reshape(scan)[..., None, None]
    if dtype == "bool":
        a = ((kr + 2 * kc + k) % 3 != 0) | ((kr == 1) & (kc == 2))
        return a
    counts = 1 + 2 * kr + (kc * kc) % 7 + ((kr + 2 * kc + k) % 5) + k
    if member == "high":
        counts = counts * DTYPE_HIGH_SCALE.get(dtype, 160)
    elif member == "mid":  # odd multiples: pattern totals of several thousand, beyond the range where float16 adds integers exactly
        counts = counts * DTYPE_MID_SCALE.get(dtype, 13)
        if dtype == "float16" and not np.all((counts.sum((-2, -1)) > 4096) & (counts.sum((-2, -1)) < 65504)):
            raise Broken("dtype data builder: the float16 'mid' member must have pattern totals between 4096 and 65504")
    a = counts.astype(dtype)
    if not np.array_equal(a.astype(np.float64 if not np.iscomplexobj(a) else np.complex128).real, counts.astype(np.float64)):
        raise Broken(f"dtype data builder: counts are not exactly representable in {dtype} ({member})")
    if dtype == "float16" and member == "high" and not np.any(counts.sum((-2, -1)) > 65504):
        raise Broken("dtype data builder: the float16 'high' member has no pattern whose total exceeds the float16 range")
    return a


def apply_layout(a, layout):
    if layout == "C":
        return np.ascontiguousarray(a)
    if layout == "F":
        return np.asfortranarray(a)
    if layout == "transposed_view":
        return np.ascontiguousarray(a.transpose(3, 2, 1, 0)).transpose(3, 2, 1, 0)
    if layout == "strided_slice":
        big = np.zeros((a.shape[0], a.shape[1], 2 * a.shape[2], a.shape[3] + 3), dtype=a.dtype)
        big[:, :, ::2, 1:-2] = a
        return big[:, :, ::2, 1:-2]
    raise ValueError(layout)


def dtype_case(case, verbose=False):
    """case = {scan, det, dtype, member, layout}"""
    from quantem.core.datastructures import Dataset4dstem
    from quantem.diffractive_imaging.origin_models import CenterOfMassOriginModel

    scan, det, dt, member, layout = tuple(case["scan"]), tuple(case["det"]), case["dtype"], case["member"], case["layout"]
    sm = seams()
    N = scan[0] * scan[1]
    arr = apply_layout(dtype_data(scan, det, dt, member), layout)
    snap, strides = arr.copy(), arr.strides
    fails, points = [], []
    base = {"part": "dtype", "scan": list(scan), "det": list(det), "dtype": dt, "member": member, "layout": layout}

    def mk():
        return Dataset4dstem.from_array(arr, sampling=[1, 1, 0.1, 0.1], units=["A", "A", "A^-1", "A^-1"])

    if dt in DTYPES_REJECTED_ON_HEAD:
        try:
            CenterOfMassOriginModel.from_dataset(mk()).calculate_origin(None)
            run_preprocess_from(arr, True, sm)
            return [], [(["accepted_although_rejected_on_HEAD"], False)], "accepted"
        except Exception:
            return [], [(["rejected"], False)], "rejected"
    a64 = snap.astype(np.float64)
    H, W = det
    kr, kc = np.mgrid[:H, :W]
    tot = a64.sum((-2, -1))
    er, ec = (a64 * kr).sum((-2, -1)) / tot, (a64 * kc).sum((-2, -1)) / tot

    def judge(path, got_r, got_c, extra):
        got_r = np.asarray(got_r, dtype=np.float64).reshape(scan)
        got_c = np.asarray(got_c, dtype=np.float64).reshape(scan)
        with np.errstate(invalid="ignore"):
            d = max(float(np.max(np.abs(got_r - er))), float(np.max(np.abs(got_c - ec))))
        if not (d <= TOL_DTYPE):
            ix = np.unravel_index(int(np.nanargmax(np.nan_to_num(np.abs(got_r - er) + np.abs(got_c - ec), nan=np.inf))), scan)
            fails.append(({"relation": "com_equals_weighted_mean", "path": path, "dtype": dt}, dict(base, path=path, **extra), f"{path} {extra} on a {dt} stack ({member} counts, pattern totals up to {tot.max():.0f}, layout {layout}, scan {scan} det {det}): centre of mass differs from the float64 weighted mean by {d:.3e} px; pattern {tuple(int(i) for i in ix)}: got (row {got_r[ix]:.5f}, col {got_c[ix]:.5f}), expected (row {er[ix]:.5f}, col {ec[ix]:.5f})"))
        if verbose:
            print(f"    {path:42s} {str(extra):22s} max deviation {d:.3e} px")
        return np.stack([got_r, got_c])

    def attempt(path, fn, extra=None):
        try:
            return fn()
        except Broken:
            raise
        except Exception as e:
            if layout == "C":
                cls = {"relation": "dtype_accepted", "path": path, "dtype": dt}
            else:
                cls = {"relation": "layout_accepted", "path": path, "layout": layout}
            fails.append((cls, dict(base, path=path, **(extra or {})), f"{path} {extra or ''} raised {type(e).__name__}: {str(e)[:200]} on a {dt} stack in layout {layout} (scan {scan} det {det}); a legal 4-D dataset must be accepted in any dtype of the alphabet and any memory layout"))
            return None

    res = {}
    om = attempt("CenterOfMassOriginModel.from_dataset", lambda: CenterOfMassOriginModel.from_dataset(mk()))
    if om is not None:
        for bs in batch_sizes(N):
            if attempt("CenterOfMassOriginModel.calculate_origin", lambda: (om.calculate_origin(bs), 1), {"batch_size": bs}) is None:
                continue
            o = om.origin_measured.detach().cpu().numpy().astype(np.float64).reshape(*scan, 2)
            g = judge("CenterOfMassOriginModel.calculate_origin", o[..., 0], o[..., 1], {"batch_size": bs})
            if bs is None:
                res["om"] = g
            points.append((["om", bs], True))
        # the shift of the same stack: per-pattern integer origins, partial and full batches, both modes, against np.roll
        kk = np.arange(N)
        org = np.stack([(1 + kk) % H, (2 + 2 * kk) % W], -1)
        flat = a64.reshape(N, H, W)
        ref = np.stack([np.roll(flat[k], (-int(org[k, 0]), -int(org[k, 1])), axis=(0, 1)) for k in range(N)]).reshape(a64.shape)
        for bs, mode in itertools.product((None, 4), ("bilinear", "nearest")):
            pth = "CenterOfMassOriginModel.shift_origin_to"

            def do_shift():
                om.origin_fitted = torch.tensor(org, dtype=torch.float32)
                om.shift_origin_to((0, 0), max_batch_size=bs, mode=mode)
                return om.shifted_tensor.detach().cpu().numpy().astype(np.float64)

            sh = attempt(pth, do_shift, {"batch_size": bs, "mode": mode})
            if sh is None:
                continue
            d = float(np.max(np.abs(sh - ref))) / float(ref.max()) if sh.shape == ref.shape else float("inf")
            if (mode == "nearest" and not (sh.shape == ref.shape and np.array_equal(sh, ref))) or not (d <= TOL_SHIFT):
                fails.append(({"relation": "integer_origin_shift_equals_roll", "path": pth, "dtype": dt}, dict(base, path=pth, batch_size=bs, mode=mode), f"shift_origin_to((0,0), max_batch_size={bs}, mode={mode!r}) on a {dt} stack ({member} counts, layout {layout}, scan {scan} det {det}) differs from np.roll by {d:.3e} of the maximum"))
            if verbose:
                print(f"    {pth:42s} {str({'batch_size': bs, 'mode': mode}):38s} deviation {d:.3e}")
            points.append((["om_shift", bs, mode], True))
    for vec in (True, False) if sm["preprocess_vectorized"] else (True,):
        path = f"preprocess(vectorized={vec}).com_measured"
        r = attempt(path, lambda: run_preprocess_from(arr, vec, sm))
        if r is None:
            continue
        res[vec] = judge(path, r[0], r[1], {})
        points.append((["ds", vec], True))
    for a, b, rel_, name in ((True, False, "paths_agree", "preprocess vectorized vs looped"), (True, "om", "classes_agree", "preprocess(vectorized=True) vs calculate_origin"), (False, "om", "classes_agree", "preprocess(vectorized=False) vs calculate_origin")):
        if a in res and b in res:
            with np.errstate(invalid="ignore"):
                d = float(np.max(np.abs(res[a] - res[b])))
            if not (d <= TOL_DTYPE):
                fails.append(({"relation": rel_, "path": name, "dtype": dt}, dict(base, path=name), f"{name} disagree by {d:.3e} px on a {dt} stack ({member} counts, layout {layout}, scan {scan} det {det})"))
    if not (np.array_equal(arr, snap) and arr.strides == strides and arr.dtype == snap.dtype):
        fails.append(({"relation": "inputs_unmodified", "path": "4-D input array", "dtype": dt}, dict(base, path="4-D input array"), f"the {dt} array handed to the models (layout {layout}) was modified"))
    return _tag(fails), points, "accepted"


def run_preprocess_from(arr, vectorized, sm):
    """preprocess on a dataset built from the array AS GIVEN (dtype and layout preserved up to the library's own conversions)"""
    from quantem.core.datastructures import Dataset4dstem
    from quantem.diffractive_imaging.dataset_models import PtychographyDatasetRaster

    ds = Dataset4dstem.from_array(arr, sampling=[1, 1, 0.1, 0.1], units=["A", "A", "A^-1", "A^-1"])
    p = PtychographyDatasetRaster.from_dataset4dstem(ds, verbose=0)
    kw = dict(com_fit_function="none", force_com_rotation=0.0, force_com_transpose=False, plot_rotation=False, plot_com=False, obj_padding_px=(8, 8))
    if sm["preprocess_vectorized"]:
        kw["vectorized"] = vectorized
    with warnings.catch_warnings():
        warnings.simplefilter("ignore")
        p.preprocess(**kw)
    return np.asarray(p.com_measured, dtype=np.float64)


def eval_dtype(case):
    t = Tally()
    fails, points, status = dtype_case(case)
    key0 = [case["scan"], case["det"], case["dtype"], case["member"], case["layout"]]
    for key, nontriv in points:
        t.case(key=key0 + key, nontrivial=nontriv, outcome=None)
    for cls, sub, msg in fails:
        t.fail(cls, sub, msg)
    t.extra["dtype_configurations"] += 1
    t.extra[f"dtype_{case['dtype']}_{status}"] += 1
    if case["dtype"] == "float16" and case["member"] == "high" and case["layout"] == "strided_slice" and tuple(case["det"]) == (6, 8):
        t.sample({"dtype_configuration": key0, "paths_and_batch_sizes": len(points)}, cap=1)
    return t


# ----------------------------------------------------------------------------- part 8: intensity scale
# The centre of mass is the weighted mean whatever the overall magnitude of the (positive) intensities, and it is scale
# invariant. Scales are powers of ten; a scale is used only if every stored float32 value and every float32 sum the weighted
# mean needs (total x largest coordinate) is a normal, finite float32 number (guarded exactly below).
SCALES = [1e-30, 1e-20, 1e-12, 1e-6, 1.0, 1e6, 1e12, 1e30]
SC_SCANS = [(2, 3), (1, 5)]
SC_DETS = [(6, 8), (7, 7)]


def scale_representable(base64, scale):
    a32 = (base64 * scale).astype(np.float32)
    tiny, big = float(np.finfo(np.float32).tiny), float(np.finfo(np.float32).max)
    if not np.all(np.isfinite(a32)) or np.any(np.abs(a32) < tiny):
        return False
    worst = float(a32.astype(np.float64).sum((-2, -1)).max()) * max(a32.shape[-2:])
    return worst < big / 4 and float(a32.astype(np.float64).min()) > tiny * 4


def scale_case(case, verbose=False):
    """case = {scan, det, kind, dtype (float32|float64), scale, seed}: all centre-of-mass paths, every batch size."""
    from quantem.diffractive_imaging.origin_models import CenterOfMassOriginModel

    scan, det, kind, dt, scale, seed = tuple(case["scan"]), tuple(case["det"]), case["kind"], case["dtype"], case["scale"], case["seed"]
    sm = seams()
    N = scan[0] * scan[1]
    base64 = make_data(scan, det, kind, seed).astype(np.float64)
    if not scale_representable(base64, scale):
        return [], [], "skipped"
    arr = (base64 * scale).astype(np.float32).astype(dt)  # the same stored values in both dtypes
    er, ec = oracle_com(arr.astype(np.float32), None)
    er1, ec1 = oracle_com(base64.astype(np.float32), None)
    if max(float(np.max(np.abs(er - er1))), float(np.max(np.abs(ec - ec1)))) > 1e-6:
        raise Broken(f"scale data builder: rounding the scaled values to float32 moves the centre of mass by more than 1e-6 px ({case})")
    fails, points = [], []
    basec = {"part": "scale", "scan": list(scan), "det": list(det), "kind": kind, "dtype": dt, "scale": scale, "seed": seed}

    def judge(path, got_r, got_c, extra):
        got_r = np.asarray(got_r, dtype=np.float64).reshape(scan)
        got_c = np.asarray(got_c, dtype=np.float64).reshape(scan)
        with np.errstate(invalid="ignore"):
            d = max(float(np.max(np.abs(got_r - er))), float(np.max(np.abs(got_c - ec))))
            d1 = max(float(np.max(np.abs(got_r - er1))), float(np.max(np.abs(got_c - ec1))))
        if not (d <= TOL_COM):
            fails.append(({"relation": "com_equals_weighted_mean_at_any_intensity_scale", "path": path}, dict(basec, path=path, **extra), f"{path} {extra} on {dt} intensities x {scale:g} (pattern totals {float(arr.astype(np.float64).sum((-2, -1)).min()):.3g} .. {float(arr.astype(np.float64).sum((-2, -1)).max()):.3g}, scan {scan} det {det} data {kind}): centre of mass differs from the float64 weighted mean by {d:.3e} px; first pattern got ({got_r.ravel()[0]:.5f}, {got_c.ravel()[0]:.5f}), expected ({er.ravel()[0]:.5f}, {ec.ravel()[0]:.5f})"))
        elif not (d1 <= TOL_COM):
            fails.append(({"relation": "com_scale_invariant", "path": path}, dict(basec, path=path, **extra), f"{path} {extra}: centre of mass of the intensities x {scale:g} differs from that of the unscaled intensities by {d1:.3e} px"))
        if verbose:
            print(f"    {path:42s} {str(extra):22s} max deviation {d:.3e} px (vs unscaled data {d1:.3e})")
        return np.stack([got_r, got_c])

    def attempt(path, fn, extra=None):
        try:
            return fn()
        except Broken:
            raise
        except Exception as e:
            fails.append(({"relation": "path_runs", "path": path}, dict(basec, path=path, **(extra or {})), f"{path} {extra or ''} raised {type(e).__name__}: {str(e)[:200]} on {dt} intensities x {scale:g} (scan {scan} det {det})"))
            return None

    res = {}
    om = attempt("CenterOfMassOriginModel.from_dataset", lambda: CenterOfMassOriginModel.from_dataset(make_ds(arr)))
    if om is not None:
        for bs in batch_sizes(N):
            if attempt("CenterOfMassOriginModel.calculate_origin", lambda: (om.calculate_origin(bs), 1), {"batch_size": bs}) is None:
                continue
            o = om.origin_measured.detach().cpu().numpy().astype(np.float64).reshape(*scan, 2)
            g = judge("CenterOfMassOriginModel.calculate_origin", o[..., 0], o[..., 1], {"batch_size": bs})
            if bs is None:
                res["om"] = g
            points.append((["om", bs], scale != 1.0))
    for vec in (True, False) if sm["preprocess_vectorized"] else (True,):
        path = f"preprocess(vectorized={vec}).com_measured"
        r = attempt(path, lambda: run_preprocess_from(arr, vec, sm))
        if r is None:
            continue
        res[vec] = judge(path, r[0], r[1], {})
        points.append((["ds", vec], scale != 1.0))
    for a, b, rel_, name in ((True, False, "paths_agree", "preprocess vectorized vs looped"), (True, "om", "classes_agree", "preprocess(vectorized=True) vs calculate_origin"), (False, "om", "classes_agree", "preprocess(vectorized=False) vs calculate_origin")):
        if a in res and b in res:
            with np.errstate(invalid="ignore"):
                d = float(np.max(np.abs(res[a] - res[b])))
            if not (d <= TOL_COM):
                fails.append(({"relation": rel_, "path": name, "scale": "not 1" if scale != 1.0 else "1"}, dict(basec, path=name), f"{name} disagree by {d:.3e} px on {dt} intensities x {scale:g} (scan {scan} det {det} data {kind})"))
    return _tag(fails), points, "run"


def eval_scale(case):
    t = Tally()
    fails, points, status = scale_case(case)
    key0 = [case["scan"], case["det"], case["kind"], case["dtype"], case["scale"]]
    for key, nontriv in points:
        t.case(key=key0 + key, nontrivial=nontriv, outcome=None)
    for cls, sub, msg in fails:
        t.fail(cls, sub, msg)
    t.extra[f"scale_configurations_{status}"] += 1
    t.extra[f"scale_{case['dtype']}_{case['scale']:g}_{status}"] += 1
    if status == "run" and case["scale"] == 1e-12 and case["dtype"] == "float32" and case["kind"] == "ramp" and tuple(case["det"]) == (6, 8):
        t.sample({"intensity_scale": key0, "paths_and_batch_sizes": len(points)}, cap=1)
    return t


# plane / constant fits of origins of small and large magnitude: slopes x {1e-3, 1} and constant offsets {0, +-100, +-1000} px
# added to the exact planes. Tolerance 1e-5 x max(|origin|, 10): 1e-4 px for ordinary magnitudes (as TOL_FIT), 1e-2 px at 1000 px;
# HEAD delivers one float32 ulp of the magnitude (worst observed 1.2e-4 px at 1000 px, 1.5e-5 px at 100 px, 6e-7 px at <= 10 px).
# NOT in the alphabet: slopes multiplied by >= 30 (origins moving tens of detector pixels per scan step): the float32 PCA of
# fit_origin_background loses precision quadratically in the slope (relative error 9e-5 at x30, 1e-3 at x100, 7e-2 at x1000,
# measured on HEAD; fit_origin is exact there) - a conditioning limit of the method, reported, not a verdict.
ORIGIN_OFFSETS = [0.0, -1000.0, -100.0, 100.0, 1000.0]
SLOPE_SCALES = [1e-3, 1.0]


def fit_scale_case(case, verbose=False):
    """case = {scan, coef_r, coef_c, slope_scale, offset}: the exact plane (constant) with scaled slopes plus a constant offset."""
    from quantem.diffractive_imaging.origin_models import CenterOfMassOriginModel
    from quantem.diffractive_imaging.ptycho_utils import fit_origin

    scan, ssc, off = tuple(case["scan"]), case["slope_scale"], case["offset"]
    cr, cc = tuple(case["coef_r"]), tuple(case["coef_c"])
    pr, pc = plane_values(scan, cr) * ssc + off, plane_values(scan, cc) * ssc - off / 2
    mag = max(float(np.max(np.abs(pr))), float(np.max(np.abs(pc))))
    tol = 1e-5 * max(mag, 10.0)
    constant = cr[:2] == (0.0, 0.0) and cc[:2] == (0.0, 0.0)
    degenerate = 1 in scan
    fails, outs = [], []
    base = {"part": "fit_scale", "scan": list(scan), "coef_r": list(cr), "coef_c": list(cc), "slope_scale": ssc, "offset": off}
    where = f"scan {scan}: origins exactly on (row-plane {cr}, column-plane {cc}) x {ssc:g} + offsets ({off:g}, {-off / 2:g})"
    for fit in ["plane"] + (["constant"] if constant else []):
        rel_ = f"{fit}_fit_returns_{fit}_at_any_magnitude"
        try:
            with warnings.catch_warnings():
                warnings.simplefilter("ignore")
                qr, qc, _, _ = fit_origin(data=(pr.copy(), pc.copy()), fit_function=fit, mask=np.ones(scan, dtype=bool))
            d = max(float(np.max(np.abs(qr - pr))), float(np.max(np.abs(qc - pc))))
        except Exception:
            d = float("inf")
        if not (d <= tol):
            fails.append(({"relation": rel_, "path": "fit_origin", "scan_has_axis_of_length_1": degenerate}, dict(base, fit=fit, path="fit_origin"), f"fit_origin({fit!r}) on {where}: off by {d:.3e} px (tolerance {tol:.1e})"))
        try:
            om = CenterOfMassOriginModel.from_dataset(make_ds(np.ones((*scan, 2, 3), dtype=np.float32)))
            want = np.stack([pr, pc], -1).reshape(-1, 2)
            om.origin_measured = torch.tensor(want, dtype=torch.float32)
            om.fit_origin_background(fit_method=fit)
            of = om.origin_fitted.detach().cpu().numpy().astype(np.float64)
            d2 = float(np.max(np.abs(of - want))) if np.all(np.isfinite(of)) else float("inf")
        except Exception:
            d2 = float("inf")
        if not (d2 <= tol):
            if degenerate and fit == "plane":  # the known PCA finding on scans with an axis of length 1: same class as in the fit part
                cls = {"relation": "plane_fit_returns_plane", "path": "fit_origin_background", "scan_has_axis_of_length_1": True, "via": "direct, origins of other magnitude"}
            else:
                cls = {"relation": rel_, "path": "fit_origin_background", "scan_has_axis_of_length_1": degenerate}
            fails.append((cls, dict(base, fit=fit, path="fit_origin_background"), f"fit_origin_background({fit!r}) on {where}: off by {d2:.3e} px (tolerance {tol:.1e})"))
        if verbose:
            print(f"    {fit}: fit_origin {d:.3e} px, fit_origin_background {d2:.3e} px (tolerance {tol:.1e})")
        outs.append([fit, d, d2])
    return _tag(fails), outs


def eval_fit_scale(item):
    scan, ssc, off = item
    t = Tally()
    grid = coefficient_grid()
    cases = [(cr, grid[(i * 7 + 3) % len(grid)]) for i, cr in enumerate(grid) if i % 3 == 0]
    cases += [((0.0, 0.0, b1), (0.0, 0.0, b2)) for b1, b2 in itertools.product(CONSTANTS[1:], CONSTANTS[1:])]
    for cr, cc in cases:
        case = {"part": "fit_scale", "scan": list(scan), "coef_r": list(cr), "coef_c": list(cc), "slope_scale": ssc, "offset": off}
        fails, outs = fit_scale_case(case)
        t.case(key=case, nontrivial=True, outcome=None)
        for cls, sub, msg in fails:
            t.fail(cls, sub, msg)
        t.extra["fit_scale_cases"] += 1
    return t


# ----------------------------------------------------------------------------- part 9: integer-origin RANGE of shift_origin_to
# Per-pattern integer origins and the target coordinate over [-2H, 2H] x [-2W, 2W]: negative, zero, exactly H / W, beyond, mixed
# signs per pattern, planes crossing the detector edges; both modes; oracle np.roll by (coordinate - origin) (np.roll is modular).
def range_values(n):
    return list(range(-2 * n, 2 * n + 1))


def range_coarse(n):
    return [-2 * n, -n - 1, -n, -1, 0, 1, n - 1, n, n + 1, 2 * n]


def range_case(case, verbose=False):
    """case = {scan, det, variant, row, seed} (+ optional col, batch_size, mode). Variants:
    uniform      origin (row, c) for every c in [-2W, 2W], target (0, 0), batch sizes {None, 4}
    per_pattern  origin_k = (row - 2 + k, c + 3 - 2k): a plane crossing the edges, mixed signs, target (0, 0), batch sizes {None, 4}
    coarse       origins as per_pattern on the coarse grid, EVERY batch size
    coordinate   fixed per-pattern origins, target coordinate (row, c) over the full range, batch sizes {None, 4}"""
    from quantem.diffractive_imaging.origin_models import CenterOfMassOriginModel

    scan, det, variant, row, seed = tuple(case["scan"]), tuple(case["det"]), case["variant"], case["row"], case["seed"]
    H, W = det
    N = scan[0] * scan[1]
    arr = make_data(scan, det, "ramp" if variant in ("uniform", "coordinate") else "seeded", seed)
    flat = arr.reshape(N, H, W)
    om = CenterOfMassOriginModel.from_dataset(make_ds(arr))
    kk = np.arange(N)
    cols = [case["col"]] if "col" in case else (range_coarse(W) if variant == "coarse" else range_values(W))
    bss = batch_sizes(N) if variant == "coarse" else [None, 4]
    if "batch_size" in case:
        bss = [case["batch_size"]]
    modes = [case["mode"]] if "mode" in case else ["bilinear", "nearest"]
    fails, points = [], []
    for c in cols:
        if variant == "uniform":
            org = np.tile(np.array([[row, c]]), (N, 1))
            coord = (0, 0)
        elif variant in ("per_pattern", "coarse"):
            org = np.stack([row - 2 + kk, c + 3 - 2 * kk], -1)
            coord = (0, 0)
        else:
            org = np.stack([(1 + kk) % H - 2, 3 - (2 * kk) % W], -1)
            coord = (row, c)
        ref = np.stack([np.roll(flat[k], (int(coord[0] - org[k, 0]), int(coord[1] - org[k, 1])), axis=(0, 1)) for k in range(N)]).reshape(arr.shape)
        mixed = bool(np.any(org < 0) and np.any(org > 0))
        for bs, mode in itertools.product(bss, modes):
            sub = {"part": "range", "scan": list(scan), "det": list(det), "variant": variant, "row": row, "col": c, "batch_size": bs, "mode": mode, "seed": seed}
            try:
                om.origin_fitted = torch.tensor(org, dtype=torch.float32)
                om.shift_origin_to(coord, max_batch_size=bs, mode=mode)
                s = om.shifted_tensor.detach().cpu().numpy()
            except Exception as e:
                fails.append(({"relation": "path_runs", "path": "shift_origin_to", "mode": mode}, sub, f"shift_origin_to({coord}, max_batch_size={bs}, mode={mode!r}) raised {type(e).__name__}: {str(e)[:200]} for origins {org.tolist()}"))
                continue
            d = float(np.max(np.abs(s.astype(np.float64) - ref))) / float(ref.max())
            bad = (not np.array_equal(s, ref)) if mode == "nearest" else not (d <= TOL_SHIFT)
            if bad:
                k = int(np.argmax(np.abs(s - ref).reshape(N, -1).max(1)))
                neg = bool(np.any(org - np.array(coord) < 0))
                fails.append(({"relation": "integer_origin_shift_equals_roll_over_the_full_range", "mode": mode, "origin_minus_target_has_a_negative_component": neg}, sub, f"shift_origin_to({coord}, max_batch_size={bs}, mode={mode!r}) scan {scan} det {det} {variant}: differs from np.roll by {d:.3e} of the maximum; pattern {k} origin {org[k].tolist()} target {list(coord)}: first row got {s.reshape(N, H, W)[k, 0].round(4).tolist()}, expected {ref.reshape(N, H, W)[k, 0].round(4).tolist()}"))
            if verbose:
                print(f"    {variant} origin[0] {org[0].tolist()} target {list(coord)} batch {bs} {mode:8s} deviation {d:.3e}")
            points.append(([c, bs, mode], bool(np.any(org - np.array(coord) < 0)) or bool(np.any(org >= np.array([H, W]))), mixed))
    return _tag(fails), points


def eval_range(case):
    t = Tally()
    fails, points = range_case(case)
    key0 = [case["scan"], case["det"], case["variant"], case["row"]]
    for key, nontriv, mixed in points:
        t.case(key=key0 + key, nontrivial=nontriv, outcome=None)
        t.extra["range_calls_with_a_negative_or_beyond_component"] += int(nontriv)
        t.extra["range_calls_with_mixed_signs"] += int(mixed)
    for cls, sub, msg in fails:
        t.fail(cls, sub, msg)
    t.extra["range_calls"] += len(points)
    if case["variant"] == "per_pattern" and case["row"] == -1 and tuple(case["det"]) == (6, 8):
        t.sample({"origin_range": key0, "calls": len(points)}, cap=1)
    return t


# ----------------------------------------------------------------------------- part 10: object histories (kept results, copies, feed-back)
# Every result a call exposes (shifted_tensor, origin_measured, origin_fitted, the model's tensor; com arrays of the dataset
# model) is KEPT (object + bitwise copy) and re-compared after every later event: a kept result must not change. Copies
# (copy.copy / deepcopy / pickle, save+load in fixed histories) are used further with other origins / targets and the ordinary
# oracle is applied to BOTH objects after every event: each object's shifted stack is the roll by ITS OWN origins at ITS last
# shift, its origin_measured the weighted mean of ITS data at its last calculate_origin, its tensor the content it was given.
# Feed-back: model.tensor = model.shifted_tensor, then calculate / shift again on the new content as it was when assigned.
OH_SCAN = (2, 3)
OH_DET = (6, 8)
OH_EVENTS = [
    ["calc", "x", None],
    ["calc", "y", 4],
    ["shift", "x", "A", [0, 0], "bilinear"],
    ["shift", "x", "B", [0, 0], "bilinear"],
    ["shift", "x", "A", [0, 0], "nearest"],
    ["shift", "y", "A", [0, 0], "bilinear"],
    ["shift", "y", "B", [0, 0], "bilinear"],
    ["shift", "y", "B", [2, 3], "bilinear"],
    ["copy", "copy"],
    ["copy", "deepcopy"],
    ["copy", "pickle"],
    ["feedback", "x"],
    ["feedback", "y"],
]
OH_SAVELOAD_HISTORIES = [  # save + load costs ~0.5 s: fixed histories instead of an alphabet member
    [["calc", "x", None], ["shift", "x", "A", [0, 0], "bilinear"], ["copy", "saveload"], ["shift", "y", "B", [0, 0], "bilinear"]],
    [["shift", "x", "A", [0, 0], "bilinear"], ["copy", "saveload"], ["shift", "x", "B", [2, 3], "bilinear"], ["calc", "y", 4]],
]


def oh_origins(which):
    H, W = OH_DET
    kk = np.arange(OH_SCAN[0] * OH_SCAN[1])
    A = np.stack([(1 + kk) % H, (2 + 2 * kk) % W], -1)
    return A if which == "A" else (A + np.array([2, 3])) % np.array([H, W])


def _clone_model(om, how, scratch):
    import copy
    import pickle

    if how == "copy":
        return copy.copy(om)
    if how == "deepcopy":
        return copy.deepcopy(om)
    if how == "pickle":
        return pickle.loads(pickle.dumps(om))
    if how == "saveload":
        import os
        import tempfile

        from quantem.core.io.serialize import load

        d = tempfile.mkdtemp(dir=scratch)
        pth = os.path.join(d, "model.zip")
        om.save(pth)
        return load(pth)
    raise ValueError(how)


def object_history(hist, seed, scratch=None, verbose=False):
    """Run one history; after EVERY event check kept results and both objects. Returns (list of (cls, msg), applicable)."""
    from quantem.diffractive_imaging.origin_models import CenterOfMassOriginModel

    H, W = OH_DET
    N = OH_SCAN[0] * OH_SCAN[1]
    data0 = make_data(OH_SCAN, OH_DET, "seeded", seed)
    x = {"name": "original", "om": CenterOfMassOriginModel.from_dataset(make_ds(data0)), "data": data0.copy(), "com": None, "fit": None, "shift": None}
    objs = {"x": x, "y": x}
    kept = []  # (label, tensor object, bitwise clone, event index)
    fails = []

    def keep(rec, i):
        om = rec["om"]
        for label in ("shifted_tensor", "origin_measured", "origin_fitted", "tensor"):
            t = getattr(om, label, None)
            if isinstance(t, torch.Tensor) and not any(k[1] is t for k in kept):
                kept.append((f"{rec['name']}.{label}", t, t.detach().clone(), i))

    def check(i, ev):
        for label, t, c, j in kept:
            if t.shape != c.shape or not torch.equal(t, c):
                fails.append(({"relation": "kept_result_unchanged", "result": label.split(".")[1]}, f"history {hist[: i + 1]}: the {label} obtained after event {j} ({hist[j]}) changed during event {i} ({ev})"))
        seen = []
        for rec in objs.values():
            if any(rec is r for r in seen):
                continue
            seen.append(rec)
            om = rec["om"]

            def bad(what, detail):
                fails.append(({"relation": "object_state_matches_its_own_history", "what": what, "object": rec["name"]}, f"history {hist[: i + 1]}: after event {i} ({ev}) the {rec['name']} model's {what} {detail}"))

            tn = om.tensor.detach().cpu().numpy()
            if tn.shape != rec["data"].shape or not np.array_equal(tn, rec["data"]):
                bad("tensor", "is no longer the content it was given")
            if rec["com"] is not None:
                o = om.origin_measured.detach().cpu().numpy().astype(np.float64)
                d = float(np.max(np.abs(o - rec["com"])))
                if not (d <= TOL_COM):
                    bad("origin_measured", f"differs from the weighted mean of its data at its last calculate_origin by {d:.3e} px")
            if rec["fit"] is not None and not np.array_equal(om.origin_fitted.detach().cpu().numpy(), rec["fit"].astype(np.float32)):
                bad("origin_fitted", "is no longer the origins it was given")
            if rec["shift"] is not None:
                sh = om.shifted_tensor.detach().cpu().numpy().astype(np.float64)
                d = float(np.max(np.abs(sh - rec["shift"]))) / float(rec["shift"].max()) if sh.shape == rec["shift"].shape else float("inf")
                if not (d <= TOL_SHIFT):
                    bad("shifted_tensor", f"differs from the roll of its own data by its own origins (as of its last shift_origin_to) by {d:.3e} of the maximum")

    for i, ev in enumerate(hist):
        kind = ev[0]
        if kind == "copy":
            src = objs["x"]
            try:
                om2 = _clone_model(src["om"], ev[1], scratch)
            except Exception as e:
                fails.append(({"relation": "copy_supported", "how": ev[1], "class": "CenterOfMassOriginModel"}, f"history {hist[: i + 1]}: {ev[1]} of the origin model raised {type(e).__name__}: {str(e)[:200]}"))
                return fails, True
            objs["y"] = {"name": "copy", "om": om2, "data": src["data"].copy(), "com": None if src["com"] is None else src["com"].copy(), "fit": None if src["fit"] is None else src["fit"].copy(), "shift": None if src["shift"] is None else src["shift"].copy()}
            keep(objs["y"], i)
        else:
            rec = objs[ev[1]]
            om = rec["om"]
            if kind == "calc":
                om.calculate_origin(ev[2])
                er, ec = oracle_com(rec["data"], None)
                rec["com"] = np.stack([er.ravel(), ec.ravel()], -1)
            elif kind == "shift":
                org = oh_origins(ev[2])
                om.origin_fitted = torch.tensor(org, dtype=torch.float32)
                om.shift_origin_to(tuple(ev[3]), max_batch_size=4, mode=ev[4])
                flat = rec["data"].reshape(N, H, W).astype(np.float64)
                rec["fit"] = org.astype(np.float64)
                rec["shift"] = np.stack([np.roll(flat[k], (int(ev[3][0] - org[k, 0]), int(ev[3][1] - org[k, 1])), axis=(0, 1)) for k in range(N)]).reshape(rec["data"].shape)
            elif kind == "feedback":
                if om.shifted_tensor is None:
                    return [], False  # not applicable: nothing to feed back
                content = om.shifted_tensor.detach().cpu().numpy().copy()
                om.tensor = om.shifted_tensor
                rec["data"] = content
            keep(rec, i)
        check(i, ev)
        if verbose:
            print(f"    event {i} {ev}: {len(kept)} kept results, {len(fails)} failures so far")
        if fails:
            break  # the shortest failing prefix is the finding
    return fails, True


def eval_object_history(item, seed=0, depth=3):
    t = Tally()
    first = list(item)
    level = [[]]
    tails = []
    for _ in range(depth - 1):
        level = [tl + [e] for tl in level for e in OH_EVENTS]
        tails += level
    for tail in tails:
        hist = [first] + tail
        try:
            fails, applicable = object_history(hist, seed)
        except Exception as e:
            t.case(key=hist, nontrivial=True, outcome="raised")
            t.fail({"relation": "history_runs", "part": "object_history"}, {"part": "object_history", "history": hist, "seed": seed, "relation": "history_runs", "cls_path": None}, f"object history {hist}: raised {type(e).__name__}: {str(e)[:200]}")
            continue
        if not applicable:
            t.extra["object_histories_not_applicable"] += 1
            continue
        t.case(key=hist, nontrivial=True, outcome=None)
        t.extra["object_histories"] += 1
        t.extra["object_histories_with_a_copy"] += int(any(e[0] == "copy" for e in hist))
        t.extra["object_histories_with_feed_back"] += int(any(e[0] == "feedback" for e in hist))
        for cls, msg in fails[:2]:
            t.fail(cls, {"part": "object_history", "history": hist, "seed": seed, "relation": cls["relation"], "cls_path": None}, msg)
    return t


def eval_object_history_fixed(item, seed=0, scratch=None):
    """fixed histories with save + load, and the dataset-model copies"""
    t = Tally()
    kind, payload = item
    if kind == "saveload":
        fails, _ = object_history(payload, seed, scratch=scratch)
        t.case(key=payload, nontrivial=True, outcome=None)
        t.extra["object_histories_with_save_and_load"] += 1
        for cls, msg in fails[:2]:
            t.fail(cls, {"part": "object_history", "history": payload, "seed": seed, "relation": cls["relation"], "cls_path": None}, msg)
        return t
    how, which = payload
    for cls, msg in dataset_copy_case(how, which, seed, t):
        t.fail(cls, {"part": "dataset_copy", "how": how, "which": which, "seed": seed, "relation": cls["relation"], "cls_path": None}, msg)
    return t


def dataset_copy_case(how, which, seed, t=None, verbose=False):
    """dataset model: preprocess, copy, preprocess the copy (or the original) with other settings; both judged, com arrays kept"""
    import copy
    import pickle

    arr = make_data(OH_SCAN, OH_DET, "seeded", seed)
    er, ec = oracle_com(arr, None)
    want = np.stack([er, ec])
    p = run_preprocess_obj(arr, True, "none", False)
    try:
        q = {"copy": copy.copy, "deepcopy": copy.deepcopy, "pickle": lambda o: pickle.loads(pickle.dumps(o))}[how](p)
    except Exception as e:
        if t is not None:
            t.extra[f"dataset_model_{how}_not_supported"] += 1  # counted, not flagged (deepcopy raises on HEAD)
        if verbose:
            print(f"    {how} of the dataset model raised {type(e).__name__}: {e}")
        return []
    fails = []
    kept = [(n, getattr(o, n), np.array(getattr(o, n), copy=True) if isinstance(getattr(o, n), np.ndarray) else getattr(o, n).detach().clone()) for o in (p, q) for n in ("com_measured", "com_fit", "centered_amplitudes")]
    target = q if which == "copy" else p
    kw = dict(com_fit_function="constant", force_com_rotation=0.0, force_com_transpose=False, plot_rotation=False, plot_com=False, obj_padding_px=(8, 8), bilinear=True)
    if seams()["preprocess_vectorized"]:
        kw["vectorized"] = False
    with warnings.catch_warnings():
        warnings.simplefilter("ignore")
        target.preprocess(**kw)
    for name, o in (("original", p), ("copy", q)):
        d = float(np.max(np.abs(np.asarray(o.com_measured, dtype=np.float64) - want)))
        if not (d <= TOL_COM):
            fails.append(({"relation": "object_state_matches_its_own_history", "what": "com_measured", "object": name}, f"dataset model, {how}, the {which} preprocessed again: the {name}'s com_measured differs from the weighted mean by {d:.3e} px"))
    for n, obj, snap in kept:
        same = np.array_equal(obj, snap) if isinstance(obj, np.ndarray) else torch.equal(obj, snap)
        if not same:
            fails.append(({"relation": "kept_result_unchanged", "result": n}, f"dataset model, {how}: a kept {n} changed when the {which} was preprocessed again"))
    if t is not None:
        t.case(key=["dataset_copy", how, which], nontrivial=True, outcome=None)
        t.extra["dataset_model_copy_cases"] += 1
    return fails


# ----------------------------------------------------------------------------- part 11: CONTENT of the detector mask x every code path
# A mask is a weight per detector pixel, not only an open/closed flag: the centre of mass under a mask m is the mean coordinate
# weighted by intensity x m, whatever the values of m (0/1, a constant, a soft edge, a ramp, weights above one) and whatever the
# dtype / memory order the mask arrives in, and it is the same on the vectorised and the looped path of the dataset model
# (mask argument of _set_intensities_com) and on both classes fed with the product intensity x m (every batch size).
# A binary alphabet cannot tell m from m*m, nor "mask in the numerator only" from "mask in both sums" when m is constant.
MC_SCANS = [(2, 3), (1, 5)]
MC_DETS = [(6, 8), (7, 7)]
MC_KINDS = ["ramp", "seeded"]
MC_BINARY = ["all_ones", "half_plane", "disc", "single_open_pixel", "one_excluded_pixel"]
MC_FRACTIONAL = ["constant_half", "soft_disc", "soft_half_plane", "ramp_weights", "seeded_weights", "weights_above_one"]
MC_INTEGER = ["integer_weights_0_to_3"]
MC_MASKS = MC_BINARY + MC_FRACTIONAL + MC_INTEGER
MC_DTYPES = {**{k: ["bool", "uint8", "float32", "float64"] for k in MC_BINARY}, **{k: ["float32", "float64"] for k in MC_FRACTIONAL}, **{k: ["uint8", "int64", "float32", "float64"] for k in MC_INTEGER}}
MC_ORDERS = ["C", "F"]  # memory order of the mask array (F only for float32: the dtype the library keeps as it is)


def mask_content(det, name, seed):
    """float64 weights >= 0 of the detector mask `name` (at least one open pixel; exactly representable in every dtype listed for it)."""
    H, W = det
    kr, kc = np.mgrid[:H, :W]
    if name == "all_ones":
        m = np.ones(det)
    elif name == "half_plane":
        m = (2 * kr + kc <= 12).astype(np.float64)
    elif name == "disc":
        m = ((kr - 2.5) ** 2 + (kc - 2.5) ** 2 <= 2.6**2 + 1e-9).astype(np.float64)
    elif name == "single_open_pixel":
        m = np.zeros(det)
        m[2, 3] = 1.0
    elif name == "one_excluded_pixel":
        m = np.ones(det)
        m[1, 4] = 0.0
    elif name == "constant_half":
        m = np.full(det, 0.5)
    elif name == "soft_disc":  # 1 inside, a ring of fractional weights, 0 outside
        m = np.clip(3.1 - np.sqrt((kr - 2.5) ** 2 + (kc - 2.5) ** 2), 0.0, 1.0)
    elif name == "soft_half_plane":  # weights {0, .25, .5, .75, 1}
        m = np.clip((13.0 - 2 * kr - kc) / 4.0, 0.0, 1.0)
    elif name == "ramp_weights":  # strictly inside (0, 1], no closed pixel
        m = (1.0 + kr + 2 * kc) / (1.0 + (H - 1) + 2 * (W - 1))
    elif name == "seeded_weights":
        m = 0.05 + 0.9 * np.random.default_rng([seed, 1811, H, W]).random(det)
    elif name == "weights_above_one":  # {0, .5, .., 3.5}
        m = 0.5 * ((kr + 2 * kc) % 8)
    elif name == "integer_weights_0_to_3":
        m = ((kr + 2 * kc) % 4).astype(np.float64)
    else:
        raise ValueError(name)
    return m.astype(np.float32).astype(np.float64)  # the values every float dtype of the alphabet stores exactly


def maskcontent_case(case, verbose=False):
    """case = {scan, det, kind, mask, seed}: the mask in every dtype / order through both dataset paths (private mask seam), and
    intensity x mask through CenterOfMassOriginModel (every batch size) and the public preprocess (both paths)."""
    from quantem.diffractive_imaging.dataset_models import PtychographyDatasetRaster
    from quantem.diffractive_imaging.origin_models import CenterOfMassOriginModel

    scan, det, kind, mname, seed = tuple(case["scan"]), tuple(case["det"]), case["kind"], case["mask"], case["seed"]
    sm = seams()
    N = scan[0] * scan[1]
    raw = make_data(scan, det, kind, seed)
    m64 = mask_content(det, mname, seed)
    fractional = bool(np.any((m64 != 0.0) & (m64 != 1.0)))
    if m64.min() < 0 or not m64.max() > 0 or fractional != (mname not in MC_BINARY):
        raise Broken(f"mask alphabet member {mname} on detector {det} is not what its name says")
    er, ec = oracle_com(raw, m64)  # float64 intensity x mask weighted mean coordinate
    pre = np.ascontiguousarray((raw.astype(np.float64) * m64).astype(np.float32))  # what the mask-less public paths are given
    pr_, pc_ = oracle_com(pre, None)
    if max(float(np.max(np.abs(pr_ - er))), float(np.max(np.abs(pc_ - ec)))) > 1e-6:
        raise Broken(f"mask-content data builder: rounding intensity x mask to float32 moves the centre of mass by more than 1e-6 px ({case})")
    fails, points = [], []
    base = {"part": "maskcontent", "scan": list(scan), "det": list(det), "kind": kind, "mask": mname, "seed": seed}
    desc = f"mask {mname} (weights {float(m64.min()):g} .. {float(m64.max()):g}, {'fractional' if fractional else 'binary'}) scan {scan} det {det} data {kind}"

    def dev(got_r, got_c):
        got_r = np.asarray(got_r, dtype=np.float64).reshape(scan)
        got_c = np.asarray(got_c, dtype=np.float64).reshape(scan)
        with np.errstate(invalid="ignore"):
            d = max(float(np.max(np.abs(got_r - er))), float(np.max(np.abs(got_c - ec))))
        d = d if np.isfinite(d) else float("inf")
        ix = np.unravel_index(int(np.nanargmax(np.nan_to_num(np.abs(got_r - er) + np.abs(got_c - ec), nan=np.inf))), scan)
        return d, f"pattern {tuple(int(i) for i in ix)}: got (row {got_r[ix]:.5f}, col {got_c[ix]:.5f}), expected (row {er[ix]:.5f}, col {ec[ix]:.5f})", np.stack([got_r, got_c])

    def attempt(path, fn, cls_extra, extra):
        try:
            return fn()
        except Broken:
            raise
        except Exception as e:
            fails.append((dict({"relation": "path_runs", "path": path}, **cls_extra), dict(base, path=path, **extra), f"{path} {extra} raised {type(e).__name__}: {str(e)[:200]} on {desc}"))
            if verbose:
                print(f"    {path:46s} {str(extra):44s} raised {type(e).__name__}: {e}")
            return None

    res = {}
    # (a) the mask ARGUMENT of the dataset model, vectorised and looped, every dtype and memory order of the mask
    if sm["dp_mask"]:
        for dt in MC_DTYPES[mname]:
            for order in MC_ORDERS if dt == "float32" else ["C"]:
                marg = np.array(m64.astype(dt), order=order)
                if not np.array_equal(marg.astype(np.float64), m64):
                    raise Broken(f"mask {mname} is not representable in {dt}")
                msnap = marg.copy()
                for vec in (True, False):
                    path = f"_set_intensities_com(dp_mask, vectorized_calculation={vec})"
                    extra = {"mask_dtype": dt, "mask_order": order, "vectorized": vec}
                    cls_x = {"mask_weights": "fractional" if fractional else "binary", "mask_dtype": dt}
                    p = PtychographyDatasetRaster.from_dataset4dstem(make_ds(raw), verbose=0)
                    if attempt(path, lambda: (p._set_intensities_com(raw.copy(), dp_mask=marg, fit_function="none", vectorized_calculation=vec), 1), cls_x, extra) is None:
                        continue
                    cm = np.asarray(p.com_measured, dtype=np.float64)
                    d, where, g = dev(cm[0], cm[1])
                    if not (d <= TOL_COM):
                        fails.append((dict({"relation": "com_equals_mask_weighted_mean", "path": path}, **cls_x), dict(base, path=path, **extra), f"{path} with a {dt} ({order}-order) {desc}: centre of mass differs from the float64 intensity x mask weighted mean by {d:.3e} px; {where}"))
                    if not (np.array_equal(marg, msnap) and marg.dtype == msnap.dtype):
                        fails.append((dict({"relation": "inputs_unmodified", "path": path}, **cls_x), dict(base, path=path, **extra), f"{path} modified the {dt} mask array it was given ({desc})"))
                    if verbose:
                        print(f"    {path:46s} {str(extra):44s} max deviation {d:.3e} px")
                    res[("seam", dt, order, vec)] = g
                    points.append((["seam", dt, order, vec], fractional or mname != "all_ones"))
                a, b = res.get(("seam", dt, order, True)), res.get(("seam", dt, order, False))
                if a is not None and b is not None:
                    with np.errstate(invalid="ignore"):
                        d = float(np.max(np.abs(a - b)))
                    if not (d <= TOL_COM):
                        fails.append(({"relation": "paths_agree", "path": "_set_intensities_com(dp_mask) vectorized vs looped", "mask_weights": "fractional" if fractional else "binary", "mask_dtype": dt}, dict(base, path="agree", mask_dtype=dt, mask_order=order), f"vectorised and looped centre of mass under a {dt} {desc} disagree by {d:.3e} px"))
    # (b) intensity x mask through the mask-less public paths: origin model at every batch size, preprocess on both paths
    om = attempt("CenterOfMassOriginModel.from_dataset", lambda: CenterOfMassOriginModel.from_dataset(make_ds(pre)), {}, {})
    if om is not None:
        for bs in batch_sizes(N):
            path = "CenterOfMassOriginModel.calculate_origin(intensity x mask)"
            if attempt(path, lambda: (om.calculate_origin(bs), 1), {}, {"batch_size": bs}) is None:
                continue
            o = om.origin_measured.detach().cpu().numpy().astype(np.float64).reshape(*scan, 2)
            d, where, g = dev(o[..., 0], o[..., 1])
            if not (d <= TOL_COM):
                fails.append(({"relation": "com_equals_mask_weighted_mean", "path": path, "mask_weights": "fractional" if fractional else "binary"}, dict(base, path=path, batch_size=bs), f"calculate_origin({bs}) on intensity x {desc}: centre of mass differs from the float64 weighted mean by {d:.3e} px; {where}"))
            if verbose:
                print(f"    {path:46s} {str({'batch_size': bs}):44s} max deviation {d:.3e} px")
            if bs is None:
                res["om"] = g
            points.append((["om", bs], fractional or mname != "all_ones"))
    for vec in (True, False) if sm["preprocess_vectorized"] else (True,):
        path = f"preprocess(vectorized={vec}).com_measured(intensity x mask)"
        r = attempt(path, lambda: run_preprocess(pre, vec, "none", sm["preprocess_vectorized"]), {}, {})
        if r is None:
            continue
        d, where, g = dev(r[0][0], r[0][1])
        if not (d <= TOL_COM):
            fails.append(({"relation": "com_equals_mask_weighted_mean", "path": path, "mask_weights": "fractional" if fractional else "binary"}, dict(base, path=path), f"{path} on intensity x {desc}: centre of mass differs from the float64 weighted mean by {d:.3e} px; {where}"))
        if verbose:
            print(f"    {path:46s} {'':44s} max deviation {d:.3e} px")
        res[("ds", vec)] = g
        points.append((["ds", vec], fractional or mname != "all_ones"))
    # (c) every path agrees with every other one (mask as argument = mask multiplied in beforehand; both classes; both paths)
    ref_keys = [k for k in (("ds", True), ("ds", False), "om") if k in res]
    for i, a in enumerate(ref_keys):
        for b in ref_keys[i + 1 :]:
            with np.errstate(invalid="ignore"):
                d = float(np.max(np.abs(res[a] - res[b])))
            if not (d <= TOL_COM):
                name = f"{'calculate_origin' if a == 'om' else f'preprocess(vectorized={a[1]})'} vs {'calculate_origin' if b == 'om' else f'preprocess(vectorized={b[1]})'}"
                fails.append(({"relation": "classes_agree" if "om" in (a, b) else "paths_agree", "path": name, "mask_weights": "fractional" if fractional else "binary"}, dict(base, path=name), f"{name} disagree by {d:.3e} px on intensity x {desc}"))
    if "om" in res:
        for k, g in res.items():
            if isinstance(k, tuple) and k[0] == "seam":
                with np.errstate(invalid="ignore"):
                    d = float(np.max(np.abs(g - res["om"])))
                if not (d <= TOL_COM):
                    fails.append(({"relation": "mask_argument_equals_premultiplied_mask", "path": f"_set_intensities_com(dp_mask, vectorized_calculation={k[3]}) vs calculate_origin", "mask_weights": "fractional" if fractional else "binary", "mask_dtype": k[1]}, dict(base, path="agree", mask_dtype=k[1], mask_order=k[2], vectorized=k[3]), f"_set_intensities_com(dp_mask as {k[1]}, vectorized_calculation={k[3]}) and calculate_origin on intensity x mask disagree by {d:.3e} px ({desc})"))
    return _tag(fails), points, fractional


def eval_maskcontent(case):
    t = Tally()
    fails, points, fractional = maskcontent_case(case)
    key0 = [case["scan"], case["det"], case["kind"], case["mask"]]
    for key, nontriv in points:
        t.case(key=key0 + key, nontrivial=nontriv, outcome=None)
    for cls, sub, msg in fails:
        t.fail(cls, sub, msg)
    t.extra["mask_content_configurations"] += 1
    t.extra["mask_content_points_fractional_mask"] += len(points) if fractional else 0
    t.extra["mask_content_points_fractional_mask_looped_mask_argument"] += sum(1 for k, _ in points if fractional and k[0] == "seam" and k[3] is False)
    if case["mask"] == "soft_disc" and case["kind"] == "ramp" and tuple(case["det"]) == (6, 8):
        t.sample({"mask_content": key0, "paths_dtypes_and_batch_sizes": len(points)}, cap=1)
    return t


# ----------------------------------------------------------------------------- run / replay
def run(ctx):
    warnings.simplefilter("ignore")
    sm = seams()
    if not sm["preprocess_vectorized"]:
        ctx.seam_missing.append("PtychographyDatasetRaster.preprocess(vectorized=...) (only the default path is exercised)")
    if not sm["dp_mask"]:
        ctx.seam_missing.append("PtychographyDatasetRaster._set_intensities_com(dp_mask=...) (masks enter as pre-masked data only)")
    ctx.assume(
        "masks reach the public paths as pre-masked data (CenterOfMassOriginModel and preprocess take no mask); the dataset model's dp_mask argument is exercised through the private _set_intensities_com when it exists",
        "fit_origin is driven with an explicit all-true mask, as _set_intensities_com drives it (mask=None on 2-D input is an unused, broken path and not part of the property)",
        "data alphabet: deterministic asymmetric ramps, seeded positive noise with a row tilt, blobs on a flat background whose centre of mass is exactly planar in the scan position; VERIF_SEED fills the seeded members",
        "preprocess is run with force_com_rotation=0, force_com_transpose=False, no plots, obj_padding_px=(8,8) (tiny problems need padding); these do not enter the centre of mass",
        "a plane through a scan with an axis of length 1 is not unique, but its values at the scan positions are; such scans stay in the lattice",
        "integer fitted origin -> roll: the origin model is judged with the fitted origins rounded to the integers they equal within 1e-4 (shift_origin_to is exact only for bit-exact integers: for an origin such as 2.99999 the wrapped row is interpolated against zero padding; counted in count_origin_model_unrounded_fitted_origin_loses_wrapped_pixels, not a verdict); the dataset model is judged with its own fitted origins",
        "input dtype x layout: complex64 is rejected by both classes on HEAD and is counted, not flagged; every other rejection of a dtype or memory layout of the alphabet is a failure (dtype_accepted / layout_accepted)",
        "object histories: copy.deepcopy of a preprocessed PtychographyDatasetRaster raises on HEAD (torch refuses to deepcopy non-leaf tensors): counted, not flagged (copying is not part of the property); save+load (0.5 s per model) appears in fixed histories only; there is no public feed-back for the dataset model",
        "origin range: integer origins outside the detector (negative, >= H/W) and integer target coordinates other than the corner are judged by np.roll by (coordinate - origin), which is modular; in the call-history part a shift to another target still only appears as an earlier call",
        "a shift_origin_to call with a target other than the corner is outside the property and only appears as an EARLIER call of a history",
    )

    def once():
        a = com_case({"scan": [3, 4], "det": [6, 8], "mask": "disc", "kind": "blob3", "seed": ctx.seed})
        b = fit_case({"scan": [2, 3], "coef_r": [0.5, -0.5, 2.5], "coef_c": [-1.0, 0.5, 3.0]})
        c = shift_case({"scan": [2, 3], "det": [8, 6], "variant": "per_pattern", "origin_row": 3, "seed": ctx.seed})
        # a failing part is compared by its failure classes only: a defective library may return uninitialised memory, and
        # that must end as a VIOLATION (exit 1), not as a non-determinism of the check (exit 2)
        def part(fails, obs):
            return sorted({repr(sorted(cls.items())) for cls, _, _ in fails}) if fails else obs

        return (part(a[0], a[1]), part(b[0], b[1]), part(c[0], c[1]))

    ctx.selftest(once)

    scans, dets, kinds = (SCANS, DETS, KINDS) if ctx.quick else (SCANS_T, DETS_T, KINDS_T)
    com_items = [
        {"part": "com", "scan": list(s), "det": list(d), "mask": m, "kind": k, "seed": ctx.seed}
        for s, d, m, k in itertools.product(scans, dets, MASKS, kinds)
        if not k.startswith("blob") or blob_fits(s, int(k[4:]))
    ]
    ctx.say(f"centre of mass: {len(com_items)} configurations x every batch size x every code path")
    mA = ctx.pmap(eval_com, com_items, chunk=2, label="com")
    fit_items = [(s, mx) for s in scans for mx in PLANE_SLOPES]
    mB = ctx.pmap(eval_fit, fit_items, chunk=1, label="fits")
    shift_items = [
        {"part": "shift", "scan": list(s), "det": list(d), "variant": v, "origin_row": r, "seed": ctx.seed}
        for s, d, v in itertools.product(scans, dets, ["uniform", "per_pattern"])
        for r in range(d[0])
    ]
    shift_items += [
        {"part": "shift", "scan": list(BIG_SCAN), "det": list(d), "variant": v, "origin_row": r, "seed": ctx.seed}
        for d, v in itertools.product(DETS_BIG, ["uniform", "per_pattern"])
        for r in range(d[0])
    ]
    mC = ctx.pmap(eval_shift, shift_items, chunk=1, label="shift")
    # ptycho_utils.shift_array: every integer shift, Fourier and bilinear branch, small and large-prime detector lengths
    sa_dets = list(dets) + DETS_BIG
    mD = ctx.pmap(eval_shift_array, [{"part": "shift_array", "det": list(d), "seed": ctx.seed} for d in sa_dets], chunk=1, label="shift_array")
    # integer fitted origin -> circular roll through BOTH classes (dataset model read back through centered_amplitudes/intensities)
    io_scans = [(2, 3), (3, 2)] + ([] if ctx.quick else [(3, 3)])
    io_items = [
        {"part": "intorigin", "scan": list(sc), "det": list(d), "origins": k, "fit": f}
        for sc, d, (k, f) in itertools.product(io_scans, sa_dets, [("constant", "constant"), ("constant", "plane"), ("planar", "plane")])
        if intorigin_fits(sc, d, k)
    ]
    mE = ctx.pmap(eval_intorigin, io_items, chunk=1, label="integer origin -> roll, both classes")
    # intensity scale: same patterns x powers of ten, float32 and float64, every centre-of-mass path and batch size
    sc_kinds = ["ramp", "seeded"]
    sc_items = [
        {"part": "scale", "scan": list(sc), "det": list(d), "kind": k, "dtype": dt, "scale": x, "seed": ctx.seed}
        for sc, d, k, dt, x in itertools.product(SC_SCANS, SC_DETS, sc_kinds, ["float32", "float64"], SCALES)
    ]
    mS = ctx.pmap(eval_scale, sc_items, chunk=2, label="intensity scale")
    if mS.extra["scale_configurations_run"] < 0.75 * len(sc_items) or mS.extra["scale_float32_1e-12_run"] < 8:
        raise Broken(f"intensity-scale part degenerate: {mS.extra['scale_configurations_run']} of {len(sc_items)} configurations representable")
    mS2 = ctx.pmap(eval_fit_scale, [(sc, x, o) for sc in SCANS for x in SLOPE_SCALES for o in ORIGIN_OFFSETS if (x, o) != (1.0, 0.0)], chunk=1, label="fits of origins of other magnitude")
    # integer-origin range of shift_origin_to: [-2H, 2H] x [-2W, 2W], origins and target coordinate, mixed signs
    rg_items = [
        {"part": "range", "scan": [2, 3], "det": list(d), "variant": v, "row": r, "seed": ctx.seed}
        for d in DETS
        for v in ("uniform", "per_pattern", "coarse", "coordinate")
        for r in (range_coarse(d[0]) if v == "coarse" else range_values(d[0]))
    ]
    mR = ctx.pmap(eval_range, rg_items, chunk=1, label="origin range")
    if mR.extra["range_calls_with_mixed_signs"] < 1000 or mR.extra["range_calls_with_a_negative_or_beyond_component"] < 0.5 * mR.n:
        raise Broken(f"origin-range part degenerate: {dict(mR.extra)}")
    # input dtype x memory layout of the 4-D stack, both classes, both dataset paths, every batch size
    dt_items = [
        {"part": "dtype", "scan": list(sc), "det": list(d), "dtype": dt, "member": mb, "layout": lay}
        for sc, d, dt, lay in itertools.product(DT_SCANS, DT_DETS, DTYPES + DTYPES_REJECTED_ON_HEAD, LAYOUTS)
        for mb in (["low"] if dt in ("bool",) + tuple(DTYPES_REJECTED_ON_HEAD) else ["low", "mid", "high"])
    ]
    mG = ctx.pmap(eval_dtype, dt_items, chunk=2, label="dtype x layout")
    accepted = {dt: int(mG.extra[f"dtype_{dt}_accepted"]) for dt in DTYPES + DTYPES_REJECTED_ON_HEAD}
    rejected = {dt: int(mG.extra[f"dtype_{dt}_rejected"]) for dt in DTYPES + DTYPES_REJECTED_ON_HEAD}
    if min(accepted[dt] for dt in DTYPES) < 16:
        raise Broken(f"dtype part degenerate: accepted configurations per dtype {accepted}")
    # call histories on freshly imported modules
    depth = 2 if ctx.quick else 3
    mF = ctx.pmap(eval_history, hist_calls(), chunk=1, label="call histories", seed=ctx.seed, depth=depth)
    # object histories: kept results, copies used further, feed-back (length 2..3 quick, ..4 thorough)
    odepth = 3 if ctx.quick else 4
    mO = ctx.pmap(eval_object_history, OH_EVENTS, chunk=1, label="object histories", seed=ctx.seed, depth=odepth)
    fixed = [("saveload", h) for h in OH_SAVELOAD_HISTORIES] + [("dataset", (how, which)) for how in ("copy", "deepcopy", "pickle") for which in ("copy", "original")]
    mO2 = ctx.pmap(eval_object_history_fixed, fixed, chunk=1, label="save+load and dataset-model copies", seed=ctx.seed, scratch=ctx.scratch)
    # content of the detector mask (fractional weights, constants, ramps, weights above one, binary) x dtype x order x every path
    mc_items = [
        {"part": "maskcontent", "scan": list(sc), "det": list(d), "kind": k, "mask": m, "seed": ctx.seed}
        for sc, d, k, m in itertools.product(MC_SCANS, MC_DETS, MC_KINDS, MC_MASKS)
    ]
    mM = ctx.pmap(eval_maskcontent, mc_items, chunk=2, label="mask content")
    if ctx.tally.nfails == 0 and sm["dp_mask"] and sm["preprocess_vectorized"] and mM.extra["mask_content_points_fractional_mask_looped_mask_argument"] < 2 * len(MC_FRACTIONAL) * len(MC_SCANS) * len(MC_DETS) * len(MC_KINDS):
        raise Broken(f"mask-content part degenerate: {dict(mM.extra)}")
    if ctx.tally.nfails == 0 and (mO.extra["object_histories_with_a_copy"] < 300 or mO.extra["object_histories_with_feed_back"] < 100):
        raise Broken(f"object-history part degenerate: {dict(mO.extra)}")
    # vacuity guards only speak when nothing failed: a defect may legitimately cut an enumeration short (failing pipelines
    # are recorded as failures, not counted as evaluated), and a recorded failure must never be pre-empted by "broken"
    if ctx.tally.nfails == 0 and mF.extra["histories_with_an_earlier_non_corner_shift_on_the_same_detector"] < 50:
        raise Broken(f"history alphabet degenerate: {mF.extra['histories_with_an_earlier_non_corner_shift_on_the_same_detector']} histories with an earlier non-corner shift")
    if ctx.tally.nfails == 0 and mE.n < 4 * len(io_items):
        raise Broken(f"integer-origin part degenerate: {mE.n} pipelines for {len(io_items)} configurations")
    ctx.coverage.update(
        exhaustive=True,
        alphabet={
            "scan_shapes": [list(s) for s in scans],
            "detector_shapes": [list(d) for d in dets],
            "masks": MASKS,
            "data_kinds": kinds,
            "blob_slopes": [[list(a), list(b)] for a, b in BLOB_SLOPES],
            "batch_sizes": "None and every 1..num_patterns",
            "code_paths": ["CenterOfMassOriginModel.calculate_origin", "preprocess(vectorized=True).com_measured/com_fit", "preprocess(vectorized=False).com_measured/com_fit"] + (["_set_intensities_com(dp_mask) vectorised/looped"] if sm["dp_mask"] else []),
            "plane_coefficients": {"slopes": PLANE_SLOPES, "offsets": PLANE_OFFSETS, "constants_row_x_column": CONSTANTS},
            "fit_paths": ["ptycho_utils.fit_origin(mask=all true)", "CenterOfMassOriginModel.fit_origin_background", "preprocess(com_fit_function).com_fit", "calculate_origin + fit_origin_background"],
            "shift": "every integer origin of the detector x {uniform, per-pattern} x every batch size x {bilinear, nearest}",
            "object_histories": {"events": OH_EVENTS, "histories": f"every history of length 2..{odepth}; after every event: kept results bit-identical, both objects against their own oracle", "fixed_histories_with_save_and_load": OH_SAVELOAD_HISTORIES, "dataset_model": "preprocess -> copy/deepcopy/pickle -> preprocess the copy or the original with other settings; both judged, com arrays and centred amplitudes kept"},
            "intensity_scales": {"scales": SCALES, "dtypes": ["float32", "float64"], "scans": [list(x) for x in SC_SCANS], "detectors": [list(x) for x in SC_DETS], "data": sc_kinds, "rule": "a scale is used when every stored float32 value and total x largest coordinate is a normal finite float32"},
            "origin_magnitudes_for_fits": {"slope_scales": SLOPE_SCALES, "constant_offsets_px": ORIGIN_OFFSETS, "tolerance": "1e-5 x max(|origin|, 10) px"},
            "origin_range": "shift_origin_to: origins (uniform; per-pattern plane crossing the edges, mixed signs) and target coordinate over [-2H,2H] x [-2W,2W], batch sizes {None, 4} (coarse grid {-2n,-n-1,-n,-1,0,1,n-1,n,n+1,2n}: every batch size), both modes; shift_array over the same range",
            "input_dtypes": DTYPES + [f"{d} (rejected on HEAD: counted, not flagged)" for d in DTYPES_REJECTED_ON_HEAD],
            "input_dtype_members": "integer counts exact in every dtype; 'low' (pattern totals < 1000), 'mid' (odd multiples, totals of several thousand: float16 no longer adds them exactly) and 'high' (scaled per dtype: float16 totals exceed 65504, uint8 up to 240, uint16 up to 60000, int32/int64 up to 3e5 per pixel)",
            "input_layouts": LAYOUTS,
            "input_dtype_lattice": {"scans": [list(x) for x in DT_SCANS], "detectors": [list(x) for x in DT_DETS], "paths": "calculate_origin x every batch size, shift_origin_to x {None, 4} x {bilinear, nearest} vs np.roll, preprocess(vectorized=True/False).com_measured"},
            "mask_content": {"masks": MC_MASKS, "mask_dtypes": MC_DTYPES, "mask_memory_orders": "C; F as well for float32", "scans": [list(x) for x in MC_SCANS], "detectors": [list(x) for x in MC_DETS], "data": MC_KINDS, "paths": "_set_intensities_com(dp_mask) vectorised and looped x every mask dtype/order; intensity x mask through calculate_origin x every batch size and preprocess(vectorized=True/False); all paths pairwise", "oracle": "float64 intensity x mask weighted mean coordinate (row, then column)"},
            "detector_shapes_large_prime_factors": [list(d) for d in DETS_BIG],
            "shift_array": "every integer shift |r|<H, |c|<W x {Fourier, bilinear} on all detector shapes",
            "integer_origin_roll": {"scans": [list(x) for x in io_scans], "origins_x_fit": ["constant/constant", "constant/plane", "planar/plane"], "paths": ["calculate_origin+fit_origin_background+shift_origin_to", "preprocess(vectorized, bilinear).centered_amplitudes/centered_intensities"]},
            "call_history": {"calls": hist_calls(), "histories": "every single call and ordered pair" + ("" if ctx.quick else ", every triple (middle call: every 3rd member)") + "; ptycho_utils/origin_models/dataset_models re-imported before each history; last call judged"},
        },
        bounds={"tolerance_com_px": TOL_COM, "tolerance_fit": TOL_FIT, "tolerance_shift_relative": TOL_SHIFT, "tolerance_dataset_shift_relative": TOL_DSHIFT, "tolerance_com_px_dtype_part": TOL_DTYPE, "nearest_mode": "exact"},
        com_points=int(mA.n),
        fit_cases=int(mB.n),
        shift_calls=int(mC.n),
        shift_array_calls=int(mD.n),
        intensity_scale_points=int(mS.n),
        intensity_scale_configurations={"run": int(mS.extra["scale_configurations_run"]), "skipped_not_representable_in_float32": int(mS.extra["scale_configurations_skipped"])},
        scaled_origin_fit_cases=int(mS2.n),
        origin_range_calls=int(mR.n),
        origin_range_calls_with_a_negative_or_beyond_component=int(mR.extra["range_calls_with_a_negative_or_beyond_component"]),
        origin_range_calls_with_mixed_signs=int(mR.extra["range_calls_with_mixed_signs"]),
        integer_origin_pipelines=int(mE.n),
        call_histories=int(mF.n),
        object_histories=int(mO.n),
        object_histories_with_a_copy=int(mO.extra["object_histories_with_a_copy"]),
        object_histories_with_feed_back=int(mO.extra["object_histories_with_feed_back"]),
        object_history_depth=odepth,
        object_histories_with_save_and_load=int(mO2.extra["object_histories_with_save_and_load"]),
        dataset_model_copy_cases=int(mO2.extra["dataset_model_copy_cases"]),
        dataset_model_copy_kinds_not_supported_on_this_tree={k: int(mO2.extra[f"dataset_model_{k}_not_supported"]) for k in ("copy", "deepcopy", "pickle")},
        dtype_layout_points=int(mG.n),
        mask_content_points=int(mM.n),
        mask_content_points_fractional_mask=int(mM.extra["mask_content_points_fractional_mask"]),
        mask_content_points_fractional_mask_looped_mask_argument=int(mM.extra["mask_content_points_fractional_mask_looped_mask_argument"]),
        dtype_configurations_accepted=accepted,
        dtype_configurations_rejected_by_the_library=rejected,
        call_history_depth=depth,
    )
    if mA.extra["com_configurations_swap_visible"] < 0.9 * mA.extra["com_configurations"]:
        raise Broken(f"data alphabet too symmetric: a row/column swap would be visible in only {mA.extra['com_configurations_swap_visible']} of {mA.extra['com_configurations']} configurations")
    if mA.extra["com_points_batch_splits"] < 100 or len(mA.outcomes) < 200:
        raise Broken(f"centre-of-mass lattice degenerate: {mA.extra['com_points_batch_splits']} splitting batch sizes, {len(mA.outcomes)} outcomes")
    if len(mC.nontrivial) < 0.9 * mC.n or len(mC.outcomes) < 100:
        raise Broken(f"shift lattice degenerate: {len(mC.nontrivial)} non-identity rolls of {mC.n}, {len(mC.outcomes)} outcomes")
    if mB.n < len(scans) * 75:
        raise Broken(f"fit grid incomplete: {mB.n} cases")


def replay(ctx, case):
    warnings.simplefilter("ignore")
    part = case.get("part")
    if part == "fit":
        fails, outs = fit_case(case, verbose=True)
    elif part == "shift":
        fails, _ = shift_case(case, verbose=True)
    elif part == "shift_array":
        fails, _ = shift_array_case(case, verbose=True)
    elif part == "object_history":
        fails = []
        f2, _ = object_history(case["history"], case.get("seed", 0), scratch=ctx.scratch, verbose=True)
        for cls, msg in f2[:2]:
            ctx.fail(cls, case, msg)
    elif part == "dataset_copy":
        fails = []
        for cls, msg in dataset_copy_case(case["how"], case["which"], case.get("seed", 0), None, verbose=True):
            ctx.fail(cls, case, msg)
    elif part == "scale":
        print(f"  {case['dtype']} intensities x {case['scale']:g}, scan {case['scan']} det {case['det']} data {case['kind']} (all paths and batch sizes re-run)")
        fails, _, _ = scale_case(case, verbose=True)
    elif part == "fit_scale":
        fails, _ = fit_scale_case(case, verbose=True)
    elif part == "range":
        fails, _ = range_case(case, verbose=True)
    elif part == "dtype":
        print(f"  {case['dtype']} stack ({case['member']} counts), layout {case['layout']}, scan {case['scan']} det {case['det']} (all paths and batch sizes re-run)")
        fails, _, _ = dtype_case(case, verbose=True)
    elif part == "intorigin":
        fails, _ = intorigin_case(case, verbose=True)
    elif part == "maskcontent":
        print(f"  mask {case['mask']} scan {case['scan']} det {case['det']} data {case['kind']} (every mask dtype / order, all paths and batch sizes re-run)")
        fails, _, _ = maskcontent_case(case, verbose=True)
    elif part == "history":
        hist = case["history"]
        fails = []
        try:
            ratio, detail, modified = run_history(hist, case.get("seed", 0), verbose=True)
            if len(hist) > 1:
                run_history(hist[-1:], case.get("seed", 0), verbose=True)
        finally:
            _reload_modules()
        if modified and case.get("relation") == "inputs_unmodified":
            ctx.fail({"relation": "inputs_unmodified", "last_call": hist[-1][0]}, case, f"history {hist}: {modified[0]}")
        if not (ratio <= 1.0) and case.get("relation") != "inputs_unmodified":
            ctx.fail({"relation": case.get("relation", "result_independent_of_earlier_calls"), "last_call": hist[-1][0]}, case, f"after the calls {hist[:-1]} the call {hist[-1]}: {detail} ({ratio:.3e} x tolerance)")
    else:
        print(f"  configuration: scan {case['scan']} det {case['det']} mask {case['mask']} data {case['kind']} (all paths and batch sizes re-run)")
        fails, _, _ = com_case(case, verbose=True)
    for cls, sub, msg in fails:
        # a configuration is re-run as a whole; only the class that was recorded is re-reported
        if "relation" in case and (cls["relation"] != case["relation"] or cls.get("path", cls.get("mode")) != case.get("cls_path")):
            continue
        ctx.fail(cls, sub, msg)
