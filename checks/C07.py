"""C07 — torch Radon / filtered back-projection agree with the scikit-image reference.

Shape L (configuration lattice) with the linearity argument of DESIGN §1: both transforms and the
scikit-image oracle are linear in the data, so for the small sizes the *full delta basis* (every pixel
inside the inscribed disc for radon; every sinogram sample for iradon) is enumerated and the two
operators are compared entry by entry — complete for that size and angle set. Larger sizes use an
image alphabet. Every point of the lattice is executed on the real radon_torch / iradon_torch /
get_fourier_filter_torch and compared with skimage.transform.radon / iradon / _get_fourier_filter.
A second part explores call HISTORIES: every ordered pair (thorough: triple) of calls from a small
alphabet of filter / iradon / radon calls, each history on a freshly re-imported module, the last call
compared with the reference — a result must not depend on what was called before (caches, scratch buffers).
"""
from __future__ import annotations

import itertools
import warnings

import numpy as np

from mc.harness import Broken, Tally

LEVEL = "exploration"
TECHNIQUE = "exhaustive configuration lattice (sizes x angle sets x filters x batch sizes) with full delta-basis enumeration for small sizes, scikit-image as oracle"
CLAIM = (
    "For every square size in the stated range (odd and even), every angle set of the alphabet, every filter name and padded size, "
    "and every batch size, radon_torch, iradon_torch and get_fourier_filter_torch agree with scikit-image's radon(circle=True), "
    "iradon(circle=True) and _get_fourier_filter within float32 tolerance of the output maximum (filter 2e-5, radon 5e-5, iradon 2.5e-4); for the small sizes the comparison runs over the "
    "complete delta basis, which by linearity decides it for every image of that size; batched == per-image, both transforms linear, "
    "0-degree projection == column sums. A call-history part runs every ordered pair (thorough: triple) of filter / iradon / radon calls on a freshly re-imported module and judges the last call (results must not depend on earlier calls), and the number of projection angles straddles powers of two (255/256/257 ...). Exhaustive lattice exploration is the right level: the property quantifies over sizes/parities/"
    "angles/filters where the defects live (even sizes, padded FFT size), and linearity closes the data quantifier."
    ' Further enumerated dimensions: sinogram dtypes, legal alternative spellings of every argument judged against the canonical call, one tensor object handed to several calls and edited in place between them (results kept from earlier calls must not change, arguments come back unmodified), and re-entrant calls made from a lazy theta iterable while the outer call is fetching a later angle.'
    " A content alphabet (all-zero, constant, zero-sum +1/-1 pairs and integer images, exactly symmetric, sparse integer, equal rows, negative, powers of two) runs alone and mixed into batches for images and sinograms, with linearity checked where the combination has content its terms lack."
)
NOTE = (
    "Trusted: scikit-image 0.26 as the reference; float32 tolerances relative to the output maximum (filter 2e-5, radon 5e-5, iradon 2.5e-4; worst observed 5.8e-7, 2.2e-6, 1.1e-5); sizes "
    "above the stated bound and angle values off the alphabet are not explored; linearity of both implementations is itself checked."
)
RULE = (
    "Cartesian product of sizes x angle sets x filters x batch sizes x image alphabet (full delta basis for small N). A case is "
    "non-trivial when the reference output is not identically zero; distinct = distinct (kind, N, angles, filter, image) descriptors."
)

# Tolerances, relative to max|reference| (float32 implementation vs float64 oracle). Worst observed on the repaired tree
# over seeds {0,1,2,7,12345}, thorough tier: filter 5.8e-7, radon 2.2e-6, iradon 1.1e-5 (180 angles summed in float32).
# Smallest effect of any mutant or reverted fix: 1e-2 (hamming/hann with the wrong padded size). Each tolerance is
# >= 20x the observed noise and <= 1/20 of the smallest effect.
TOL = 5e-5  # radon, linearity
TOL_FILTER = 2e-5
TOL_IRADON = 2.5e-4
FILTERS = ["ramp", "shepp-logan", "cosine", "hamming", "hann", None]
GRID15 = [float(a) for a in range(0, 181, 15)]
IRREG = [0.0, 17.0, 45.3, 90.0, 133.0, 170.5, 180.0]


def _lib():
    import torch

    import quantem.tomography.radon.radon as R

    return torch, R


def disc_mask(N):
    c = N // 2
    y, x = np.mgrid[:N, :N]
    return (x - c) ** 2 + (y - c) ** 2 <= (N // 2) ** 2


def make_image(desc, N, seed):
    """Deterministic image from a JSON-able descriptor; zero outside the inscribed disc."""
    m = disc_mask(N)
    y, x = np.mgrid[:N, :N].astype(float)
    kind = desc[0]
    if kind == "delta":
        im = np.zeros((N, N))
        im[desc[1], desc[2]] = 1.0
    elif kind == "blob":
        cy, cx, s = [(0.5, 0.5, 0.18), (0.3, 0.62, 0.1), (0.66, 0.4, 0.25)][desc[1]]
        im = np.exp(-((y - cy * N) ** 2 + (x - cx * N) ** 2) / (2 * (s * N + 0.5) ** 2))
    elif kind == "edge":  # off-centre disc with a sharp edge: non-smooth
        im = (((y - 0.42 * N) ** 2 + (x - 0.58 * N) ** 2) <= (0.27 * N) ** 2).astype(float) + 0.25
    elif kind == "noise":
        rng = np.random.default_rng([seed, 7, N, desc[1]])
        im = rng.random((N, N))
    elif kind == "checker":
        im = ((x.astype(int) + y.astype(int)) % 2).astype(float)
    # ---- CONTENT that data-dependent branches key on (an "empty slice" test on the sum, a sparsity test, a symmetry test)
    elif kind == "zeros":
        im = np.zeros((N, N))
    elif kind == "const":
        im = np.ones((N, N))
    elif kind == "pm_pair":  # +1 / -1: the pixel sum is exactly zero although the image is not
        im = np.zeros((N, N))
        c = N // 2
        im[c, c - 1 if N > 2 else c], im[c - 1 if N > 2 else c, c] = 1.0, -1.0
    elif kind == "antisym":  # integer image whose pixel sum is exactly zero
        im = np.round(np.random.default_rng([seed, 7, N, 77]).random((N, N)) * 9) * m
        im[N // 2, N // 2] -= im.sum()  # integers: the sum over the disc is EXACTLY zero
    elif kind == "sym":  # exact mirror symmetry in both axes about the rotation centre row / column where the size allows
        a = np.round(np.random.default_rng([seed, 7, N, 78]).random((N, N)) * 9)
        im = a + a[::-1, :] + a[:, ::-1] + a[::-1, ::-1]
    elif kind == "sparse_int":  # more than half of the pixels exactly zero, the others small integers
        r = np.random.default_rng([seed, 7, N, 79])
        im = np.where(r.random((N, N)) < 0.2, np.round(r.random((N, N)) * 5 + 1), 0.0)
    elif kind == "rows_equal":
        im = np.tile((np.arange(N) % 3 + 1.0)[:, None], (1, N))
    elif kind == "negative":
        im = -1.0 - np.random.default_rng([seed, 7, N, 80]).random((N, N))
    elif kind == "pow2":
        im = 2.0 ** np.round(np.random.default_rng([seed, 7, N, 81]).random((N, N)) * 6 - 3)
    else:
        raise ValueError(desc)
    return im * m


CONTENT = [("zeros",), ("const",), ("pm_pair",), ("antisym",), ("sym",), ("sparse_int",), ("rows_equal",), ("negative",), ("pow2",)]


def angle_sets(tier_quick, N):
    sets = [("grid15", GRID15), ("step45", [0.0, 45.0, 90.0, 135.0]), ("irregular", IRREG), ("step10", [float(a) for a in range(0, 180, 10)])]
    sets += [(f"single{int(a)}", [a]) for a in (0.0, 30.0, 90.0, 180.0)]
    if not tier_quick:
        sets.append(("step1", [float(a) for a in range(0, 180)]))
        sets.append(("halfdeg", [0.5 * k for k in range(0, 360, 7)]))
    return sets


def rel_err(a, ref):
    d = float(np.max(np.abs(a - ref))) if ref.size else 0.0
    s = float(np.max(np.abs(ref))) if ref.size else 0.0
    return d / s if s > 0 else d


def parity(N):
    return "even" if N % 2 == 0 else "odd"


# ----------------------------------------------------------------------------- workers
def w_filter(item, seed=0):
    torch, R = _lib()
    from skimage.transform.radon_transform import _get_fourier_filter

    size, name = item
    t = Tally()
    ref = _get_fourier_filter(size, name)[:, 0]
    got = R.get_fourier_filter_torch(size, name).numpy().reshape(-1).astype(np.float64)
    e = rel_err(got, ref)
    t.stat("filter_rel_err", e)
    case = {"kind": "filter", "size": size, "filter": name}
    t.case(key=case, nontrivial=True, outcome=round(float(ref.sum()), 9))
    if not (got.shape == ref.shape and e <= TOL_FILTER):
        t.fail({"relation": "filter_vs_skimage", "filter": str(name)}, case, f"get_fourier_filter_torch({size}, {name!r}) differs from skimage by {e:.3e} of max (tol {TOL_FILTER})")
    t.sample(case, cap=1)
    return t


def _radon_ref(im, theta):
    from skimage.transform import radon

    with warnings.catch_warnings():
        warnings.simplefilter("ignore")
        return radon(im, theta=np.asarray(theta, float), circle=True).T  # [A, N]


def _radon_lib(ims, theta):
    torch, R = _lib()
    out = R.radon_torch(torch.tensor(np.asarray(ims), dtype=torch.float32), theta=torch.tensor(theta, dtype=torch.float32))
    return out.numpy().astype(np.float64)


def check_radon_case(t, N, aname, theta, descs, seed, batch):
    """Compare radon_torch (called with `batch` images at a time) with skimage image by image."""
    ims = [make_image(d, N, seed) for d in descs]
    for i in range(0, len(ims), batch):
        chunk = ims[i : i + batch]
        got = _radon_lib(np.stack(chunk) if len(chunk) > 1 or batch > 1 else chunk[0], theta)
        if got.ndim == 2:
            got = got[None]
        for j, im in enumerate(chunk):
            d = descs[i + j]
            ref = _radon_ref(im, theta)
            case = {"kind": "radon", "N": N, "angles": theta, "angle_set": aname, "image": list(d), "batch": batch}
            if 1 < len(chunk) <= 12:
                case["batch_images"] = [list(x) for x in descs[i : i + batch]]
            nz = bool(np.any(ref != 0))
            t.case(key=["radon", N, aname, list(d)], nontrivial=nz, outcome=[round(float(ref.sum()), 6), round(float(np.abs(ref).max()), 6)])
            if got[j].shape != ref.shape:
                t.fail({"relation": "radon_shape", "parity": parity(N)}, case, f"shape {got[j].shape} vs skimage {ref.shape}")
                continue
            scale = max(float(np.abs(ref).max()), float(np.abs(im).max()), 1e-30)
            e = float(np.max(np.abs(got[j] - ref))) / scale
            t.stat("radon_rel_err", e)
            if e > TOL:
                k = int(np.argmax(np.max(np.abs(got[j] - ref), axis=1)))
                t.fail({"relation": "radon_vs_skimage", "parity": parity(N)}, case, f"radon_torch N={N} image={d} differs from skimage.radon by {e:.3e} of max (tol {TOL}), worst at angle {theta[k]}")
            if 0.0 in theta:
                k0 = theta.index(0.0)
                cs = im.sum(axis=0)
                e0 = float(np.max(np.abs(got[j][k0] - cs))) / scale
                if e0 > TOL:
                    t.fail({"relation": "radon_zero_degree_is_column_sum", "parity": parity(N)}, case, f"0-degree projection differs from the column sums of the disc-masked image by {e0:.3e} (N={N}, image={d})")


def w_radon_basis(item, seed=0, quick=True):
    N = item
    t = Tally()
    m = disc_mask(N)
    descs = [("delta", int(r), int(c)) for r, c in zip(*np.nonzero(m))]
    # one pixel outside the disc as a control: must project to zero
    if not m[0, 0]:
        descs.append(("delta", 0, 0))
    for aname, theta in angle_sets(quick, N):
        if aname in ("step1", "halfdeg") and N > 8:
            continue
        check_radon_case(t, N, aname, theta, descs, seed, batch=len(descs))
    t.extra["radon_basis_sizes"] += 1
    t.sample({"kind": "radon_basis", "N": N, "basis_vectors": len(descs)}, cap=1)
    return t


IMAGES = [("blob", 0), ("blob", 1), ("blob", 2), ("edge",), ("noise", 0), ("noise", 1), ("checker",)]


def w_radon_images(item, seed=0, quick=True):
    N = item
    t = Tally()
    sets = angle_sets(quick, N)
    if N in (5, 8):
        sets = sets + [(f"n{n}", many_angles(n)) for n in ((256, 257) if quick else (64, 65, 128, 129, 256, 257, 512, 513))]
    for aname, theta in sets:
        for batch in (1, 2, 3):
            check_radon_case(t, N, aname, theta, IMAGES, seed, batch=batch)
    # content alphabet (data-dependent branches): every member alone and in batches that mix it with ordinary images
    for aname, theta in [("grid15", GRID15), ("irregular", IRREG), ("single0", [0.0])]:
        for batch in (1, 2, 3, len(CONTENT) + 2):
            check_radon_case(t, N, aname, theta, [("noise", 0)] + CONTENT + [("edge",)], seed, batch=batch)
    for d1, d2 in [(("noise", 0), ("noise", 1)), (("sparse_int",), ("sym",)), (("pow2",), ("negative",))]:
        # linearity where the combination has CONTENT its terms do not have: a - b sums to zero / is sparse / is all zero
        a_, b_ = make_image(d1, N, seed), make_image(d2, N, seed)
        b_ = b_ * (a_.sum() / b_.sum()) if d1[0] == "noise" and b_.sum() != 0 else b_
        for al_, be_ in ((1.0, -1.0), (1.0, -1.0 if d1[0] != "noise" else -1.0), (2.0, -2.0)):
            for x_, y_ in ((a_, b_), (a_, a_)):
                lhs_ = _radon_lib(al_ * x_ + be_ * y_, IRREG)
                rhs_ = al_ * _radon_lib(x_, IRREG) + be_ * _radon_lib(y_, IRREG)
                sc_ = max(float(np.abs(_radon_lib(x_, IRREG)).max()), 1e-30)
                e_ = float(np.abs(lhs_ - rhs_).max()) / sc_
                case = {"kind": "radon_linearity_content", "N": N, "images": [list(d1), list(d2)], "same": x_ is y_, "coef": [al_, be_]}
                t.case(key=case, nontrivial=True)
                if e_ > TOL:
                    t.fail({"relation": "radon_linear", "content": d1[0] + "-" + (d1[0] if y_ is x_ else d2[0])}, case, f"radon_torch not linear on content: N={N} R({al_}*{d1}+{be_}*{d2 if y_ is not x_ else d1}) differs from the combination of the transforms by {e_:.3e} of max")
    # linearity on seeded pairs
    theta = IRREG
    a, b = make_image(("noise", 0), N, seed), make_image(("edge",), N, seed)
    al, be = 1.75, -0.6
    lhs = _radon_lib(al * a + be * b, theta)
    rhs = al * _radon_lib(a, theta) + be * _radon_lib(b, theta)
    e = rel_err(lhs, rhs)
    case = {"kind": "radon_linearity", "N": N}
    t.case(key=case, nontrivial=True)
    if e > TOL:
        t.fail({"relation": "radon_linear"}, case, f"radon_torch not linear: N={N} err {e:.3e}")
    return t


def _iradon_ref(sino, theta, f):
    from skimage.transform import iradon

    with warnings.catch_warnings():
        warnings.simplefilter("ignore")
        return iradon(sino.T, theta=np.asarray(theta, float), filter_name=f, circle=True)


def _iradon_lib(sinos, theta, f):
    torch, R = _lib()
    out = R.iradon_torch(torch.tensor(np.asarray(sinos), dtype=torch.float32), theta=torch.tensor(theta, dtype=torch.float32), filter_name=f, circle=True)
    return out.numpy().astype(np.float64)


def make_sino(desc, N, theta, seed):
    A = len(theta)
    if desc[0] == "sdelta":
        s = np.zeros((A, N))
        s[desc[1], desc[2]] = 1.0
        return s
    if desc[0] == "snoise":
        return np.random.default_rng([seed, 11, N, A, desc[1]]).random((A, N))
    if desc[0] == "scontent":  # sinogram CONTENT data-dependent branches key on: see make_image; values laid out as (A, N)
        big = make_image(tuple(desc[1]), max(A, N) + 2, seed) if desc[1][0] not in ("zeros", "const") else (np.zeros if desc[1][0] == "zeros" else np.ones)((max(A, N) + 2, max(A, N) + 2))
        s = np.array(big[1 : A + 1, 1 : N + 1])
        if desc[1][0] == "antisym":
            s = s - s[:, ::-1]  # every projection sums to exactly zero
        return s
    if desc[0] == "sradon":  # a consistent sinogram: skimage radon of an image
        return _radon_ref(make_image(tuple(desc[1]), N, seed), theta)
    raise ValueError(desc)


def check_iradon_case(t, N, aname, theta, f, descs, seed, batch):
    sinos = [make_sino(d, N, theta, seed) for d in descs]
    for i in range(0, len(sinos), batch):
        chunk = sinos[i : i + batch]
        got = _iradon_lib(np.stack(chunk) if len(chunk) > 1 or batch > 1 else chunk[0], theta, f)
        if got.ndim == 2:
            got = got[None]
        for j, s in enumerate(chunk):
            d = descs[i + j]
            ref = _iradon_ref(s, theta, f)
            case = {"kind": "iradon", "N": N, "angles": theta, "angle_set": aname, "filter": f, "sino": [d[0]] + [list(x) if isinstance(x, tuple) else x for x in d[1:]], "batch": batch}
            if 1 < len(chunk) <= 12:
                case["batch_sinos"] = [[x[0]] + [list(y) if isinstance(y, tuple) else y for y in x[1:]] for x in descs[i : i + batch]]
            nz = bool(np.any(ref != 0))
            t.case(key=["iradon", N, aname, f, case["sino"]], nontrivial=nz, outcome=[round(float(ref.sum()), 6), round(float(np.abs(ref).max()), 6)])
            if got[j].shape != ref.shape:
                t.fail({"relation": "iradon_shape", "parity": parity(N)}, case, f"shape {got[j].shape} vs skimage {ref.shape}")
                continue
            # float32 round-off is relative to the input: where the reference response is (numerically) zero the
            # error is measured against 1% of the input magnitude instead (observed there: 1.4e-9 for unit input)
            scale = max(float(np.abs(ref).max()), 0.01 * float(np.abs(s).max()), 1e-30)
            e = float(np.max(np.abs(got[j] - ref))) / scale
            t.stat("iradon_rel_err", e)
            if e > TOL_IRADON:
                r, c = np.unravel_index(int(np.argmax(np.abs(got[j] - ref))), ref.shape)
                t.fail({"relation": "iradon_vs_skimage", "parity": parity(N), "filter": str(f)}, case, f"iradon_torch N={N} filter={f} sino={d} differs from skimage.iradon by {e:.3e} of max (tol {TOL_IRADON}), worst at pixel ({r},{c})")


def w_iradon_basis(item, seed=0, quick=True):
    N, f = item
    t = Tally()
    for aname, theta in [("step45", [0.0, 45.0, 90.0, 135.0]), ("irregular", IRREG)]:
        descs = [("sdelta", a, p) for a in range(len(theta)) for p in range(N)]
        check_iradon_case(t, N, aname, theta, f, descs, seed, batch=len(descs))
    t.extra["iradon_basis_points"] += 1
    return t


def many_angles(n):
    """n equally spaced angles in [0, 180): the NUMBER of projections is a dimension of its own (block sizes)."""
    return [180.0 * k / n for k in range(n)]


def w_iradon_images(item, seed=0, quick=True):
    N, f = item
    t = Tally()
    sets = [("grid15", GRID15[:-1]), ("irregular", IRREG), ("single", [30.0])]
    if N in (5, 8, 22):
        # angle counts straddling powers of two (a block-wise implementation shows at its block size only)
        for n in (255, 256, 257) if quick else (63, 64, 65, 127, 128, 129, 255, 256, 257, 511, 512, 513, 600):
            sets.append((f"n{n}", many_angles(n)))
    if not quick:
        sets.append(("step1", [float(a) for a in range(0, 180)]))
    descs = [("snoise", 0), ("snoise", 1), ("sradon", ("edge",)), ("sradon", ("blob", 1))]
    for aname, theta in sets:
        for batch in (1, 3):
            check_iradon_case(t, N, aname, theta, f, descs, seed, batch=batch)
    # content alphabet for sinograms (data-dependent branches), alone and mixed into batches
    cdescs = [("snoise", 0)] + [("scontent", c) for c in CONTENT] + [("sradon", ("pm_pair",)), ("sradon", ("antisym",))]
    for aname, theta in [("grid15", GRID15[:-1]), ("irregular", IRREG)]:
        for batch in (1, 3, len(cdescs)):
            check_iradon_case(t, N, aname, theta, f, cdescs, seed, batch=batch)
    if N in (5, 8, 22):
        # dtype corner: integer / bool / float64 sinogram tensors (HEAD reconstructs them like their float32 values)
        torch, R = _lib()
        for dt_name in ("float64", "int16", "uint8", "int64", "bool"):
            vals = np.round(make_sino(("snoise", 0), N, IRREG, seed) * (1 if dt_name == "bool" else 50))
            st = torch.tensor(vals).to(getattr(torch, dt_name))
            case = {"kind": "iradon_dtype", "N": N, "filter": f, "dtype": dt_name}
            t.case(key=case, nontrivial=True)
            try:
                got = R.iradon_torch(st, theta=torch.tensor(IRREG, dtype=torch.float32), filter_name=f, circle=True).numpy().astype(np.float64)
            except Exception as ex:  # HEAD accepts these dtypes: raising is a verdict
                t.fail({"relation": "iradon_accepts_sinogram_dtype", "dtype": dt_name}, case, f"iradon_torch raised {type(ex).__name__} for a {dt_name} sinogram (N={N}, filter={f}): {str(ex)[:150]}")
                continue
            ref = _iradon_ref(st.numpy().astype(np.float64), IRREG, f)
            e = rel_err(got, ref)
            t.stat("iradon_dtype_rel_err", e)
            if e > TOL_IRADON:
                t.fail({"relation": "iradon_vs_skimage", "dtype": dt_name, "filter": str(f)}, case, f"iradon_torch on a {dt_name} sinogram (N={N}, filter={f}) differs from skimage.iradon of the same values by {e:.3e} of max (tol {TOL_IRADON})")
    theta = IRREG
    a, b = make_sino(("snoise", 0), N, theta, seed), make_sino(("snoise", 1), N, theta, seed)
    lhs = _iradon_lib(1.5 * a - 0.7 * b, theta, f)
    rhs = 1.5 * _iradon_lib(a, theta, f) - 0.7 * _iradon_lib(b, theta, f)
    e = rel_err(lhs, rhs)
    case = {"kind": "iradon_linearity", "N": N, "filter": f}
    t.case(key=case, nontrivial=True)
    t.stat("iradon_linearity_err", e)
    if e > TOL_IRADON:
        t.fail({"relation": "iradon_linear"}, case, f"iradon_torch not linear: N={N} filter={f} err {e:.3e}")
    return t


# ----------------------------------------------------------------------------- alternative spellings
def w_spellings(item, seed=0):
    """Legal alternative spellings of the same request (all accepted by the unchanged tree) must give the canonical
    result; spellings the unchanged tree rejects (theta as list/ndarray, upper-case filter names) are counted only."""
    torch, R = _lib()
    N = item
    t = Tally()
    th = IRREG
    imn = make_image(("edge",), N, seed)
    sn = make_sino(("snoise", 0), N, th, seed)
    im = torch.tensor(imn, dtype=torch.float32)
    sg = torch.tensor(sn, dtype=torch.float32)
    tt = torch.tensor(th, dtype=torch.float32)
    base_r = R.radon_torch(im, theta=tt).numpy()
    base_i = R.iradon_torch(sg, theta=tt, filter_name="hann").numpy()
    ints = [0, 45, 90, 135]
    variants = {
        "radon theta float64 tensor": (lambda: R.radon_torch(im, theta=torch.tensor(th, dtype=torch.float64)), base_r),
        "radon theta integer tensor": (lambda: R.radon_torch(im, theta=torch.tensor(ints)), R.radon_torch(im, theta=torch.tensor([float(a) for a in ints])).numpy()),
        "radon image [1,N,N]": (lambda: R.radon_torch(im[None], theta=tt), base_r),
        "radon non-contiguous image": (lambda: R.radon_torch(torch.tensor(np.ascontiguousarray(imn.T), dtype=torch.float32).t(), theta=tt), base_r),
        "radon positional theta": (lambda: R.radon_torch(im, tt), base_r),
        "radon image requires_grad": (lambda: R.radon_torch(im.clone().requires_grad_(), theta=tt).detach(), base_r),
        "iradon theta float64 tensor": (lambda: R.iradon_torch(sg, theta=torch.tensor(th, dtype=torch.float64), filter_name="hann"), base_i),
        "iradon sinogram [1,A,N]": (lambda: R.iradon_torch(sg[None], theta=tt, filter_name="hann"), base_i),
        "iradon positional arguments": (lambda: R.iradon_torch(sg, tt, None, "hann"), base_i),
        "iradon output_size=N": (lambda: R.iradon_torch(sg, theta=tt, filter_name="hann", output_size=N), base_i),
        "iradon output_size=np.int64(N)": (lambda: R.iradon_torch(sg, theta=tt, filter_name="hann", output_size=np.int64(N)), base_i),
        "iradon non-contiguous sinogram": (lambda: R.iradon_torch(torch.tensor(np.ascontiguousarray(sn.T), dtype=torch.float32).t(), theta=tt, filter_name="hann"), base_i),
        "iradon sinogram requires_grad": (lambda: R.iradon_torch(sg.clone().requires_grad_(), theta=tt, filter_name="hann").detach(), base_i),
        "filter size np.int64": (lambda: R.get_fourier_filter_torch(np.int64(64), "hann"), R.get_fourier_filter_torch(64, "hann").numpy()),
        "filter dtype float64": (lambda: R.get_fourier_filter_torch(64, "hann", dtype=torch.float64), R.get_fourier_filter_torch(64, "hann").numpy()),
    }
    for name, (fn, base) in variants.items():
        case = {"kind": "spelling", "N": N, "variant": name}
        t.case(key=case, nontrivial=True)
        try:
            out = np.asarray(fn().numpy(), dtype=np.float64)
        except Exception as ex:
            t.fail({"relation": "legal_spelling_accepted", "variant": name}, case, f"{name} (N={N}): raised {type(ex).__name__}: {str(ex)[:150]} (the unchanged tree accepts this spelling)")
            continue
        e = rel_err(out, np.asarray(base, dtype=np.float64)) if out.shape == np.shape(base) else np.inf
        if e > TOL:
            t.fail({"relation": "legal_spelling_gives_canonical_result", "variant": name}, case, f"{name} (N={N}): differs from the canonical spelling by {e:.3e} of max")
    for name, fn in {"theta as list": lambda: R.radon_torch(im, theta=th), "theta as ndarray": lambda: R.iradon_torch(sg, theta=np.array(th), filter_name="hann"), "filter name 'Hann'": lambda: R.iradon_torch(sg, theta=tt, filter_name="Hann")}.items():
        try:
            fn()
            t.extra["spellings_rejected_on_the_pinned_tree_now_accepted"] += 1
        except Exception:
            t.extra["spellings_rejected_as_on_the_pinned_tree"] += 1
    return t


# ----------------------------------------------------------------------------- call histories (hidden state between calls)
def _call_alphabet(quick):
    calls = [("filter", size, f) for size in (64, 128) for f in FILTERS]
    calls += [("iradon", N, f) for N in ((5, 22) if quick else (5, 22, 23)) for f in ("ramp", "hann", None)]
    calls += [("radon", N, "irregular") for N in (6, 9)]
    return calls


def _do_call(call, seed, check):
    """Execute one call of the alphabet on the real code; when `check` compare with the reference. Returns error or None."""
    import importlib

    torch, _ = _lib()
    R = importlib.import_module("quantem.tomography.radon.radon")
    kind = call[0]
    if kind == "filter":
        from skimage.transform.radon_transform import _get_fourier_filter

        got = R.get_fourier_filter_torch(call[1], call[2]).numpy().reshape(-1).astype(np.float64)
        if check:
            e = rel_err(got, _get_fourier_filter(call[1], call[2])[:, 0])
            return e if e > TOL_FILTER else None
    elif kind == "iradon":
        N, f = call[1], call[2]
        s = make_sino(("snoise", 0), N, IRREG, seed)
        got = R.iradon_torch(torch.tensor(s, dtype=torch.float32), theta=torch.tensor(IRREG, dtype=torch.float32), filter_name=f, circle=True).numpy().astype(np.float64)
        if check:
            e = rel_err(got, _iradon_ref(s, IRREG, f))
            return e if e > TOL_IRADON else None
    else:
        N = call[1]
        im = make_image(("edge",), N, seed)
        got = R.radon_torch(torch.tensor(im, dtype=torch.float32), theta=torch.tensor(IRREG, dtype=torch.float32)).numpy().astype(np.float64)
        if check:
            e = rel_err(got, _radon_ref(im, IRREG))
            return e if e > TOL else None
    return None


def w_call_history(item, seed=0, quick=True):
    """All call sequences with the given first call: the LAST call of every sequence is compared with the reference.
    The radon module is re-imported before each sequence, so every sequence starts from a fresh module state and a
    failure names the shortest history that produces it (a result must not depend on earlier calls)."""
    import importlib
    import sys

    first = tuple(item)
    t = Tally()
    calls = _call_alphabet(quick)
    depth = 2 if quick else 3
    tails = [[c] for c in calls] if depth == 2 else [[c] for c in calls] + [[m, c] for m in calls[::3] for c in calls]
    mod = sys.modules.get("quantem.tomography.radon.radon") or importlib.import_module("quantem.tomography.radon.radon")
    for tail in tails:
        importlib.reload(mod)  # fresh module-level state for every history
        hist = [first] + [tuple(c) for c in tail]
        for c in hist[:-1]:
            _do_call(c, seed, check=False)
        e = _do_call(hist[-1], seed, check=True)
        case = {"kind": "call_history", "history": [list(c) for c in hist]}
        t.case(key=case, nontrivial=hist[-1] != hist[0], outcome=None)
        if e is not None:
            t.fail({"relation": "result_independent_of_earlier_calls", "last_call": hist[-1][0]}, case, f"after the calls {[list(c) for c in hist[:-1]]} the call {list(hist[-1])} differs from the scikit-image reference by {e:.3e} of max (alone it agrees)")
    importlib.reload(mod)
    return t


EDITS = ["add_7.5", "set_3_to_100", "mul_0.5", "undo"]


def w_shared_arguments(item, seed=0):
    """The SAME tensor objects handed to several calls, edited in place between the calls (theta.add_(7.5), theta[3] = 100,
    theta.mul_(0.5), undo; the image / sinogram scaled and overwritten in place): every call must answer for the values
    its arguments hold NOW (scikit-image at the current values), a result kept from an earlier call must not change, and
    the arguments must come back unmodified. Then RE-ENTRANT use: theta given as a lazy sized iterable that calls the
    library again (same shape / other shape / the inverse transform) before it yields a later angle — outer and inner
    results must equal the results of the same calls made one after the other."""
    import importlib

    torch, _ = _lib()
    R = importlib.import_module("quantem.tomography.radon.radon")
    kind, N = item[0], int(item[1])
    t = Tally()
    filt = item[2] if len(item) > 2 else "ramp"
    base_theta = np.asarray(IRREG, dtype=np.float32)

    def lib(x, T):
        if kind == "radon":
            return R.radon_torch(x, theta=T)
        return R.iradon_torch(x, theta=T, filter_name=filt, circle=True)

    def ref(xv, tv):
        return _radon_ref(xv, tv) if kind == "radon" else _iradon_ref(xv, tv, filt)

    tol = TOL if kind == "radon" else TOL_IRADON
    x0 = make_image(("edge",), N, seed) if kind == "radon" else make_sino(("snoise", 0), N, IRREG, seed)
    # --- one theta object, edited in place between calls
    for e1 in EDITS[:3]:
        for e2 in EDITS:
            T = torch.tensor(base_theta.copy())
            X = torch.tensor(x0, dtype=torch.float32)
            kept = []
            hist = ["call"]
            ok = True
            for step, ed in enumerate([None, e1, e2]):
                if ed == "add_7.5":
                    T.add_(7.5)
                elif ed == "set_3_to_100":
                    T[3] = 100.0
                elif ed == "mul_0.5":
                    T.mul_(0.5)
                elif ed == "undo":
                    T.copy_(torch.tensor(base_theta))
                if ed is not None:
                    hist.append(ed)
                tv, xv = T.numpy().astype(np.float64).copy(), X.numpy().astype(np.float64).copy()
                out = lib(X, T)
                got = out.detach().numpy().astype(np.float64)
                case = {"kind": "shared_arguments", "op": kind, "N": N, "filter": filt, "history": list(hist), "edited": "theta"}
                t.case(key=case, nontrivial=step > 0)
                e = rel_err(got, ref(x0, tv))
                if e > tol:
                    t.fail({"relation": "call_answers_for_current_argument_values", "op": kind, "edited": "theta"}, case, f"{kind} N={N}: one theta tensor, history {hist}: result differs from scikit-image at the CURRENT angles {np.round(tv, 2).tolist()} by {e:.3e} of max")
                    ok = False
                if not (np.array_equal(T.numpy().astype(np.float64), tv) and np.array_equal(X.numpy().astype(np.float64), xv)):
                    t.fail({"relation": "arguments_come_back_unmodified", "op": kind}, case, f"{kind} N={N}: the call modified its theta / data tensor in place (history {hist})")
                    ok = False
                for j, (o, c) in enumerate(kept):
                    if not np.array_equal(o.detach().numpy(), c):
                        t.fail({"relation": "kept_result_does_not_change", "op": kind}, case, f"{kind} N={N}: the result of call {j} changed after a later call (history {hist})")
                        ok = False
                kept.append((out, out.detach().numpy().copy()))
                hist.append("call")
                if not ok:
                    break
    # --- one data tensor, scaled / overwritten in place between calls
    T = torch.tensor(base_theta.copy())
    X = torch.tensor(x0, dtype=torch.float32)
    x1 = make_image(("blob", 1), N, seed) if kind == "radon" else make_sino(("snoise", 1), N, IRREG, seed)
    for step, ed in enumerate([None, "mul_2", "overwrite", "mul_2"]):
        if ed == "mul_2":
            X.mul_(2.0)
        elif ed == "overwrite":
            X.copy_(torch.tensor(x1, dtype=torch.float32))
        case = {"kind": "shared_arguments", "op": kind, "N": N, "filter": filt, "history": step, "edited": "data"}
        t.case(key=case, nontrivial=step > 0)
        xv = X.numpy().astype(np.float64).copy()
        e = rel_err(lib(X, T).detach().numpy().astype(np.float64), ref(xv, IRREG))
        if e > tol:
            t.fail({"relation": "call_answers_for_current_argument_values", "op": kind, "edited": "data"}, case, f"{kind} N={N}: one data tensor edited in place, step {step} ({ed}): result differs from scikit-image at the CURRENT values by {e:.3e} of max")
    # --- re-entrant use through a lazy theta iterable
    class Lazy:
        def __init__(self, angles, at, hook):
            self.angles, self.at, self.hook = angles, at, hook
            self.shape = (len(angles),)  # looks like a 1-D tensor where the code only asks for the shape

        def __len__(self):
            return len(self.angles)

        def __iter__(self):
            for k, a in enumerate(self.angles):
                if k == self.at:
                    self.hook()
                yield torch.tensor(float(a), dtype=torch.float32)

    inner_specs = [("radon", N), ("radon", N + 1), ("iradon", N)]
    for ik, iN in inner_specs:
        for at in (1, len(IRREG) // 2, len(IRREG) - 1):
            case = {"kind": "reentrant", "op": kind, "N": N, "filter": filt, "inner": [ik, iN], "at_angle": at}
            xi = make_image(("blob", 2), iN, seed) if ik == "radon" else make_sino(("snoise", 2), iN, IRREG, seed)
            box = {}

            def hook():
                Ti = torch.tensor(base_theta.copy())
                Xi = torch.tensor(xi, dtype=torch.float32)
                box["inner"] = (R.radon_torch(Xi, theta=Ti) if ik == "radon" else R.iradon_torch(Xi, theta=Ti, filter_name="ramp", circle=True)).detach().numpy().astype(np.float64)

            try:
                got = lib(torch.tensor(x0, dtype=torch.float32), Lazy(IRREG, at, hook)).detach().numpy().astype(np.float64)
            except Exception as ex:  # noqa: BLE001 - a theta container the tree under test does not take: counted
                t.extra[f"lazy_theta_rejected:{kind}:{type(ex).__name__}"] += 1
                continue
            t.case(key=case, nontrivial=True)
            e = rel_err(got, ref(x0, IRREG))
            ei = rel_err(box["inner"], _radon_ref(xi, IRREG) if ik == "radon" else _iradon_ref(xi, IRREG, "ramp")) if "inner" in box else np.inf
            if e > tol or ei > (TOL if ik == "radon" else TOL_IRADON):
                t.fail({"relation": "reentrant_call_does_not_disturb_the_running_call", "op": kind, "inner": ik, "same_shape": iN == N}, case, f"{kind} N={N} with a {ik} N={iN} call made while angle {at} was being fetched: outer result off by {e:.3e}, inner by {ei:.3e} of max (scikit-image reference)")
    return t


# ----------------------------------------------------------------------------- driver
def run(ctx):
    q = ctx.quick
    ctx.assume(
        "scikit-image's radon/iradon/_get_fourier_filter are the reference (trusted, version 0.26)",
        "float32 implementation vs float64 reference: tolerances filter 2e-5, radon 5e-5, iradon 2.5e-4 of the output maximum",
        "linearity of implementation and oracle extends delta-basis agreement to every image of that size and angle set",
        "square images only; default linear interpolation in iradon",
        "sinogram dtypes float32/float64/int16/uint8/int64/bool (what the unchanged tree accepts); radon_torch itself only accepts float32 images on the unchanged tree (float64 and integer images raise inside torch.grid_sample) — outside the property's quantifier, not judged",
    )

    def once():
        t = w_radon_images(6, seed=ctx.seed, quick=True)
        return (t.n, sorted(t.outcomes), t.nfails)

    ctx.selftest(once)

    sizes = list(range(3, 33)) if q else list(range(3, 49)) + [64, 65, 96]
    basis_sizes = [n for n in sizes if n <= (12 if q else 16)]
    filt_sizes = sorted(set([2, 4, 6, 8, 10, 16, 30, 32, 64, 128, 256, 512, 1024] + ([] if q else list(range(12, 64, 2)) + [2048])))
    ir_basis = [n for n in sizes if n <= (8 if q else 12)]
    ir_sizes = sizes
    ctx.coverage["bounds"] = {
        "radon_sizes": sizes,
        "radon_full_delta_basis_sizes": basis_sizes,
        "iradon_sizes": ir_sizes,
        "iradon_full_delta_basis_sizes": ir_basis,
        "filter_sizes": filt_sizes,
        "filters": [str(f) for f in FILTERS],
        "batch_sizes": [1, 2, 3],
        "angle_sets": [a for a, _ in angle_sets(q, 8)],
    }
    ctx.pmap(w_filter, list(itertools.product(filt_sizes, FILTERS)), label="filters", seed=ctx.seed)
    ctx.pmap(w_radon_basis, basis_sizes, chunk=1, label="radon delta basis", seed=ctx.seed, quick=q)
    ctx.pmap(w_radon_images, sizes, chunk=1, label="radon images", seed=ctx.seed, quick=q)
    ctx.pmap(w_iradon_basis, list(itertools.product(ir_basis, FILTERS)), chunk=1, label="iradon delta basis", seed=ctx.seed, quick=q)
    ctx.pmap(w_iradon_images, list(itertools.product(ir_sizes, FILTERS)), chunk=1, label="iradon images", seed=ctx.seed, quick=q)
    ctx.pmap(w_spellings, [5, 6] if q else [5, 6, 9, 22], chunk=1, label="alternative spellings", seed=ctx.seed)
    sa = [("radon", 6), ("radon", 9), ("iradon", 6, "ramp"), ("iradon", 22, "hann")] if q else [("radon", n) for n in (6, 9, 22, 32, 33)] + [("iradon", n, f) for n in (6, 9, 22, 32, 33) for f in ("ramp", "hann", None)]
    ctx.pmap(w_shared_arguments, sa, chunk=1, label="shared / in-place edited arguments, re-entrant calls", seed=ctx.seed)
    calls = _call_alphabet(q)
    ctx.coverage["bounds"]["call_history_alphabet"] = len(calls)
    ctx.coverage["bounds"]["call_history_depth"] = 2 if q else 3
    ctx.pmap(w_call_history, calls, chunk=1, label="call histories", seed=ctx.seed, quick=q)
    if len(ctx.tally.outcomes) < 20:
        raise Broken("too few distinct reference outputs: the lattice did not vary")


def replay(ctx, case):
    t = Tally()
    k = case["kind"]
    seed = ctx.seed
    if k == "filter":
        t = w_filter((case["size"], case["filter"]), seed=seed)
    elif k == "radon":
        descs = [tuple(x) for x in case.get("batch_images") or [case["image"]]]
        r = Tally()
        check_radon_case(r, case["N"], case["angle_set"], [float(a) for a in case["angles"]], descs, seed, batch=len(descs) if len(descs) > 1 else case.get("batch", 1) if len(descs) > 1 else 1)
        t.fails = [f for f in r.fails if f["case"]["image"] == case["image"]]
    elif k == "iradon":
        def und(d):
            return (d[0],) + tuple(tuple(x) if isinstance(x, list) else x for x in d[1:])

        descs = [und(x) for x in case.get("batch_sinos") or [case["sino"]]]
        r = Tally()
        check_iradon_case(r, case["N"], case["angle_set"], [float(a) for a in case["angles"]], case["filter"], descs, seed, batch=max(1, len(descs)))
        t.fails = [f for f in r.fails if f["case"]["sino"] == case["sino"]]
    elif k == "radon_linearity_content":
        r = w_radon_images(case["N"], seed=seed, quick=True)
        t.fails = [f for f in r.fails if f["case"].get("kind") == k and f["case"].get("images") == case["images"] and f["case"].get("same") == case["same"] and f["case"].get("coef") == case["coef"]]
    elif k == "call_history":
        import importlib, sys

        hist = [tuple(c) for c in case["history"]]
        mod = sys.modules.get("quantem.tomography.radon.radon") or importlib.import_module("quantem.tomography.radon.radon")
        importlib.reload(mod)
        for c in hist[:-1]:
            _do_call(c, seed, check=False)
        e = _do_call(hist[-1], seed, check=True)
        importlib.reload(mod)
        alone = _do_call(hist[-1], seed, check=True)
        print(f"  last call after the history: {'differs by %.3e' % e if e is not None else 'agrees'}; alone: {'differs by %.3e' % alone if alone is not None else 'agrees'}")
        if e is not None:
            t.fail({"relation": "result_independent_of_earlier_calls", "last_call": hist[-1][0]}, case, f"history {case['history']}: last call differs from the reference by {e:.3e}")
    elif k in ("shared_arguments", "reentrant"):
        r = w_shared_arguments((case["op"], case["N"]) + ((case["filter"],) if case["op"] == "iradon" else ()), seed=seed)
        t.fails = [f for f in r.fails if all(f["case"].get(x) == case.get(x) for x in ("kind", "history", "edited", "inner", "at_angle"))]
    elif k == "spelling":
        r = w_spellings(case["N"], seed=seed)
        t.fails = [f for f in r.fails if f["case"].get("variant") == case["variant"]]
    elif k == "iradon_dtype":
        r = w_iradon_images((case["N"], case["filter"]), seed=seed, quick=True)
        t.fails = [f for f in r.fails if f["case"].get("kind") == "iradon_dtype" and f["case"].get("dtype") == case["dtype"]]
    elif k == "radon_linearity":
        t = w_radon_images(case["N"], seed=seed, quick=True)
    elif k == "iradon_linearity":
        t = w_iradon_images((case["N"], case["filter"]), seed=seed, quick=True)
    for f in t.fails:
        print("  ", f["msg"])
        ctx.fail(f["cls"], f["case"], f["msg"])
