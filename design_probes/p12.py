import numpy as np, warnings, torch, time, math
warnings.simplefilter("ignore")
torch.set_num_threads(1)
from quantem.core.datastructures import Dataset2d, Dataset3d
from quantem.diffractive_imaging.direct_ptychography import DirectPtychography
from quantem.core.utils.utils import electron_wavelength_angstrom
E=80e3; lam=electron_wavelength_angstrom(E)
def make(scan=(6,7), det=(8,8), semiangle=20.0, dk_mrad=8.0, seed=0, abers={}, rot=0.0):
    rng=np.random.default_rng(seed)
    # corner-centred mask: pixels within semiangle
    kx=np.fft.fftfreq(det[0],1/det[0])[:,None]*dk_mrad; ky=np.fft.fftfreq(det[1],1/det[1])[None,:]*dk_mrad
    mask=(np.sqrt(kx**2+ky**2)<=semiangle)
    nbf=int(mask.sum())
    vbf=1+0.1*rng.normal(size=(nbf,*scan)).astype(np.float32)
    vd=Dataset3d.from_array(vbf, units=("index","A","A"), sampling=(1,0.4,0.5))
    md=Dataset2d.from_array(mask, units=("mrad","mrad"), sampling=(dk_mrad,dk_mrad))
    dp=DirectPtychography.from_virtual_bfs(vd,md,energy=E,rotation_angle=rot,aberration_coefs=abers,semiangle_cutoff=semiangle,verbose=0, crop_bf_mask=True)
    return dp,vbf,mask
dp,vbf,mask=make(abers={"C10":-100.0,"C12":30.0,"phi12":0.3}, rot=0.2)
print("num_bf",dp.num_bf,"bf_mask shape",tuple(dp.bf_mask.shape),"gpts",dp.gpts)
for kern in ["ssb","obf","mf","prlx","icom"]:
    for up in [1,2]:
        t0=time.time(); ref=dp.reconstruct(deconvolution_kernel=kern,upsampling_factor=up,max_batch_size=None).corrected_stack.clone(); t=time.time()-t0
        errs=[]
        for bs in [1,2,3,5,dp.num_bf-1]:
            o=dp.reconstruct(deconvolution_kernel=kern,upsampling_factor=up,max_batch_size=bs).corrected_stack
            errs.append(float((o-ref).abs().max()/ref.abs().max()))
        print(kern,up,"t",round(t,3),"batch rel errs",["%.1e"%e for e in errs])
# analytic parallax zero aberration
dp0,vbf0,mask0=make()
st=dp0.reconstruct(deconvolution_kernel="prlx",parallax_flip_phase=False).corrected_bf.numpy()
W=float((dp0.bf_mask.sum()))
v=vbf0-vbf0.mean(axis=(1,2),keepdims=True)
print("prlx zero-aberr vs sum/meansub: ", np.abs(st - v.sum(0)/W).max(), "BFweights", W)
