import numpy as np, warnings, itertools
warnings.simplefilter("ignore")
from quantem.core.visualization.custom_normalizations import *
from collections import Counter
fails=Counter(); ex={}
def data_alphabet():
    for dt in [np.uint8,np.int8,np.int16,np.int64,np.float32,np.float64]:
        info=np.iinfo(dt) if np.issubdtype(dt,np.integer) else None
        lo,hi=(info.min,info.max) if info else (-1e3,1e3)
        if dt==np.int64: lo,hi=-10**12,10**12
        for name,arr in [("two",np.array([lo//2 if info else -3.5, hi//2 if info else 7.25])),("ramp",np.linspace(lo,hi,7)),("dups",np.array([1,1,2,2,3,50,50])),("seeded",np.random.default_rng(0).integers(0,100,8))]:
            a=arr.astype(dt)
            yield dt.__name__,name,"none",a
            if not info:
                for dn,vals in [("nan",[np.nan]),("+inf",[np.inf]),("-inf",[-np.inf]),("all",[np.nan,np.inf,-np.inf])]:
                    yield dt.__name__,name,dn,np.concatenate([a,np.array(vals,dtype=dt)])
intervals=[("quantile",dict(lower_quantile=l,upper_quantile=u)) for l,u in [(0.02,0.98),(0,1),(0.25,0.75),(0.5,0.5)]]+[("manual",d) for d in [dict(),dict(vmin=2),dict(vmax=40),dict(vmin=2,vmax=40),dict(vmin=-500,vmax=500)]]+[("centered",d) for d in [dict(),dict(vcenter=10),dict(half_range=30),dict(vcenter=5,half_range=1000)]]
stretches=[("linear",{}),("power",dict(power=0.25)),("power",dict(power=0.5)),("power",dict(power=2.)),("power",dict(power=3.)),("logarithmic",dict(logarithmic_index=1.)),("logarithmic",{}),("asinh",dict(asinh_linear_range=0.01)),("asinh",{}),("asinh",dict(asinh_linear_range=1.))]
n=0
for dtn,dn,dec,a in data_alphabet():
    for (it,ikw),(st,skw) in itertools.product(intervals,stretches):
        n+=1
        try:
            norm=CustomNormalization(it,st,data=a,**ikw,**skw); out=norm(a)
        except Exception as e:
            fails[("EXC",type(e).__name__,it,dtn if "int" in dtn else "float",dec)]+=1; ex.setdefault(("EXC",type(e).__name__,it),(dtn,dn,dec,ikw,skw,str(e)[:80])); continue
        o=np.ma.getdata(out).astype(float); m=np.ma.getmaskarray(out); fin=np.isfinite(a.astype(float))
        probs=[]
        if (m[fin]).any(): probs.append("finite masked")
        if np.isnan(a.astype(float)).any() and not m[np.isnan(a.astype(float))].all(): probs.append("nan not masked")
        of=o[fin]; af=a.astype(float)[fin]
        if ((of<-1e-12)|(of>1+1e-12)).any(): probs.append("out of [0,1]")
        order=np.argsort(af,kind="stable")
        if (np.diff(of[order])< -1e-9).any(): probs.append("non-monotone")
        if norm.vmax>norm.vmin:
            lim=np.ma.getdata(norm(np.array([norm.vmin,norm.vmax],dtype=float)))
            if abs(lim[0])>1e-9 or abs(lim[1]-1)>1e-9: probs.append(f"limits->{lim}")
        for p in probs:
            fails[(p.split("->")[0],it,st,dtn if "int" in dtn else "float",dec)]+=1; ex.setdefault((p.split("->")[0],it,dtn),(dtn,dn,dec,ikw,skw,a.tolist(),np.round(o,3).tolist()))
print("cases",n)
for k,v in sorted(fails.items(),key=lambda kv:-kv[1])[:40]: print(v,k)
print("--- examples")
for k,v in list(ex.items())[:14]: print(k,v)
grid=np.linspace(0,1,101)
for s in [PowerLawStretch(0.25),PowerLawStretch(3.0),LogarithmicStretch(1.),LogarithmicStretch(1000.),InverseHyperbolicSineStretch(0.01),InverseHyperbolicSineStretch(1.),HyperbolicSineStretch(0.2),InverseLogarithmicStretch(5.),LinearStretch()]:
    print(type(s).__name__, "inv∘s",np.abs(s.inverse(s(grid.copy()))-grid).max(),"s∘inv",np.abs(s(s.inverse(grid.copy()))-grid).max())
