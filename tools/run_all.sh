#!/bin/bash
# run every registered check once: tools/run_all.sh <tier> [extra run.py args...]; prints one line per check
tier=${1:-quick}; shift
cd "$(dirname "$0")/.."
for id in $(grep -v '^#' tools/registered.txt | sort); do
  t0=$(date +%s)
  out=$(timeout 7200 /venv/bin/python -u run.py $id --tier $tier "$@" 2>&1)
  rc=$?
  t1=$(date +%s)
  echo "$id tier=$tier seed=${VERIF_SEED:-0} rc=$rc wall=$((t1-t0))s $(echo "$out" | grep -E 'finished' | sed 's/.*finished//' | cut -c1-160)"
  echo "$out" | grep -E "VIOLATION|BROKEN|violation class" | head -4
done
