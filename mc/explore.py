"""Exploration cores: explicit-state BFS over operation histories, deviation-bounded histories,
lattice products. All of them enumerate their space completely and report what they covered."""
from __future__ import annotations

import itertools
from collections import deque


class BfsResult:
    def __init__(self):
        self.states = set()  # canonical digests
        self.transitions = 0
        self.max_depth = 0
        self.by_depth = {}
        self.selfloops = 0

    def merge(self, o):
        self.states |= o.states
        self.transitions += o.transitions
        self.max_depth = max(self.max_depth, o.max_depth)
        for k, v in o.by_depth.items():
            self.by_depth[k] = self.by_depth.get(k, 0) + v
        self.selfloops += o.selfloops
        return self


def bfs(inits, events_of, step, canon, max_depth, build=None, clone=None, on_state=None, budget=None):
    """Explicit-state breadth-first search on the real implementation.

    inits      : list of initial *histories* (lists of events) or (history) seeds
    build(h)   : fresh live state reached by history h (replay on fresh objects)
    clone(s)   : exact copy of a live state (used instead of replay when given)
    events_of(s, depth) : iterable of events enabled in s (small finite menu, simplest first)
    step(s, ev, hist)   : apply ev to s *in place* (and to the reference model inside s), check
                          per-transition oracles; returns the successor state (may be s itself)
    canon(s)   : hashable canonical form (fine: never merges states with different futures)
    on_state(s, hist)   : invariant check in every new state
    budget()   : optional callable raising when a ceiling is hit
    A state is identified with the first (shortest, simplest-first) history reaching it."""
    res = BfsResult()
    frontier = deque()
    for h in inits:
        s = build(list(h))
        k = canon(s)
        if k in res.states:
            continue
        res.states.add(k)
        if on_state:
            on_state(s, list(h))
        frontier.append((list(h), s if clone else None, 0))
    res.by_depth[0] = len(res.states)
    while frontier:
        hist, live, d = frontier.popleft()
        if d >= max_depth:
            continue
        base = live if clone else build(hist)
        evs = list(events_of(base, d))
        for ev in evs:
            if budget:
                budget()
            s = clone(base) if clone else build(hist)
            s2 = step(s, ev, hist)
            res.transitions += 1
            if s2 is None:  # event rejected / not applicable: stays in place
                res.selfloops += 1
                continue
            k = canon(s2)
            if k in res.states:
                continue
            res.states.add(k)
            h2 = hist + [ev]
            if on_state:
                on_state(s2, h2)
            res.max_depth = max(res.max_depth, d + 1)
            res.by_depth[d + 1] = res.by_depth.get(d + 1, 0) + 1
            frontier.append((h2, s2 if clone else None, d + 1))
    return res


def deviation_histories(default, alphabet, b):
    """All histories of len(default) that differ from `default` in at most b positions, each
    deviating position taking every other alphabet member. Yields (n_deviations, history)."""
    n = len(default)
    for k in range(0, b + 1):
        for pos in itertools.combinations(range(n), k):
            pools = [[a for a in alphabet if a != default[p]] for p in pos]
            for repl in itertools.product(*pools):
                h = list(default)
                for p, r in zip(pos, repl):
                    h[p] = r
                yield k, h


def product_points(**alphabets):
    """Cartesian product, simplest-first (first member of every alphabet first), as dicts."""
    keys = list(alphabets)
    for combo in itertools.product(*[alphabets[k] for k in keys]):
        yield dict(zip(keys, combo))
