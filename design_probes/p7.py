import numpy as np, warnings, itertools, time
warnings.simplefilter("ignore")
from quantem.diffractive_imaging.ptycho_utils import SimpleBatcher
from quantem.core.utils.utils import subdivide_batches, generate_batches
t0=time.time(); bad=[]; cnt=0
for n in range(1,41):
    for bs in list(range(1,n+3))+[None]:
        for ratio in [0,0.05,0.1,0.2,0.25,0.3,1/3,0.4,0.5,0.6,0.7,0.75,0.9,0.95,0.99]:
            for mode in ["grid","random"]:
                for shuffle in [False,True]:
                    b=SimpleBatcher(n,bs,shuffle=shuffle,rng=3,val_ratio=ratio,val_mode=mode)
                    tr=list(b); flat=np.concatenate(tr) if tr else np.array([],int)
                    va=list(b.iter_val()); vflat=np.concatenate(va) if va else np.array([],int)
                    ok = sorted(flat.tolist())==sorted(b.train_indices.tolist()) and len(set(flat.tolist()))==len(flat) \
                        and set(flat.tolist()).isdisjoint(vflat.tolist()) and sorted(flat.tolist()+vflat.tolist())==list(range(n)) \
                        and len(b)==len(tr) and b.val_len()==len(va)
                    cnt+=1
                    if not ok: bad.append((n,bs,ratio,mode,shuffle,len(b),len(tr),b.train_indices.tolist(),b.val_indices.tolist()))
print("cases",cnt,"bad",len(bad),"time",round(time.time()-t0,1)); print(bad[:5])
# generate_batches
bad2=[]
for n in range(1,40):
    for mb in range(1,n+3):
        r=list(generate_batches(n,max_batch=mb))
        cover=[i for s,e in r for i in range(s,e)]
        if cover!=list(range(n)) or any(e-s>mb for s,e in r): bad2.append((n,mb,r))
print("generate_batches bad",len(bad2),bad2[:3])
# subclass Generator
class G(np.random.Generator):
    def __init__(self, perm): super().__init__(np.random.PCG64(0)); self._perm=perm
    def permutation(self, x, axis=0):
        x=np.asarray(x); return x[np.asarray(self._perm)]
g=G([2,0,1]); b=SimpleBatcher(3,2,shuffle=True,rng=g); print("controlled perm:",list(b), isinstance(g,np.random.Generator))
