import numpy as np, warnings, torch, time, sys, tempfile, os, copy
warnings.simplefilter("ignore")
sys.argv=["x"]
exec(open("/verif/design_probes/p9.py").read().split("t0=time.time()")[0])
def make(S=1,M=1,obj_type="complex",seed=0,roi=(8,10),gpts=(3,4),step=(1.3,0.9),dq=(0.05,0.04),pad=(0,0),rng=7):
    rngn=np.random.default_rng(seed)
    samp,oshape,padadj=ref_shapes(roi,gpts,step,dq,pad)
    thick=[4.0+2*s for s in range(S-1)]
    ph=rngn.normal(size=(S,*oshape))*0.5
    obj = ph if obj_type=="potential" else np.exp(1j*ph)
    probe=ref_probe(roi,samp,M,seed)
    rr,cc=np.meshgrid(np.arange(gpts[0])*step[0]/samp[0]+padadj[0], np.arange(gpts[1])*step[1]/samp[1]+padadj[1], indexing="ij")
    pos=np.stack([rr.ravel(),cc.ravel()],-1)
    I=ref_forward(obj,probe,pos,roi,samp,thick,obj_type)
    ds=Dataset4dstem.from_array(I.reshape(*gpts,*roi).astype(np.float32), sampling=(*step,*dq), units=("A","A","A^-1","A^-1"))
    pd=PtychographyDatasetRaster.from_dataset4dstem(ds,verbose=0,learn_descan=False,learn_scan_positions=False)
    pd.preprocess(com_fit_function="no_shift",force_com_rotation=0,force_com_transpose=False,plot_rotation=False,plot_com=False,probe_energy=E)
    om=ObjectPixelated.from_uniform(num_slices=S, obj_type=obj_type, slice_thicknesses=thick if S>1 else None)
    pm=ProbePixelated.from_array(probe.astype(np.complex64), probe_params={"energy":E,"semiangle_cutoff":20.0,"defocus":0}, rng=11)
    pt=Ptychography.from_models(dset=pd,obj_model=om,probe_model=pm,detector_model=DetectorPixelated(),rng=rng,verbose=0)
    pt.preprocess(obj_padding_px=pad, plot_rotation=False, plot_com=False)
    return pt
opt={"object":{"type":"adam","lr":5e-2},"probe":{"type":"adam","lr":1e-3}}
t0=time.time()
a=make(); a.reconstruct(num_iters=6,optimizer_params=copy.deepcopy(opt),reset=True)
print("6 iters losses",a.iter_losses, "t",time.time()-t0)
# split
for k in [0,2,3]:
    b=make(); 
    b.reconstruct(num_iters=k,optimizer_params=copy.deepcopy(opt),reset=True)
    d=tempfile.mkdtemp(); p=os.path.join(d,"pt.zip")
    t1=time.time()
    try:
        b.save(p, save_raw_data=True, verbose=0)
        c=Ptychography.from_file(p, auto_reload_dataset=False)
        print("k",k,"save+load t",round(time.time()-t1,2),"loaded iters",c.num_iters, "has dset", hasattr(c,"_dset"))
        c.verbose=0
        c.reconstruct(num_iters=6-k)
        print("   resumed losses",c.iter_losses, "maxdiff",np.abs(c.iter_losses-a.iter_losses).max())
    except Exception as e:
        import traceback; traceback.print_exc()
    try:
        t1=time.time()
        cl=b.clone(); cl.reconstruct(num_iters=6-k)
        print("   clone t",round(time.time()-t1,2),"maxdiff",np.abs(cl.iter_losses-a.iter_losses).max(), "obj diff", np.abs(cl.obj-a.obj).max())
    except Exception as e:
        import traceback; traceback.print_exc()
