import numpy as np, warnings, torch, time, math, itertools
warnings.simplefilter("ignore")
from quantem.core.utils.imaging_utils import unwrap_phase_2d_torch
print("== unwrap")
def wrap(x): return (x+np.pi)%(2*np.pi)-np.pi
H,W=7,9
yy,xx=np.mgrid[:H,:W].astype(float)
fields={"ramp":0.9*xx+0.4*yy, "quad":0.15*((xx-4)**2+(yy-3)**2), "bump":8*np.exp(-((xx-4)**2+(yy-3)**2)/6)}
for name,f in fields.items():
    dmax=max(np.abs(np.diff(f,axis=0)).max(),np.abs(np.diff(f,axis=1)).max())
    for wa in [False]:
        t0=time.time()
        out=unwrap_phase_2d_torch(torch.tensor(wrap(f),dtype=torch.float32),wrap_around=wa).numpy()
        d=out-f; print(name,"maxgrad",round(dmax,2),"wa",wa,"resid ptp",round(float(np.ptp(d)),5),"time",round(time.time()-t0,3))
# periodic field
fp=2*np.pi*xx/W*2 + 0.0  # 2 full turns across W: periodic mod 2pi
out=unwrap_phase_2d_torch(torch.tensor(wrap(fp),dtype=torch.float32),wrap_around=True).numpy()
print("periodic ramp wrap_around=True: resid ptp",np.ptp(out-fp).round(4), "(not single valued: expected fail?)")
fp2=2.5*np.sin(2*np.pi*xx/W)+2*np.cos(2*np.pi*yy/H)
out=unwrap_phase_2d_torch(torch.tensor(wrap(fp2),dtype=torch.float32),wrap_around=True).numpy()
print("periodic smooth wrap_around=True: resid ptp",np.ptp(out-fp2).round(5))
# mask with hole and two components
mask=np.ones((H,W),bool); mask[:,4]=False; mask[2:4,1:3]=False
f=fields["ramp"]
out=unwrap_phase_2d_torch(torch.tensor(wrap(f),dtype=torch.float32),mask=torch.tensor(mask),wrap_around=False).numpy()
from scipy.ndimage import label
lab,n=label(mask)
for c in range(1,n+1):
    d=(out-f)[lab==c]; print("component",c,"resid ptp",np.ptp(d).round(5))
k=(out-wrap(f)); kk=(k-k[mask][0])/(2*np.pi); print("integer multiples on mask:", np.abs(kk[mask]-np.round(kk[mask])).max().round(5))
print("== COM")
from quantem.diffractive_imaging.dataset_models import PtychographyDatasetRaster
from quantem.diffractive_imaging.origin_models import CenterOfMassOriginModel
from quantem.core.datastructures import Dataset4dstem
rng=np.random.default_rng(1)
arr=rng.random((3,4,6,8)).astype(np.float32)+0.1
ds=Dataset4dstem.from_array(arr, sampling=[1,1,0.1,0.1], units=["A","A","A^-1","A^-1"])
kr,kc=np.mgrid[:6,:8]
com_r=(arr*kr).sum((-1,-2))/arr.sum((-1,-2)); com_c=(arr*kc).sum((-1,-2))/arr.sum((-1,-2))
for vec in (True,False):
    p=PtychographyDatasetRaster.from_dataset4dstem(ds,verbose=0)
    p._set_intensities_com(p.intensities_4d, fit_function="none", vectorized_calculation=vec)
    print("vectorized",vec,"err r",np.abs(p.com_measured[0]-com_r).max().round(5),"err c",np.abs(p.com_measured[1]-com_c).max().round(5))
om=CenterOfMassOriginModel.from_dataset(ds)
for bs in [None,1,5,12]:
    om.calculate_origin(bs); o=om.origin_measured.numpy().reshape(3,4,2)
    print("origin model bs",bs,np.abs(o[...,0]-com_r).max().round(6),np.abs(o[...,1]-com_c).max().round(6))
