"""Shared helper for the serializer checks C01 (round trip) and C14 (skip lists).

Four parts, none of which knows anything about how quantem encodes a value:

1. test classes deriving from AutoSerialize (module level, so that load() can import them by name);
2. the leaf alphabet K and JSON-able graph descriptors with a deterministic builder
   (`build(desc, seed)`): a case can be rebuilt in a worker process or in replay from its descriptor;
3. the object-graph grammar G(d, w) (`grammar(tier)`): families of descriptors, simplest first;
4. the structural-equality relation (`diff(expected, observed, slack)`): a list of difference
   records with the path to the differing node (empty list = equal), `fmt` to print them,
   `summary` (a JSON-able canonical description of a loaded graph, used for outcome digests).

Descriptor syntax (plain lists, survives JSON):
    ["L", leaf_name]                       a member of the leaf alphabet
    ["C", kind, [item, ...]]               list / tuple / set
    ["C", "dict", [[key, item], ...]]      dict with string keys
    ["O", class_name, [[attr, item], ...]] an AutoSerialize object
"""
from __future__ import annotations

import ast
import contextlib
import io
import itertools
import logging
import math
import os
import shutil
import warnings
import zlib
from pathlib import Path, PurePath

import numpy as np
import torch

from quantem.core.io import load as q_load
from quantem.core.io.serialize import AutoSerialize


# ============================================================================= 1. test classes
class Root(AutoSerialize):
    pass


class NodeA(AutoSerialize):
    pass


class NodeB(AutoSerialize):
    pass


class NodeC(AutoSerialize):
    pass


class Old(AutoSerialize):
    """What lies at the target before a mode='o' save onto an existing file."""


class Top(AutoSerialize):
    pass


class Mid(AutoSerialize):
    pass


class Inner(AutoSerialize):
    """`__new__` already sets one attribute (`q`): load() builds objects with `__new__`, so a skipped
    name can exist on the fresh object before anything is restored (the case the serializer's final
    `delattr` loop exists for)."""

    def __new__(cls, *a, **k):
        o = super().__new__(cls)
        o.q = "set-by-__new__"
        return o


class HybridInner(AutoSerialize, torch.nn.Module):
    """Both AutoSerialize and torch.nn.Module (the pattern of the repository's test_hybrid_module_roundtrip and of
    the object / probe / dataset models of a Ptychography object). Attributes are set by the descriptor builder."""

    def __init__(self):
        torch.nn.Module.__init__(self)
        super().__init__()


# ---- classes with hooks that the loader (or the pickler) runs, used for re-entrant loads / saves ----
HOOKS_ENABLED = [True]  # builders switch the hooks off while they construct the in-memory graph


def _run_companion_hook(obj):
    """`companion` = ["load", path] : load that archive and keep it as `loaded`;
       `companion` = ["save", path, store] : save a small fixed object there (a save inside a load)."""
    spec = obj.__dict__.get("companion")
    if not HOOKS_ENABLED[0] or not isinstance(spec, (list, tuple)) or not spec:
        return
    if spec[0] == "load":
        object.__setattr__(obj, "loaded", q_load(spec[1]))
    elif spec[0] == "save":
        side = NodeC()
        side.v = "written by a hook"
        side.arr = np.arange(4, dtype=np.int16)
        with contextlib.redirect_stdout(io.StringIO()):
            side.save(spec[1], store=spec[2], mode="o")


class HookedPostInit(AutoSerialize):
    """`__attrs_post_init__`: the one construction hook load() calls on any class that defines it."""

    def __attrs_post_init__(self):
        _run_companion_hook(self)


class HookedSetattr(AutoSerialize):
    """`__setattr__`: load() restores every attribute through setattr, so this runs in the MIDDLE of the object's restore."""

    def __setattr__(self, name, value):
        object.__setattr__(self, name, value)
        if name == "companion":
            _run_companion_hook(self)


class PickleHook:
    """A plain object (dill fallback): `__setstate__` runs inside load(), `__getstate__` inside save()."""

    def __init__(self, companion=None, tag="p"):
        self.companion = companion
        self.tag = tag

    def __getstate__(self):
        if HOOKS_ENABLED[0] and self.companion and self.companion[0] == "save_on_getstate":
            side = NodeC()
            side.v = "written by __getstate__"
            side.arr = np.arange(4, dtype=np.int16)
            with contextlib.redirect_stdout(io.StringIO()):
                side.save(self.companion[1], store=self.companion[2], mode="o")
        return dict(self.__dict__)

    def __setstate__(self, state):
        self.__dict__.update(state)
        if HOOKS_ENABLED[0] and self.companion and self.companion[0] == "load":
            self.loaded = q_load(self.companion[1])

    def __eq__(self, other):
        return type(other) is type(self) and self.tag == other.tag and list(self.companion or []) == list(other.companion or [])

    def __hash__(self):
        return hash(self.tag)


class RefusesPickling:
    """An unsaveable leaf: its __getstate__ raises."""

    def __getstate__(self):
        raise RuntimeError("this object refuses to be pickled")


# ---- subclasses of the built-in containers (module level: dill / pickle find them by name) ----
import collections as _collections


class UserList(list):
    pass


class UserTuple(tuple):
    pass


class UserDict(dict):
    pass


PointNT = _collections.namedtuple("PointNT", "x y")
MixedNT = _collections.namedtuple("MixedNT", "name value arr")
CONTAINER_SUBCLASSES = [
    "torch_Size", "torch_Size_empty", "namedtuple_numeric", "namedtuple_mixed", "list_subclass", "tuple_subclass", "OrderedDict",
    "defaultdict_list", "Counter", "dict_subclass", "frozenset",
]


def container_subclass(name, seed):
    arr = make_array("i16", (3,), int(seed) + 51)
    if name == "torch_Size":
        return torch.Size([2, 3])
    if name == "torch_Size_empty":
        return torch.Size([])
    if name == "namedtuple_numeric":
        return PointNT(1, 2.5)
    if name == "namedtuple_mixed":
        return MixedNT("s", -1, arr)
    if name == "list_subclass":
        return UserList(["s", 2, arr])
    if name == "tuple_subclass":
        return UserTuple(("s", None, 1.5))
    if name == "OrderedDict":
        return _collections.OrderedDict([("k", arr), ("a", "s"), ("n", None)])
    if name == "defaultdict_list":
        d = _collections.defaultdict(list)
        d["a"].append(1)
        d["b"]
        d["c"].append("s")
        return d
    if name == "Counter":
        return _collections.Counter({"a": 2, "b": 1})
    if name == "dict_subclass":
        return UserDict(k=arr, s="s", t=(1, "s"))
    if name == "frozenset":
        return frozenset({"s", 1, 2.5})
    raise ValueError(name)


class HybridRoot(AutoSerialize, torch.nn.Module):
    """A ROOT that is both AutoSerialize and torch.nn.Module (the pattern of the ptychography object / probe models):
    parameters, buffers and sub-modules live in _parameters / _buffers / _modules, not in the instance dict."""

    def __init__(self):
        torch.nn.Module.__init__(self)
        super().__init__()


try:  # an attrs-style root (the serializer honours __attrs_attrs__); attrs is not a dependency of quantem
    import attrs as _attrs

    @_attrs.define(slots=False, eq=False)
    class AttrsRoot(AutoSerialize):
        a: object = None
        arr: object = None
        s: object = None
        t: object = None
        lst: object = None
        child: object = None

except Exception:  # pragma: no cover
    AttrsRoot = None


CLASSES = {c.__name__: c for c in (Root, NodeA, NodeB, NodeC, Old, Top, Mid, Inner, HybridInner, HybridRoot, HookedPostInit, HookedSetattr)}


# ============================================================================= 2. leaf alphabet
ARR_DTYPES = {
    "bool": "bool", "u8": "uint8", "i16": "int16", "i64": "int64", "f16": "float16",
    "f32": "float32", "f64": "float64", "c64": "complex64", "c128": "complex128", "U3": "<U3",
}
ARR_SHAPES = [(), (0,), (0, 3), (1,), (3,), (2, 3), (2, 1, 2)]
EXTRA_INT_DTYPES = {"i8": "int8", "u16": "uint16", "i32": "int32", "u32": "uint32", "u64": "uint64"}
_ALL_DT = dict(ARR_DTYPES, **EXTRA_INT_DTYPES)
_USTR = ["", "a", "bc", "λ", "x✓z", "éé", "abc", "q"]


def _tag(s):
    return zlib.crc32(s.encode()) & 0x7FFFFFFF


def make_array(dt, shape, seed):
    """Seeded contents; NaN, -0.0 and inf planted in inexact arrays with >= 3 elements."""
    r = np.random.default_rng([int(seed), 1, _tag(f"{dt}{shape}")])
    dtype = np.dtype(_ALL_DT[dt])
    n = int(np.prod(shape, dtype=int))
    if dtype.kind == "b":
        a = r.integers(0, 2, size=shape).astype(bool)
    elif dtype.kind in "iu":
        info = np.iinfo(dtype)
        a = r.integers(info.min, info.max, size=shape, dtype=dtype, endpoint=True)
    elif dtype.kind == "f":
        a = np.asarray(r.standard_normal(shape) * 3).astype(dtype)
        if n >= 3:
            f = a.reshape(-1)
            f[0], f[1], f[2] = np.nan, -0.0, np.inf
    elif dtype.kind == "c":
        a = np.asarray(r.standard_normal(shape) + 1j * r.standard_normal(shape)).astype(dtype)
        if n >= 3:
            f = a.reshape(-1)
            f[0], f[1], f[2] = complex(np.nan, 1.0), complex(-0.0, -0.0), complex(np.inf, -np.inf)
    elif dtype.kind == "U":
        idx = r.integers(0, len(_USTR), size=shape)
        a = np.asarray(np.array(_USTR, dtype=dtype)[idx], dtype=dtype).reshape(shape)
    else:  # pragma: no cover
        raise ValueError(dt)
    a = np.ascontiguousarray(a).reshape(shape)
    assert a.dtype == dtype and a.shape == tuple(shape)
    return a


def _linear(seed, tag, i=2, o=1):
    m = torch.nn.Linear(i, o)
    r = np.random.default_rng([int(seed), 7, tag])
    with torch.no_grad():
        for p in m.parameters():
            p.copy_(torch.from_numpy(r.standard_normal(tuple(p.shape)).astype(np.float32)))
    return m


def _sequential(seed):
    return torch.nn.Sequential(_linear(seed, 11, 2, 2), torch.nn.ReLU(), _linear(seed, 12, 2, 1))


def _optimizer(seed, with_scheduler=False):
    m = _linear(seed, 13)
    opt = torch.optim.Adam(m.parameters(), lr=0.1)
    sch = torch.optim.lr_scheduler.ExponentialLR(opt, gamma=0.9) if with_scheduler else None
    loss = (m(torch.ones(1, 2)) ** 2).sum()
    loss.backward()
    opt.step()
    if sch is not None:
        sch.step()
        return sch
    return opt


def _tensor(kind, seed):
    if kind == "f32_grad":
        return torch.from_numpy(make_array("f32", (3,), seed + 1).copy()).requires_grad_(True)
    if kind == "f32_grad_2x3":
        return torch.from_numpy(make_array("f32", (2, 3), seed + 5).copy()).requires_grad_(True)
    if kind == "f64":
        return torch.from_numpy(make_array("f64", (2, 2), seed + 1).copy())
    if kind == "c64":
        return torch.from_numpy(make_array("c64", (2,), seed + 1).copy())
    if kind == "i64":
        return torch.from_numpy(make_array("i64", (3,), seed + 1).copy())
    if kind == "0d":
        return torch.tensor(float(make_array("f32", (1,), seed + 1)[0]))
    if kind == "0d_grad":
        return torch.tensor(float(make_array("f64", (1,), seed + 1)[0]), dtype=torch.float64, requires_grad=True)
    if kind == "empty":
        return torch.zeros((0, 2), dtype=torch.float32)
    if kind == "bool":
        return torch.from_numpy(make_array("bool", (3,), seed + 1).copy())
    if kind == "param":
        return torch.nn.Parameter(torch.from_numpy(make_array("f32", (2, 3), seed + 4).copy()))
    raise ValueError(kind)


TENSOR_LAYOUTS = ["fresh", "row_view", "strided_view", "scalar_view", "transposed", "expanded", "narrow_1d", "empty_view", "nonleaf_view"]
TENSOR_LAYOUT_DTYPES = ["f64", "c64", "i64", "bool"]
ARRAY_LAYOUTS = ["C", "F", "transposed", "strided", "negative_stride", "readonly", "broadcast"]
ARRAY_LAYOUT_DTYPES = ["f64", "i16", "c64", "U3"]


def tensor_layout(layout, dt, rg, seed):
    """A tensor of a given memory LAYOUT (what is claimed to come back: dtype, shape, values, requires_grad).
    Every view is a partial or re-strided view of a seeded 4x6 base; `rg` asks for requires_grad=True, set by
    .requires_grad_() on the view itself (a leaf), except `nonleaf_view`: x[1] of a base that requires grad
    (it has a grad_fn; requires_grad is True by construction)."""
    base = torch.from_numpy(make_array(dt, (4, 6), int(seed) + 21).copy())
    floating = base.is_floating_point() or base.is_complex()
    if layout == "nonleaf_view":
        if not floating:
            raise ValueError("nonleaf_view needs a floating dtype")
        return base.requires_grad_(True)[1]
    if layout == "fresh":
        t = base[1:3, 1:4].clone()
    elif layout == "row_view":
        t = base[1]
    elif layout == "strided_view":
        t = base[::2, 1::2]
    elif layout == "scalar_view":
        t = base[2, 3]
    elif layout == "transposed":
        t = base.t()
    elif layout == "expanded":
        t = base[3:4, 1:4].clone().expand(4, 3)
    elif layout == "narrow_1d":
        t = base.reshape(-1)[3:7]
    elif layout == "empty_view":
        t = base[1:1]
    else:
        raise ValueError(layout)
    if rg:
        if not floating:
            raise ValueError("requires_grad needs a floating dtype")
        t.requires_grad_(True)
    return t


def array_layout(layout, dt, seed):
    base = make_array(dt, (4, 6), int(seed) + 22)
    if layout == "C":
        return np.ascontiguousarray(base)
    if layout == "F":
        return np.asfortranarray(base)
    if layout == "transposed":
        return base.T
    if layout == "strided":
        return base[::2, 1::2]
    if layout == "negative_stride":
        return base[::-1, ::-2]
    if layout == "readonly":
        a = base.copy()
        a.setflags(write=False)
        return a
    if layout == "broadcast":
        return np.broadcast_to(base[1, :3], (4, 3))
    raise ValueError(layout)


class Leaf:
    __slots__ = ("name", "cls", "make", "hashable", "numeric", "beyond_i64")

    def __init__(self, name, cls, make, hashable=False, numeric=False, beyond_i64=False):
        self.name, self.cls, self.make = name, cls, make
        self.hashable, self.numeric, self.beyond_i64 = hashable, numeric, beyond_i64


def _leaf_table():
    t = {}

    def add(name, cls, make, **kw):
        assert name not in t, name
        t[name] = Leaf(name, cls, make, **kw)

    const = lambda v: (lambda seed: v)  # noqa: E731
    # --- Python scalars (dispatch branch "scalar" -> JSON attribute) ---
    for name, v in [("i0", 0), ("i-1", -1), ("i2^40", 2**40), ("i2^53+1", 2**53 + 1), ("i2^62", 2**62), ("i2^63-1", 2**63 - 1), ("i-2^63", -(2**63))]:
        add(name, "int", const(v), hashable=True, numeric=True)
    add("i2^70", "int", const(2**70), hashable=True, numeric=True, beyond_i64=True)
    add("true", "bool", const(True), hashable=True, numeric=True)
    add("false", "bool", const(False), hashable=True, numeric=True)
    for name, v in [("f1.5", 1.5), ("f0.5", 0.5), ("f0.1", 0.1), ("f-0.0", -0.0), ("nan", float("nan")), ("inf", float("inf")), ("-inf", float("-inf"))]:
        add(name, "float", const(v), hashable=True, numeric=True)
    add("s_empty", "str", const(""), hashable=True)
    add("s", "str", const("s"), hashable=True)
    add("s_unicode", "str", const("héλλo ✓ 漢"), hashable=True)
    add("none", "none", const(None), hashable=True)
    # --- dill fallback ---
    add("complex", "dill", const(1 + 2j), hashable=True)
    add("bytes", "dill", const(b"ab\x00\xff"), hashable=True)
    add("bytes_empty", "dill", const(b""), hashable=True)
    add("frozenset", "dill", lambda seed: frozenset({1, "a"}), hashable=True)
    add("range", "dill", lambda seed: range(1, 7, 2), hashable=True)
    add("slice", "dill", lambda seed: slice(1, None, 2))
    add("bytearray", "dill", lambda seed: bytearray(b"ab"))
    # --- paths ---
    add("path_rel", "path", lambda seed: Path("some dir/b.txt"), hashable=True)
    add("path_abs", "path", lambda seed: Path("/x/y"), hashable=True)
    # --- NumPy scalars ---
    add("np_f32", "np_scalar", lambda seed: np.float32(2.25), hashable=True, numeric=True)
    add("np_f32_0.1", "np_scalar", lambda seed: np.float32(0.1), hashable=True, numeric=True)
    add("np_f16", "np_scalar", lambda seed: np.float16(0.1), hashable=True, numeric=True)
    add("np_f64", "np_scalar", lambda seed: np.float64(-2.75), hashable=True, numeric=True)
    add("np_i8", "np_scalar", lambda seed: np.int8(-3), hashable=True, numeric=True)
    add("np_i64", "np_scalar", lambda seed: np.int64(2**40 + 1), hashable=True, numeric=True)
    add("np_u64s", "np_scalar", lambda seed: np.uint64(5), hashable=True, numeric=True)
    add("np_u64", "np_scalar", lambda seed: np.uint64(2**63 + 5), hashable=True, numeric=True, beyond_i64=True)
    add("np_bool", "np_scalar", lambda seed: np.bool_(True), hashable=True, numeric=True)
    add("np_c64", "np_complex_scalar", lambda seed: np.complex64(1 + 2j), hashable=True)
    add("np_c128", "np_complex_scalar", lambda seed: np.complex128(-1.5 + 0.25j), hashable=True)
    # --- ndarrays: every dtype x every shape ---
    for dt in ARR_DTYPES:
        for sh in ARR_SHAPES:
            add(f"arr:{dt}:{sh}", "ndarray", (lambda seed, dt=dt, sh=sh: make_array(dt, sh, seed)))
    for dt in EXTRA_INT_DTYPES:
        add(f"arr:{dt}:(3,)", "ndarray", (lambda seed, dt=dt: make_array(dt, (3,), seed)))
    add("arr_struct", "ndarray", lambda seed: np.array([(1, 2.5), (-3, float("nan"))], dtype=[("a", "<i4"), ("b", "<f4")]))
    add("arr_dt64", "ndarray", lambda seed: np.array(["2020-01-01", "1999-12-31"], dtype="datetime64[D]"))
    add("arr_noncontig", "ndarray", lambda seed: make_array("i64", (2, 3), seed + 2).repeat(2, axis=1)[:, ::2].T[::-1])
    add("arr_forder", "ndarray", lambda seed: np.asfortranarray(make_array("f64", (2, 3), seed + 3)))
    add("arr_big_zero", "ndarray", lambda seed: np.zeros((64, 48), dtype=np.float32))
    add("arr_big_rand", "ndarray", lambda seed: np.random.default_rng([int(seed), 5]).standard_normal((40, 33)))
    # --- tensors ---
    for k in ("f32_grad", "f32_grad_2x3", "f64", "c64", "i64", "0d", "0d_grad", "empty", "bool", "param"):
        add(f"t_{k}", "tensor", (lambda seed, k=k: _tensor(k, seed)))
    # --- torch modules, optimizer, scheduler ---
    add("linear", "module", lambda seed: _linear(seed, 10))
    add("sequential", "module", _sequential)
    add("optimizer", "optimizer", lambda seed: _optimizer(seed))
    add("scheduler", "scheduler", lambda seed: _optimizer(seed, with_scheduler=True))
    # --- same-kind-only objects ---
    add("rng", "rng", lambda seed: np.random.default_rng(int(seed) + 17))
    add("logger", "logger", lambda seed: logging.getLogger("verif.serial"))
    return t


LEAVES = _leaf_table()

_DYN = {}


def leaf(name):
    """Static alphabet member, or one of the indexed families used for wide containers: `str#i`, `int#i`,
    `flt#i` (pairwise distinct hashable scalars, ints far from 0/1 so that they never equal a bool) and `arr#i`
    (small seeded arrays of three dtypes)."""
    lf = LEAVES.get(name)
    if lf is not None:
        return lf
    lf = _DYN.get(name)
    if lf is None:
        if name.startswith("tv:"):
            _, layout, dt, rg = name.split(":")
            lf = Leaf(name, "tensor", (lambda seed, layout=layout, dt=dt, rg=rg: tensor_layout(layout, dt, rg == "1", seed)))
            _DYN[name] = lf
            return lf
        if name.startswith("cs:"):
            lf = Leaf(name, "container_subclass", (lambda seed, n=name[3:]: container_subclass(n, seed)))
            _DYN[name] = lf
            return lf
        if name.startswith("av:"):
            _, layout, dt = name.split(":")
            lf = Leaf(name, "ndarray", (lambda seed, layout=layout, dt=dt: array_layout(layout, dt, seed)))
            _DYN[name] = lf
            return lf
        fam, _, idx = name.partition("#")
        i = int(idx)
        if fam == "str":
            lf = Leaf(name, "str", (lambda seed, i=i: f"s{i}é"), hashable=True)
        elif fam == "int":
            lf = Leaf(name, "int", (lambda seed, i=i: 1000 + i), hashable=True, numeric=True)
        elif fam == "flt":
            lf = Leaf(name, "float", (lambda seed, i=i: i + 0.25), hashable=True, numeric=True)
        elif fam == "arr":
            lf = Leaf(name, "ndarray", (lambda seed, i=i: make_array(("i16", "f32", "u8")[i % 3], (2,), int(seed) + 100 + i)))
        else:
            raise KeyError(name)
        _DYN[name] = lf
    return lf

# names that may never be used as attribute names / dict keys (the quantifier's exclusions), and names
# that zarr treats as path syntax ('\\' is normalised to '/', '.' and '..' are path segments)
RESERVED_NAMES = (
    "_autoserialize", "_autoserialize_skip_names", "_autoserialize_skip_types", "_container_type",
    "_sequence_encoding", "_torch_iterable_module_type", "_original_shape",
)
RESERVED_SUFFIXES = (".is_path", ".torch_save")


def name_allowed(n):
    if not isinstance(n, str) or n == "" or n in RESERVED_NAMES or n.startswith("_autoserialize"):
        return False
    if any(n.endswith(s) for s in RESERVED_SUFFIXES):
        return False
    if "/" in n or "\\" in n or n in (".", ".."):
        return False
    return True


# ----------------------------------------------------------------------------- descriptor helpers
def L(name):
    leaf(name)
    return ["L", name]


def C(kind, *items):
    assert kind in ("list", "tuple", "set")
    return ["C", kind, [i for i in items]]


def D(*pairs):
    for k, _ in pairs:
        assert name_allowed(k), k
    return ["C", "dict", [[k, v] for k, v in pairs]]


def key_allowed(k):
    """Dict keys: like attribute names, and the empty string (a legal str key; zarr has no node of that name)."""
    return k == "" or name_allowed(k)


def DK(pairs):
    """Dict with arbitrary allowed keys (D() is for identifier-like ones)."""
    for k, _ in pairs:
        assert key_allowed(k), k
    return ["C", "dict", [[k, v] for k, v in pairs]]


def CK(kind, *items):
    """Container of any kind; dict keys are generated (k0, k1, ...)."""
    if kind == "dict":
        return D(*[(f"k{i}", it) for i, it in enumerate(items)])
    return C(kind, *items)


def O(cls, *pairs, **attrs):
    assert cls in CLASSES
    ps = [[k, v] for k, v in pairs] + [[k, v] for k, v in attrs.items()]
    for k, _ in ps:
        assert name_allowed(k), k
    return ["O", cls, ps]


def build(desc, seed, memo=None):
    """Fresh Python objects for a descriptor; nothing is shared between two calls. Inside one call, every
    ["S", label, desc] with the same label is ONE object (aliasing) and ["B", label] is a reference back to the
    labelled object that is still under construction (a true cycle)."""
    if memo is None:
        memo = {}
    tag = desc[0]
    if tag == "L":
        return leaf(desc[1]).make(seed)
    if tag == "B":
        return memo[desc[1]]
    if tag == "S":
        label, inner = desc[1], desc[2]
        if label in memo:
            return memo[label]
        if inner[0] == "O":  # registered before its attributes are built, so that they can point back to it
            o = memo[label] = CLASSES[inner[1]]()
            for n, d in inner[2]:
                setattr(o, n, build(d, seed, memo))
            return o
        if inner[0] == "C" and inner[1] == "list":
            o = memo[label] = []
            for d in inner[2]:
                o.append(build(d, seed, memo))
            return o
        if inner[0] == "C" and inner[1] == "dict":
            o = memo[label] = {}
            for k, d in inner[2]:
                o[k] = build(d, seed, memo)
            return o
        o = memo[label] = build(inner, seed, memo)
        return o
    if tag == "C":
        kind, items = desc[1], desc[2]
        if kind == "dict":
            return {k: build(d, seed, memo) for k, d in items}
        vals = [build(d, seed, memo) for d in items]
        return {"list": list, "tuple": tuple, "set": set}[kind](vals)
    if tag == "O":
        o = CLASSES[desc[1]]()
        for n, d in desc[2]:
            setattr(o, n, build(d, seed, memo))
        return o
    raise ValueError(f"bad descriptor {desc!r}")


def SH(label, desc):
    """Shared node: every occurrence with this label is the same object."""
    return ["S", label, desc]


def BACK(label):
    return ["B", label]


def show(desc):
    """Compact human-readable form of a descriptor."""
    tag = desc[0]
    if tag == "L":
        return desc[1]
    if tag == "S":
        return f"&{desc[1]}:{show(desc[2])}"
    if tag == "B":
        return f"*{desc[1]}"
    if tag == "C":
        kind, items = desc[1], desc[2]
        if kind == "dict":
            sk = lambda k: repr(k) if len(k) <= 40 else repr(k[:12] + "…") + f"<{len(k)} chars>"  # noqa: E731
            if len(items) > 8:
                return "{" + ", ".join(f"{sk(k)}: {show(d)}" for k, d in items[:3]) + f", … {len(items)} keys …, {sk(items[-1][0])}: {show(items[-1][1])}" + "}"
            return "{" + ", ".join(f"{sk(k)}: {show(d)}" for k, d in items) + "}"
        if len(items) > 6:
            inner = ", ".join(show(d) for d in items[:3]) + f", … {len(items)} elements …, " + show(items[-1])
        else:
            inner = ", ".join(show(d) for d in items)
        return {"list": f"[{inner}]", "tuple": f"({inner}{',' if len(items) == 1 else ''})", "set": "set{" + inner + "}"}[kind]
    sn = lambda n: n if (n.isidentifier() and len(n) <= 40) else (repr(n) if len(n) <= 40 else repr(n[:12] + "…") + f"<{len(n)} chars>")  # noqa: E731
    return f"{desc[1]}(" + ", ".join(f"{sn(n)}={show(d)}" for n, d in desc[2]) + ")"


def desc_hashable(desc):
    if desc[0] == "S":
        return desc_hashable(desc[2])
    if desc[0] == "B":
        return False
    if desc[0] == "L":
        return leaf(desc[1]).hashable
    if desc[0] == "C" and desc[1] == "tuple":
        return all(desc_hashable(d) for d in desc[2])
    return False


def children(desc):
    if desc[0] in ("L", "B"):
        return []
    if desc[0] == "S":
        return [desc[2]]
    if desc[0] == "C" and desc[1] == "dict":
        return [d for _, d in desc[2]]
    if desc[0] == "C":
        return list(desc[2])
    return [d for _, d in desc[2]]


def excluded_by_quantifier(desc):
    """True if the graph contains an all-numeric list/tuple/set holding an integer beyond int64."""
    if desc[0] == "C" and desc[1] != "dict" and desc[2]:
        items = desc[2]
        if all(d[0] == "L" and leaf(d[1]).numeric for d in items) and any(leaf(d[1]).beyond_i64 for d in items):
            return True
    return any(excluded_by_quantifier(c) for c in children(desc))


def leaf_occurrences(desc, ck=None, out=None):
    """[(leaf name, kind of the container directly holding it or None)] in document order, unique."""
    if out is None:
        out = []
    if desc[0] == "L":
        if (desc[1], ck) not in out:
            out.append((desc[1], ck))
    elif desc[0] == "C":
        for c in children(desc):
            leaf_occurrences(c, desc[1], out)
    else:
        for c in children(desc):
            leaf_occurrences(c, None, out)
    return out


def node_kind(desc):
    if desc[0] == "S":
        return node_kind(desc[2])
    if desc[0] == "B":
        return "back_reference"
    if desc[0] == "L":
        return leaf(desc[1]).cls
    return desc[1] if desc[0] == "C" else "object"


def node_occurrences(desc):
    """[(node descriptor, kind of the container directly holding it or None)] for every node below the root
    object, leaves first, then inner nodes from the smallest up (candidates for blaming an exception)."""
    acc = []

    def rec(d, ck):
        if (d, ck) not in acc:
            acc.append((d, ck))
        for c in children(d):
            rec(c, d[1] if d[0] == "C" else None)

    for c in children(desc):
        rec(c, None)
    acc.sort(key=lambda t: (t[0][0] != "L", len(repr(t[0]))))
    return acc


def dispatch_classes(desc, out=None):
    if out is None:
        out = set()
    if desc[0] == "L":
        out.add(leaf(desc[1]).cls)
    elif desc[0] == "C":
        out.add(desc[1])
    elif desc[0] == "O":
        out.add("object")
    for c in children(desc):
        dispatch_classes(c, out)
    return out


def depth(desc):
    """Nesting depth: number of container / object levels below the root object."""
    if desc[0] == "L":
        return 0
    return 1 + max([depth(c) for c in children(desc)] or [0])


def _distinct_in_set(a, b):
    try:
        return len({build(a, 0), build(b, 0)}) == 2
    except TypeError:
        return False


# ============================================================================= 3. grammar G(d, w)
KINDS = ("list", "tuple", "dict", "set")

# one representative per dispatch branch of the serializer's type chain (+ the two container decoders)
REPS = {
    "tensor": L("t_f32_grad"),
    "optimizer": L("optimizer"),
    "scheduler": L("scheduler"),
    "logger": L("logger"),
    "module": L("linear"),
    "ndarray": L("arr:f64:(2, 3)"),
    "int": L("i-1"),
    "float": L("f1.5"),
    "bool": L("true"),
    "str": L("s"),
    "none": L("none"),
    "np_scalar": L("np_f32"),
    "path": L("path_rel"),
    "object": O("NodeA", v=L("i2^40"), arr=L("arr:i16:(3,)")),
    "list": C("list", L("s"), L("i0")),
    "dict": D(("a", L("s_unicode")), ("b", L("f0.5"))),
    "set": C("set", L("s"), L("s_empty")),
    "rng": L("rng"),
    "dill": L("complex"),
}
# encoding corners that get the pair treatment in the thorough tier as well
CORNER_REPS = {
    "ndarray0d": L("arr:i64:()"),
    "ndarray_empty": L("arr:i16:(0, 3)"),
    "np_complex_scalar": L("np_c64"),
    "tuple": C("tuple", L("i-1"), L("f0.5")),
}
SEQ_ALPHABET = ["i-1", "f1.5", "true", "np_f32", "s", "nan"]
CORNER_ALPHABET = [
    "i2^53+1", "i2^62", "i-2^63", "i2^63-1", "i2^40", "f0.5", "f0.1", "f-0.0", "nan", "true",
    "np_i8", "np_u64s", "np_f32_0.1", "np_f64", "np_bool", "np_f16",
]
CORNER_ALPHABET_QUICK = ["i2^53+1", "i2^63-1", "i-2^63", "i2^40", "f0.5", "f0.1", "nan", "true", "np_u64s", "np_f32_0.1"]
NAME_ALPHABET = ["_p", "a b", "a.b", "ü", "0", "values", "tensor", "module", "__d__", "a-b", "x.y.z", "a:b"]
NAME_VALUES = ["i-1", "arr:f32:(3,)", "t_f64", "path_rel"]  # quick: the first two


def _arr_container_subset():
    """Quick tier: arrays inside containers = all dtypes x {0-d, empty 2-d, 2-d} + all shapes x f64."""
    names = []
    for dt in ARR_DTYPES:
        for sh in [(), (0, 3), (2, 3)]:
            names.append(f"arr:{dt}:{sh}")
    for sh in ARR_SHAPES:
        n = f"arr:f64:{sh}"
        if n not in names:
            names.append(n)
    return names


def _wrap(kind, inner, sibling=None):
    items = [inner] if sibling is None else [inner, sibling]
    return CK(kind, *items)


def _pair_graphs(reps, kinds, wrappers):
    """Every ordered pair of representatives as siblings inside every container kind (sets: unordered
    pairs of hashable, distinct members), optionally wrapped one level deeper."""
    out = []
    names = list(reps)
    for kind in kinds:
        for a in names:
            for b in names:
                da, db = reps[a], reps[b]
                if kind == "set":
                    if names.index(a) >= names.index(b) or not (desc_hashable(da) and desc_hashable(db)):
                        continue
                    if not _distinct_in_set(da, db):
                        continue
                pair = CK(kind, da, db)
                for w in wrappers:
                    if w is None:
                        g = O("Root", x=pair)
                    elif w == "object":
                        g = O("Root", x=O("NodeB", inner=pair, tag=L("s")))
                    else:
                        if w == "set":
                            continue
                        g = O("Root", x=_wrap(w, pair, L("s")))
                    out.append(g)
    return out


def _nest_graphs(d, lone_wrappers=True):
    """Every chain of container kinds of length 1..d, innermost filled with each content class."""
    contents = {
        "empty": [],
        "numeric": [L("i-1"), L("f1.5")],
        "mixed": [L("s"), L("none")],
        "array": [L("arr:f64:(2, 3)"), L("path_rel")],
    }
    out = []
    for n in range(1, d + 1):
        for chain in itertools.product(KINDS, repeat=n):
            for cname, items in contents.items():
                inner = CK(chain[-1], *items)
                if chain[-1] == "set" and not all(desc_hashable(i) for i in items):
                    continue
                ok = True
                node = inner
                variants = [node]
                for k in reversed(chain[:-1]):
                    nxt = []
                    for v in variants:
                        if k == "set" and not desc_hashable(v):
                            ok = False
                            break
                        nxt.append(_wrap(k, v, L("s")))
                        if n == 2 and lone_wrappers:
                            nxt.append(_wrap(k, v))
                    if not ok:
                        break
                    variants = nxt
                if not ok:
                    continue
                for v in variants:
                    out.append(O("Root", x=v))
    return out


def _object_graphs():
    """AutoSerialize objects nested to depth 3, every combination of attachment (attribute / list /
    tuple / dict) at each of the three levels."""

    def link(kind, obj):
        if kind == "attr":
            return obj
        if kind == "list":
            return C("list", obj, L("s"))
        if kind == "tuple":
            return C("tuple", L("i-1"), obj)
        return D(("o", obj), ("n", L("none")))

    out = []
    for l1, l2, l3 in itertools.product(("attr", "list", "tuple", "dict"), repeat=3):
        c = O("NodeC", v=L("f1.5"), arr=L("arr:i16:(3,)"), t=L("t_f32_grad"), p=L("path_rel"))
        b = O("NodeB", v=L("s"), arr=L("arr:f64:()"), child=link(l3, c))
        a = O("NodeA", v=L("true"), st=C("set", L("s"), L("i-1")), child=link(l2, b))
        out.append(O("Root", n=L("none"), child=link(l1, a)))
    # the same class inside itself, and two siblings of one class
    out.append(O("Root", x=O("NodeA", v=L("i0"), child=O("NodeA", v=L("i-1"), child=O("NodeA", v=L("s"))))))
    out.append(O("Root", a=O("NodeB", v=L("i0")), b=O("NodeB", v=L("arr:f64:(0,)")), c=O("NodeB")))
    return out


def config_core(n):
    """Core graphs of the configuration product: compression touches arrays and dill blobs, so the core
    is array-heavy (every dtype with every shape), plus one graph per other dispatch family."""
    core = []
    for dt in ARR_DTYPES:
        core.append(O("Root", *[(f"a{i}", L(f"arr:{dt}:{sh}")) for i, sh in enumerate(ARR_SHAPES)]))
    core.append(O("Root", big0=L("arr_big_zero"), big1=L("arr_big_rand"), st=L("arr_struct"), dt=L("arr_dt64"), nc=L("arr_noncontig"), fo=L("arr_forder")))
    core.append(O("Root", c=L("complex"), b=L("bytes"), e=L("bytes_empty"), fs=L("frozenset"), r=L("range"), sl=L("slice"), npc=L("np_c64"), lst=C("list", L("complex"), L("s"))))
    core.append(O("Root", lst=C("list", L("arr:f32:(2, 3)"), L("arr:U3:(3,)"), L("arr:i64:()")), d=D(("k", L("arr:c128:(0, 3)")), ("m", C("tuple", L("arr:bool:(3,)"), L("none")))), num=C("list", L("i-1"), L("f1.5")), st=C("set", L("i-1"), L("i2^40"))))
    core.append(O("Root", a=L("i2^70"), child=O("NodeA", arr=L("arr:f16:(2, 1, 2)"), child=O("NodeB", arr=L("arr:u8:(3,)"), lst=C("list", O("NodeC", v=L("arr:f64:(1,)")), L("s")))), p=L("path_abs")))
    core.append(O("Root", t0=L("t_f32_grad"), t1=L("t_c64"), t2=L("t_0d"), t3=L("t_empty"), lst=C("list", L("t_i64"), L("t_bool"))))
    core.append(O("Root", m=L("linear"), s=L("sequential"), o=L("optimizer"), sc=L("scheduler"), r=L("rng"), lg=L("logger")))
    core.append(O("Root", i=L("i-1"), f=L("f-0.0"), n=L("nan"), inf=L("-inf"), s=L("s_unicode"), e=L("s_empty"), none=L("none"), t=L("true"), p=L("path_rel"), nps=L("np_f32"), npu=L("np_u64")))
    core.append(O("Root", x=C("list", C("tuple", L("i-1"), L("f1.5")), D(("a", C("set", L("s"), L("path_rel"))), ("b", C("list"))), C("tuple"))))
    core.append(O("Root", e1=L("arr:u16:(3,)"), e2=L("arr:i8:(3,)"), e3=L("arr:u64:(3,)"), e4=L("arr:i32:(3,)"), e5=L("arr:u32:(3,)")))
    core.append(O("Root"))
    assert len(core) >= 20
    # quick subset: the most compression-sensitive ones first
    order = [6, 7, 9, 0, 10, 11, 12, 13, 5, 1, 2, 3, 4, 8, 14, 15, 16, 17, 18, 19]
    order += [i for i in range(len(core)) if i not in order]
    return [core[i] for i in order[:n]]


WIDTHS = [9, 10, 11, 12, 25, 99, 100, 101]
WIDTH_ELEMENTS = ["str", "mixed_scalars", "ndarray", "nested_pair", "object", "all_numeric"]


def _wide_element(elem, i, in_set):
    """Element i of a wide container; None when the element kind cannot live in that container kind."""
    if elem == "str":
        return L(f"str#{i}")
    if elem == "all_numeric":
        return L(f"int#{i}")
    if elem == "mixed_scalars":
        if in_set:  # distinct hashables, one None
            return L("none") if i == 2 else [L(f"str#{i}"), L(f"int#{i}"), L(f"flt#{i}")][i % 3]
        return [L(f"str#{i}"), L(f"int#{i}"), L("none"), L(f"flt#{i}"), L("true") if i % 2 else L("false")][i % 5]
    if elem == "nested_pair":
        return C("tuple" if in_set else "list", L(f"int#{i}"), L(f"str#{i}"))
    if in_set:
        return None
    if elem == "ndarray":
        return L(f"arr#{i}")
    if elem == "object":
        return O("NodeC", v=L(f"int#{i}"))
    raise ValueError(elem)


def wide(kind, elem, n):
    items = [_wide_element(elem, i, kind == "set") for i in range(n)]
    if any(i is None for i in items):
        return None
    if kind == "dict":
        return D(*[(f"key{i}", it) for i, it in enumerate(items)])
    return C(kind, *items)


def _width_graphs(quick):
    """Containers of every width of WIDTHS (the element-wise encoding names its slots '0', '1', ...: the
    alphabet straddles the places where a decimal slot name gets one digit longer) x container kind x element
    kind, at top level and one level deep (inside a list; thorough: also inside a dict).

    Cost decides the sub-lattices: element kinds stored as attributes (str, mixed scalars) or as one array
    (all-numeric control) are cheap at any width; kinds that cost one zarr node per element (ndarray, nested
    pair, object) make the library's list decoder quadratic (a 101-element list of arrays takes ~15 s to load).
      quick   : cheap kinds: lists of str at all widths, lists of mixed scalars at all but {99, 100}, every other
                             container kind and the all-numeric control at {10, 11, 101} on top level; str and mixed
                             at widths {11, 101} one level deep;
                node kinds : widths {10, 11, 12} on top level (objects {10, 11}), width 11 one level deep in a list.
      thorough: cheap kinds: all widths, top level and both wrappers;
                node kinds : all widths on top level (objects {10, 11, 101}); one level deep widths {11, 12, 25}
                             in both wrappers and width 101 inside the list wrapper for list containers."""
    out = []
    cheap = ("str", "mixed_scalars", "all_numeric")
    for elem in WIDTH_ELEMENTS:
        for kind in KINDS:
            for n in WIDTHS:
                g = wide(kind, elem, n)
                if g is None:
                    continue
                if elem == "object" and n not in (10, 11, 101):
                    continue
                if elem in cheap:
                    top = (not quick) or (elem == "str" and kind == "list") or (elem == "mixed_scalars" and kind == "list" and n not in (99, 100)) or n in (10, 11, 101)
                    deep_list = (not quick) or (n in (11, 101) and elem != "all_numeric")
                    deep_dict = not quick
                elif quick:
                    top = n in (10, 11, 12)
                    deep_list = n == 11 and kind == "list"
                    deep_dict = False
                else:
                    top = True
                    deep_list = n in (11, 12, 25) or (n == 101 and kind == "list")
                    deep_dict = n in (11, 12, 25)
                if top:
                    out.append(O("Root", x=g))
                if deep_list:
                    out.append(O("Root", x=C("list", L("s"), g)))
                if deep_dict:
                    out.append(O("Root", x=D(("w", g), ("n", L("none")))))
    return out


def wide_cost(desc):
    """Rough relative cost of a wide-container graph (for scheduling the expensive ones first)."""
    def rec(d):
        ch = children(d)
        if d[0] == "C" and len(ch) > 8:
            node = any(c[0] != "L" or leaf(c[1]).cls == "ndarray" for c in ch)
            n = len(ch)
            return n * n if (node and d[1] != "dict") else 8 * n if node else n
        return sum(rec(c) for c in ch)
    return rec(desc)


def _layout_graphs(quick):
    """Tensor LAYOUT x requires_grad x dtype and ndarray LAYOUT x dtype, as a direct attribute, inside list / tuple /
    dict and inside a nested object. thorough: one graph per (leaf, position). quick: one graph per leaf holding
    all positions at once, float64 for every layout (both requires_grad values) plus one view per other dtype."""
    out = []  # (graph, tag)

    def positions(lf):
        return [
            ("attribute", lambda: O("Root", t=L(lf))), ("list", lambda: O("Root", l=C("list", L(lf), L("s")))),
            ("tuple", lambda: O("Root", tp=C("tuple", L(lf)))), ("dict", lambda: O("Root", d=D(("k", L(lf)), ("n", L("none"))))),
            ("nested_object", lambda: O("Root", c=O("NodeA", t=L(lf), v=L("i-1")))),
        ]

    def emit(lf, tag):
        if quick:
            out.append((O("Root", t=L(lf), l=C("list", L(lf), L("s")), tp=C("tuple", L(lf)), d=D(("k", L(lf)), ("n", L("none"))), c=O("NodeA", t=L(lf), v=L("i-1"))), tag))
        else:
            for _, mk in positions(lf):
                out.append((mk(), tag))

    for layout in TENSOR_LAYOUTS:
        for dt in TENSOR_LAYOUT_DTYPES:
            floating = dt in ("f64", "c64")
            for rg in (0, 1):
                if rg and not floating:
                    continue
                if layout == "nonleaf_view" and not (rg and floating):
                    continue
                if quick and dt != "f64" and not (layout == "strided_view" and (rg or not floating)) and not (dt == "c64" and layout == "row_view" and rg):
                    continue
                emit(f"tv:{layout}:{dt}:{rg}", {"layout": "tensor:" + layout})
    for layout in ARRAY_LAYOUTS:
        for dt in ARRAY_LAYOUT_DTYPES:
            if quick and dt != "f64" and layout != "strided":
                continue
            emit(f"av:{layout}:{dt}", {"layout": "ndarray:" + layout})
    return out


KEY_SETS = [
    ("prefix_up_to_dot", ["config.yaml", "config"]),
    ("prefix_up_to_dot", ["layer.0.weight", "layer", "layer.0"]),
    ("prefix_up_to_dot", ["a.b", "a"]),
    ("dots", ["a.b.c.d", ".lead", "trail.", "..x"]),
    ("spaces", ["a b", " lead", "trail "]),
    ("unicode", ["ü", "漢字", "é.ü"]),
    ("digits", ["0", "10", "2"]),
    ("empty", ["", "k"]),
    ("suffix_lookalike", ["x.is_pathx", "torch_save", "is_path", "x.torch_savex"]),
    ("long", ["k" * 200, "k" * 199 + "j"]),
    ("punctuation", ["-", "a=b", "a,b", "(x)", "[y]", "a'b", 'a"b']),
    ("punctuation", ["a\tb", "a%b", "a#b", "a?b", "a*b", "a:b", "a|b"]),
    ("case", ["A", "a"]),
    ("node_names", ["values", "tensor", "module", "_p", "__d__"]),
]
KEY_VALUE_KINDS = ["path", "tensor", "tuple", "set", "none", "ndarray", "list", "object", "int", "str"]


def _key_value(kind):
    return {
        "path": L("path_rel"), "tensor": L("t_f64"), "tuple": C("tuple", L("s"), L("i-1")), "set": C("set", L("s"), L("s_empty")),
        "none": L("none"), "ndarray": L("arr:i16:(3,)"), "list": C("list", L("i-1"), L("s")), "object": O("NodeC", v=L("i0")),
        "int": L("i-1"), "str": L("s"),
    }[kind]


def _key_graphs(quick):
    """Dict KEY and attribute NAME spellings. Keys of one set live in one dict (or on one object), so that a side
    flag or a node attached to the wrong key shows: the focus key(s) hold a value of the kind under test, every
    other key holds a plain str (when the kind is Path) or a Path (otherwise).
    thorough: key set x value kind x every focus key, as dict and as attribute names.
    quick   : Path values in two complementary patterns (even-index keys / odd-index keys in focus) for every key
              set, as dict and as attribute names; tensor and tuple values in the first pattern, as dict only (not for
              the punctuation / case / long sets)."""
    out = []

    def graph(keys, kind, focus, as_attr):
        sib = L("s") if kind == "path" else L("path_abs")
        pairs = [(k, _key_value(kind) if k in focus else sib) for k in keys]
        if as_attr:
            if not all(name_allowed(k) for k in keys):
                return None
            return O("Root", *pairs)
        return O("Root", d=DK(pairs))

    for cat, keys in KEY_SETS:
        tag = {"key_spelling": cat}
        if quick:
            combos = [("path", keys[0::2], False), ("path", keys[1::2], False), ("path", keys[0::2], True), ("path", keys[1::2], True)]
            if cat not in ("punctuation", "case", "long"):
                combos += [("tensor", keys[0::2], False), ("tuple", keys[0::2], False)]
        else:
            combos = [(kind, [k], as_attr) for kind in KEY_VALUE_KINDS for k in keys for as_attr in (False, True)]
        for kind, focus, as_attr in combos:
            g = graph(keys, kind, focus, as_attr)
            if g is not None:
                out.append((g, tag))
    return out


def _aliasing_graphs():
    """One object occurring more than once in a graph (a DAG, no cycle): every occurrence must load back structurally
    equal to the input. Whether the occurrences are still ONE object after load is counted, not claimed."""
    child = O("NodeA", v=L("i-1"), arr=L("arr:i16:(3,)"), t=L("t_f32_grad"))
    c = lambda: SH("c", child)  # noqa: E731
    x = lambda d: SH("x", d)  # noqa: E731
    arr, ten, pth = L("arr:f64:(2, 3)"), L("t_f32_grad_2x3"), L("path_rel")
    lst, dct, st = C("list", L("s"), L("arr:i16:(3,)")), D(("k", L("t_f64")), ("n", L("none"))), C("set", L("s"), L("i-1"))
    out = [
        ("object_under_two_attributes", O("Root", a=c(), b=c())),
        ("object_twice_in_a_list", O("Root", l=C("list", c(), c()))),
        ("object_in_list_and_dict", O("Root", l=C("list", c(), L("s")), d=D(("k", c())))),
        ("object_in_tuple_and_attribute", O("Root", a=c(), t=C("tuple", L("s"), c()))),
        ("object_diamond", O("Root", p=O("NodeB", c=c(), v=L("s")), q=O("NodeC", c=c()))),
        ("object_at_two_depths", O("Root", a=c(), p=O("NodeB", deep=O("NodeC", c=c())))),
        ("object_three_times", O("Root", a=c(), l=C("list", c(), L("s")), d=D(("k", c()), ("n", L("none"))))),
        ("ndarray_twice", O("Root", a=x(arr), b=x(arr), l=C("list", x(arr), L("s")))),
        ("tensor_twice", O("Root", a=x(ten), l=C("list", x(ten), x(ten)), o=O("NodeA", t=x(ten)))),
        ("list_twice", O("Root", a=x(lst), b=x(lst), l=C("list", x(lst), L("s")))),
        ("dict_twice", O("Root", a=x(dct), l=C("list", x(dct), x(dct)))),
        ("set_twice", O("Root", a=x(st), b=x(st))),
        ("path_twice", O("Root", a=x(pth), l=C("list", x(pth), x(pth)), d=D(("k", x(pth))))),
        ("module_twice", O("Root", a=x(L("linear")), l=C("list", x(L("linear")), L("s")))),
    ]
    return [(g, {"aliasing": name}) for name, g in out]


def cycle_graphs():
    """Objects that contain themselves. Not claimed by the property; what the library does is measured."""
    return [
        ("object_is_its_own_attribute", SH("r", O("Root", v=L("i-1"), me=BACK("r")))),
        ("child_points_back_to_parent", SH("r", O("Root", v=L("s"), child=O("NodeA", v=L("i-1"), parent=BACK("r"))))),
        ("child_in_list_points_back_to_root", SH("r", O("Root", v=L("s"), kids=C("list", O("NodeA", parent=BACK("r")), L("s"))))),
        ("list_contains_itself", O("Root", l=SH("l", C("list", L("s"), BACK("l"))))),
        ("dict_contains_itself", O("Root", d=SH("d", D(("k", L("s")), ("me", BACK("d")))))),
    ]


def mode_graphs():
    """Reduced graph set for the global-mode family: every leaf kind, tensor layouts with requires_grad, modules, nesting."""
    return {
        "scalars_and_containers": O(
            "Root", i=L("i2^40"), f=L("f-0.0"), n=L("nan"), s=L("s_unicode"), none=L("none"), b=L("true"), p=L("path_rel"), c=L("complex"),
            by=L("bytes"), nps=L("np_f32"), npc=L("np_c64"), l=C("list", L("i-1"), L("f1.5")), m=C("list", L("s"), L("none"), C("tuple", L("i-1"), L("s"))),
            st=C("set", L("s"), L("i-1")), d=D(("k", L("path_abs")), ("z", C("list"))),
        ),
        "arrays": O("Root", *[(f"a{i}", L(n)) for i, n in enumerate([
            "arr:bool:(3,)", "arr:u8:(2, 3)", "arr:i64:()", "arr:f16:(3,)", "arr:f32:(2, 3)", "arr:f64:(2, 1, 2)", "arr:c64:(3,)", "arr:c128:(0, 3)",
            "arr:U3:(3,)", "arr_struct", "arr_dt64", "av:strided:f64"])]),
        "tensors": O(
            "Root", a=L("t_f32_grad"), b=L("t_f64"), c=L("t_c64"), d=L("t_0d_grad"), e=L("t_param"), f=L("t_bool"), g=L("t_empty"),
            l=C("list", L("t_f32_grad_2x3"), L("s")), dd=D(("k", L("t_i64"))),
        ),
        "tensor_views": O(
            "Root", a=L("tv:row_view:f64:1"), b=L("tv:strided_view:f64:1"), c=L("tv:nonleaf_view:f64:1"), d=L("tv:transposed:f64:1"), e=L("tv:fresh:f64:1"),
            f=L("tv:row_view:c64:1"), g=L("tv:scalar_view:f64:1"), h=L("tv:expanded:f64:0"), l=C("list", L("tv:narrow_1d:f64:1"), L("s")),
            o=O("NodeA", t=L("tv:row_view:f64:1")),
        ),
        "modules": O("Root", m=L("linear"), s=L("sequential"), o=L("optimizer"), sc=L("scheduler"), r=L("rng"), lg=L("logger"), l=C("list", L("linear"), L("rng"))),
        "nested_objects": O("Root", n=L("none"), child=O(
            "NodeA", v=L("true"), arr=L("arr:f64:()"), t=L("t_f32_grad"),
            child=O("NodeB", lst=C("list", O("NodeC", v=L("arr:i16:(3,)")), L("s")), p=L("path_rel")))),
    }


def _container_subclass_graphs():
    """Subclasses of the built-in containers in every leaf position. What must come back is the BASE kind (tuple / list /
    dict / set) with equal elements; whether the subclass itself comes back is counted."""
    out = []
    for n in CONTAINER_SUBCLASSES:
        lf = f"cs:{n}"
        tag = {"kind": "container_subclass", "subclass": n}
        for g in (
            O("Root", x=L(lf)), O("Root", x=C("list", L(lf), L("s"))), O("Root", x=C("tuple", L("i-1"), L(lf))),
            O("Root", x=D(("k", L(lf)), ("n", L("none")))), O("Root", c=O("NodeA", x=L(lf), v=L("s"))),
        ):
            out.append((g, tag))
    return out


def _pair_graphs_quick(reps):
    """Quick tier: unordered pairs (with the diagonal) in lists and dicts, plus the reversed order whenever the
    second member is the numeric representative; unordered distinct hashable pairs in sets; the diagonal in
    tuples (tuples share the list decoder). Thorough: every ordered pair in every container kind."""
    names = list(reps)
    out = []
    for i, a in enumerate(names):
        for j, b in enumerate(names):
            da, db = reps[a], reps[b]
            if i <= j or b == "int":
                out.append(O("Root", x=CK("list", da, db)))
            if i <= j:
                out.append(O("Root", x=CK("dict", da, db)))
            if i == j:
                out.append(O("Root", x=CK("tuple", da, db)))
            if i < j and desc_hashable(da) and desc_hashable(db) and _distinct_in_set(da, db):
                out.append(O("Root", x=CK("set", da, db)))
    return out


def grammar(tier):
    """(items, bounds): items = [{"fam": family, "g": descriptor}], simplest family first. The list is a
    pure function of the tier. The quick tier is a sub-lattice of the thorough one (see the comments)."""
    quick = tier == "quick"
    d = 2 if quick else 3
    w = 2
    seq_len = 2 if quick else 4
    fams = []

    def add(fam, graphs):
        for g in graphs:
            if isinstance(g, tuple):  # (graph, tag): the tag goes into every failure class of that graph
                fams.append({"fam": fam, "g": g[0], "tag": g[1]})
            else:
                fams.append({"fam": fam, "g": g})

    # A. every leaf as the only attribute (both tiers: all 70 dtype x shape pairs)
    add("leaf_as_attribute", [O("Root", x=L(n)) for n in LEAVES])
    # B. every leaf alone inside every container kind; numeric leaves also next to a string (no fast path).
    #    quick: arrays inside containers restricted to all dtypes x {0-d, empty 2-d, 2-d} + all shapes x f64,
    #    in lists (0-d / empty ones in every kind); tuples only for numeric leaves (they share the list decoder)
    arr_in = _arr_container_subset() if quick else None
    singles, with_sib = [], []
    for n, lf in LEAVES.items():
        is_grid_arr = lf.cls == "ndarray" and n.startswith("arr:")
        if is_grid_arr and arr_in is not None and n not in arr_in:
            continue
        for kind in KINDS:
            if kind == "set" and not lf.hashable:
                continue
            if quick and kind == "tuple":  # tuples share the list decoder: thorough tier only
                continue
            if quick and is_grid_arr and kind != "list" and not (n.endswith(":()") or n.endswith(":(0, 3)")):
                continue
            singles.append(O("Root", x=CK(kind, L(n))))
            if lf.numeric and (kind == "list" or not quick):
                with_sib.append(O("Root", x=CK(kind, L(n), L("s"))))
    add("leaf_in_container", singles)
    if not quick:  # quick: covered by the sequence family ([number, "s"] for every numeric letter) and the int x str pair
        add("numeric_leaf_next_to_string", with_sib)
    # C. pairs of dispatch classes as siblings in containers
    if quick:
        reps_q = {k: v for k, v in REPS.items() if k not in ("float", "bool", "np_scalar")}  # numeric x numeric is family F/G
        add("pair_of_dispatch_classes", _pair_graphs_quick(reps_q))
    else:
        add("pair_of_dispatch_classes", _pair_graphs(REPS, KINDS, [None]))
    # D. container kinds nested in container kinds
    add("container_nesting", _nest_graphs(d, lone_wrappers=not quick))
    # E. AutoSerialize objects to depth 3 through attributes and containers
    objs = _object_graphs()
    if quick:  # all 16 combinations of the two upper links with an attribute link below, all lower links below attribute links
        keep = []
        for idx, (l1, l2, l3) in enumerate(itertools.product(("attr", "list", "tuple", "dict"), repeat=3)):
            if l3 == "attr" or (l1 == "attr" and l2 == "attr"):
                keep.append(objs[idx])
        objs = keep + objs[64:]
    add("object_nesting", objs)
    # F. all sequences over a 6-letter alphabet (numeric and mixed), as list and as tuple
    seqs = []
    for n in range(0, seq_len + 1):
        for tup in itertools.product(SEQ_ALPHABET, repeat=n):
            seqs.append(O("Root", l=C("list", *[L(x) for x in tup]), t=C("tuple", *[L(x) for x in tup])))
    add("sequence", seqs)
    # G. numeric corners: pairs (quick: unordered with the diagonal; thorough: ordered), as list and tuple
    ca = CORNER_ALPHABET_QUICK if quick else CORNER_ALPHABET
    add("numeric_corner_pair", [
        O("Root", l=C("list", L(a), L(b)), t=C("tuple", L(a), L(b)))
        for i, a in enumerate(ca) for j, b in enumerate(ca) if (i <= j or not quick)
    ])
    # H. unusual (but allowed) attribute names and dict keys
    names = []
    for nm in NAME_ALPHABET:
        for v in (NAME_VALUES[:2] if quick else NAME_VALUES):
            names.append(O("Root", (nm, L(v))))
            if not quick or v != NAME_VALUES[0]:  # quick: dict keys only with the array value (a key that names a zarr node)
                names.append(O("Root", x=D((nm, L(v)), ("other", L("s")))))
    if not quick:  # quick: subsumed by the key-spelling family below
        add("names", names)
    # J. memory layouts of tensors and arrays; K. spellings of dict keys and attribute names
    add("aliasing", _aliasing_graphs())
    add("container_subclass", _container_subclass_graphs())
    add("layout", _layout_graphs(quick))
    add("key_spelling", _key_graphs(quick))
    # I. wide containers (slot names with 1, 2 and 3 digits)
    add("wide_container", _width_graphs(quick))
    if not quick:
        allreps = dict(REPS, **CORNER_REPS)
        # pairs one level deeper: inside list / tuple / dict / a nested object
        add("pair_wrapped", _pair_graphs(REPS, KINDS, ["list", "tuple", "dict", "object"]))
        # pairs involving the encoding corners
        corner_pairs = [g for g in _pair_graphs(allreps, KINDS, [None])]
        seen = {repr(i["g"]) for i in fams}
        add("pair_with_encoding_corner", [g for g in corner_pairs if repr(g) not in seen])
    items, seen, excluded = [], set(), 0
    for it in fams:
        if excluded_by_quantifier(it["g"]):
            excluded += 1
            continue
        k = repr(it["g"])
        if k in seen:
            continue
        seen.add(k)
        items.append(it)
    bounds = {
        "depth_d": d, "width_w": w, "wide_container_widths": list(WIDTHS), "sequence_length_max": seq_len, "leaves": len(LEAVES),
        "dispatch_representatives": (len(REPS) - 3 if quick else len(REPS) + len(CORNER_REPS)),
        "graphs": len(items), "graphs_excluded_by_quantifier": excluded,
        "max_descriptor_depth": max(depth(i["g"]) for i in items),
    }
    return items, bounds


# ============================================================================= 4. equality relation
NUMERIC = (bool, int, float, np.integer, np.floating, np.bool_)


def _is_num(v):
    return isinstance(v, NUMERIC)


def _py(v):
    return v.item() if isinstance(v, np.generic) else v


def _num_eq(a, b):
    """Equality of numeric value, exact (Python compares int and float exactly), NaN equals NaN."""
    a, b = _py(a), _py(b)
    if isinstance(a, complex) or isinstance(b, complex):
        a, b = complex(a), complex(b)
        return _num_eq(a.real, b.real) and _num_eq(a.imag, b.imag)
    if isinstance(a, float) and a != a:
        return isinstance(b, float) and b != b
    if isinstance(b, float) and b != b:
        return False
    return a == b


def short(v, n=90):
    try:
        if isinstance(v, np.ndarray):
            s = f"ndarray(dtype={v.dtype}, shape={v.shape}, {np.array2string(v.reshape(-1)[:6], threshold=6)})"
        elif isinstance(v, torch.Tensor):
            s = f"{type(v).__name__}(dtype={v.dtype}, shape={tuple(v.shape)}, requires_grad={v.requires_grad})"
        elif isinstance(v, AutoSerialize):
            s = f"{type(v).__name__}(attrs={sorted(vars(v))})"
        else:
            s = f"{type(v).__name__} {v!r}"
    except Exception:  # pragma: no cover
        s = f"<{type(v).__name__}>"
    s = s.replace("\n", " ")
    return s if len(s) <= n else s[: n - 3] + "..."


def classify(v):
    """Kind of a node of the *expected* graph, used in failure classes."""
    if isinstance(v, AutoSerialize):
        return "object"
    if isinstance(v, torch.Tensor):
        return "tensor"
    if isinstance(v, torch.optim.Optimizer):
        return "optimizer"
    if isinstance(v, torch.optim.lr_scheduler.LRScheduler):
        return "scheduler"
    if isinstance(v, torch.nn.Module):
        return "module"
    if isinstance(v, logging.Logger):
        return "logger"
    if isinstance(v, (np.random.Generator, torch.Generator)):
        return "rng"
    if isinstance(v, np.ndarray):
        if v.ndim == 0:
            return "ndarray:0d"
        if v.size == 0:
            return "ndarray:empty"
        return "ndarray"
    if isinstance(v, np.complexfloating):
        return "np_complex_scalar"
    if isinstance(v, np.generic):
        return "np_scalar"
    if isinstance(v, bool):
        return "bool"
    if isinstance(v, int):
        return "int"
    if isinstance(v, float):
        return "float"
    if isinstance(v, str):
        return "str"
    if v is None:
        return "none"
    if isinstance(v, PurePath):
        return "path"
    if isinstance(v, (list, tuple, dict, set)):
        return type(v).__name__
    return "dill_fallback"  # complex, bytes, frozenset, range, slice, ...: whatever has no branch of its own


class _Out(list):
    def __init__(self, limit):
        super().__init__()
        self.limit = limit
        self.seen = set()  # (id(expected), id(observed)) of composite nodes already under comparison: cycles and shared sub-graphs

    def add(self, path, pos, what, exp, got, kind, **extra):
        if len(self) < self.limit:
            rec = {"path": path, "position": pos, "what": what, "expected": exp, "observed": got, "kind": kind}
            rec.update(extra)
            self.append(rec)

    @property
    def full(self):
        return len(self) >= self.limit


def _arr_bytes_equal(a, b):
    if a.tobytes() == b.tobytes():
        return True
    if a.dtype.kind in "fc":
        if not np.array_equal(a, b, equal_nan=True):
            return False
        if not np.array_equal(np.signbit(a.real), np.signbit(b.real)):
            return False
        if a.dtype.kind == "c" and not np.array_equal(np.signbit(a.imag), np.signbit(b.imag)):
            return False
        return True
    return False


def _first_arr_diff(a, b):
    fa, fb = a.reshape(-1), b.reshape(-1)
    for i in range(fa.size):
        x, y = fa[i : i + 1], fb[i : i + 1]
        if not _arr_bytes_equal(x, y):
            return f"first difference at flat index {i}: expected {x[0]!r}, observed {y[0]!r}"
    return "contents differ"


def _tensor_np(t):
    t = t.detach().cpu().resolve_conj().resolve_neg()
    if t.dtype == torch.bfloat16:
        t = t.float()
    return t.contiguous().numpy()


def _cmp(e, g, path, pos, slack, out):
    if out.full:
        return
    if isinstance(e, (AutoSerialize, list, dict, set)) and not isinstance(e, torch.nn.Module):
        key = (id(e), id(g))
        if key in out.seen:
            return  # this very pair is already being compared further up (or was compared): coinductively equal
        out.seen.add(key)
    kind = classify(e)
    # ---- AutoSerialize objects: same class, identical attribute-name set, equal values
    if isinstance(e, AutoSerialize):
        if type(g) is not type(e):
            out.add(path, pos, "class", type(e).__name__, short(g), kind)
            return
        ne, ng = set(vars(e)), set(vars(g))
        if ne != ng:
            out.add(path, pos, "attr_set", sorted(ne), sorted(ng), kind, missing=sorted(ne - ng), extra=sorted(ng - ne))
        for n in sorted(ne & ng):
            _cmp(vars(e)[n], vars(g)[n], f"{path}.{n}", "attribute", slack, out)
        return
    # ---- tensors
    if isinstance(e, torch.Tensor):
        if type(g) is not type(e):
            out.add(path, pos, "type", short(e), short(g), kind)
            return
        if g.dtype != e.dtype:
            out.add(path, pos, "dtype", str(e.dtype), str(g.dtype), kind)
            return
        if tuple(g.shape) != tuple(e.shape):
            out.add(path, pos, "shape", list(e.shape), list(g.shape), kind)
            return
        if bool(g.requires_grad) != bool(e.requires_grad):
            out.add(path, pos, "requires_grad", bool(e.requires_grad), bool(g.requires_grad), kind)
        a, b = _tensor_np(e), _tensor_np(g)
        if not _arr_bytes_equal(a, b):
            out.add(path, pos, "values", short(a), short(b) + " " + _first_arr_diff(a, b), kind)
        return
    # ---- optimizer / scheduler: class + state_dict
    if isinstance(e, (torch.optim.Optimizer, torch.optim.lr_scheduler.LRScheduler)):
        if type(g) is not type(e):
            out.add(path, pos, "type", short(e), short(g), kind)
            return
        _cmp(e.state_dict(), g.state_dict(), path + ".state_dict()", pos, False, out)
        return
    # ---- modules: class + state_dict + requires_grad of parameters
    if isinstance(e, torch.nn.Module):
        if type(g) is not type(e):
            out.add(path, pos, "type", short(e), short(g), kind)
            return
        se, sg = e.state_dict(), g.state_dict()
        if list(se) != list(sg):
            out.add(path, pos, "state_dict_keys", list(se), list(sg), kind)
            return
        for k in se:
            _cmp(se[k], sg[k], f"{path}.state_dict()[{k!r}]", pos, False, out)
        re_ = [(n, p.requires_grad) for n, p in e.named_parameters()]
        rg = [(n, p.requires_grad) for n, p in g.named_parameters()]
        if re_ != rg:
            out.add(path, pos, "requires_grad", re_, rg, kind)
        return
    # ---- same kind only
    if isinstance(e, logging.Logger):
        if not isinstance(g, logging.Logger):
            out.add(path, pos, "kind", "logging.Logger", short(g), kind)
        return
    if isinstance(e, np.random.Generator):
        if not isinstance(g, np.random.Generator):
            out.add(path, pos, "kind", "numpy.random.Generator", short(g), kind)
        return
    if isinstance(e, torch.Generator):
        if not isinstance(g, torch.Generator):
            out.add(path, pos, "kind", "torch.Generator", short(g), kind)
        return
    # ---- ndarrays: dtype, shape, bytes (NaN-aware)
    if isinstance(e, np.ndarray):
        if type(g) is not type(e):
            out.add(path, pos, "type", short(e), short(g), kind)
            return
        if g.dtype != e.dtype:
            out.add(path, pos, "dtype", str(e.dtype), str(g.dtype), kind)
            return
        if g.shape != e.shape:
            out.add(path, pos, "shape", list(e.shape), list(g.shape), kind)
            return
        if not _arr_bytes_equal(np.ascontiguousarray(e), np.ascontiguousarray(g)):
            out.add(path, pos, "values", short(e), short(g) + " " + _first_arr_diff(np.ascontiguousarray(e), np.ascontiguousarray(g)), kind)
        return
    # ---- list / tuple
    if isinstance(e, (list, tuple)):
        base = list if isinstance(e, list) else tuple
        if type(g) is not type(e) and not (slack and type(g) is base):  # a subclass may come back as its base kind
            out.add(path, pos, "container_kind", type(e).__name__, short(g), kind)
            return
        if len(g) != len(e):
            out.add(path, pos, "length", len(e), f"{len(g)}: {short(g, 70)}", kind)
            return
        if slack and len(e) > 0 and all(_is_num(x) for x in e):
            # all-numeric sequence: compared by numeric value
            for i, (x, y) in enumerate(zip(e, g)):
                if not _is_num(y):
                    out.add(f"{path}[{i}]", "container", "type", short(x), short(y), "numeric_sequence")
                elif not _num_eq(x, y):
                    extra = {}
                    if isinstance(_py(x), int) and not isinstance(_py(x), bool) and abs(_py(x)) > 2**53 and isinstance(_py(y), float):
                        extra["detail"] = "int beyond 2^53 came back as a rounded float"
                    out.add(f"{path}[{i}]", "container", "numeric_value", short(x), short(y), "numeric_sequence", **extra)
            return
        for i, (x, y) in enumerate(zip(e, g)):
            _cmp(x, y, f"{path}[{i}]", "container", slack, out)
        return
    # ---- set / frozenset: same kind, same size, a perfect matching of equal elements
    if isinstance(e, (set, frozenset)):
        if type(g) is not type(e) and not (slack and type(g) in (set, frozenset) and type(e) not in (set,)):
            out.add(path, pos, "container_kind", type(e).__name__, short(g), kind)
            return
        if len(g) != len(e):
            out.add(path, pos, "length", len(e), f"{len(g)}: {short(g, 70)}", kind)
            return
        numeric = slack and len(e) > 0 and all(_is_num(x) for x in e)
        rest = list(g)
        for x in sorted(e, key=lambda v: (type(v).__name__, repr(v))):
            hit = None
            for j, y in enumerate(rest):
                if numeric:
                    ok = _is_num(y) and _num_eq(x, y)
                else:
                    o2 = _Out(1)
                    _cmp(x, y, path, "container", slack, o2)
                    ok = not o2
                if ok:
                    hit = j
                    break
            if hit is None:
                out.add(path + "{…}", "container", "element_missing", short(x), short(g), classify(x))
            else:
                rest.pop(hit)
        return
    # ---- dict
    if isinstance(e, dict):
        if type(g) is not type(e) and not (slack and type(g) is dict):
            out.add(path, pos, "container_kind", type(e).__name__, short(g), kind)
            return
        ke, kg = set(e), set(g)
        if ke != kg:
            out.add(path, pos, "key_set", sorted(map(repr, ke)), sorted(map(repr, kg)), kind, missing=sorted(map(str, ke - kg)), extra=sorted(map(str, kg - ke)))
        for k in sorted(ke & kg, key=repr):
            _cmp(e[k], g[k], f"{path}[{k!r}]", "container", slack, out)
        return
    # ---- NumPy scalars: numeric value (slack) or exact type (no slack)
    if isinstance(e, np.generic) and isinstance(e, (np.number, np.bool_)):
        if slack:
            okt = isinstance(g, (bool, int, float, complex, np.number, np.bool_))
            if not okt:
                out.add(path, pos, "type", short(e), short(g), kind)
            elif not _num_eq(e, g):
                out.add(path, pos, "numeric_value", short(e), short(g), kind)
        else:
            if type(g) is not type(e):
                out.add(path, pos, "type", short(e), short(g), kind)
            elif not _num_eq(e, g):
                out.add(path, pos, "value", short(e), short(g), kind)
        return
    # ---- Python scalars and everything else: same type, same value
    if type(g) is not type(e):
        out.add(path, pos, "type", short(e), short(g), kind)
        return
    if isinstance(e, (float, complex)):
        same = _num_eq(e, g)
        if same and isinstance(e, float) and e == 0.0:
            same = math.copysign(1.0, e) == math.copysign(1.0, g)
        if not same:
            out.add(path, pos, "value", short(e), short(g), kind)
        return
    try:
        same = bool(e == g)
    except Exception:
        same = repr(e) == repr(g)
    if not same:
        out.add(path, pos, "value", short(e), short(g), kind)


def diff(expected, observed, slack=True, root="x", limit=6):
    """Difference records between two object graphs (empty list = structurally equal).

    slack=True : NumPy scalars and all-numeric sequences/sets are compared by numeric value (what the
                 property allows between an input graph and what load returns).
    slack=False: exact types everywhere (used between two loaded graphs: zip vs dir, fixed point)."""
    out = _Out(limit)
    _cmp(expected, observed, root, "root", slack, out)
    return list(out)


def fmt(recs, n=4):
    if not recs:
        return "equal"
    parts = []
    for r in recs[:n]:
        s = f"at {r['path']}: {r['what']}: expected {r['expected']!r}, observed {r['observed']!r}"
        if r.get("extra") or r.get("missing"):
            s += f" (extra {r.get('extra')}, missing {r.get('missing')})"
        if r.get("detail"):
            s += f" [{r['detail']}]"
        parts.append(s)
    if len(recs) > n:
        parts.append(f"... {len(recs) - n} more")
    return "; ".join(parts)


def cls_of(rec, **more):
    """Failure-class descriptor of one difference record: what differs, on which kind of node, where. The names
    involved stay in the message, except leaked reserved metadata names (they identify a defect by themselves)."""
    c = {"what": rec["what"], "kind": rec["kind"], "position": rec["position"]}
    extra, missing = rec.get("extra") or [], rec.get("missing") or []
    if extra or missing:
        c["direction"] = "extra" if extra and not missing else "missing" if missing and not extra else "both"
        leaked = sorted(n for n in extra if isinstance(n, str) and not name_allowed(n))
        if leaked:
            c["reserved_names_leaked"] = leaked
    if rec.get("detail"):
        c["detail"] = rec["detail"]
    c.update(more)
    return c


def walk_paths(obj, limit=2000):
    """[(steps, value)] for every node reachable through attributes / indices / keys, each object visited once per path
    but never descending twice into the same object (cycles)."""
    out, stack = [], [((), obj)]
    inside = set()
    while stack and len(out) < limit:
        steps, v = stack.pop()
        out.append((steps, v))
        if isinstance(v, torch.nn.Module):
            continue
        if isinstance(v, (AutoSerialize, list, tuple, dict)):
            if id(v) in inside:
                continue
            inside.add(id(v))
            if isinstance(v, AutoSerialize):
                it = [(("a", k), x) for k, x in sorted(vars(v).items())]
            elif isinstance(v, dict):
                it = [(("k", k), x) for k, x in v.items()]
            else:
                it = [(("i", i), x) for i, x in enumerate(v)]
            for st, x in it:
                stack.append((steps + (st,), x))
    return out


def _resolve_steps(obj, steps):
    cur = obj
    for kind, k in steps:
        cur = vars(cur)[k] if kind == "a" else cur[k]
    return cur


def alias_account(expected, loaded):
    """(groups, preserved): groups of >= 2 paths that are ONE object in the expected graph, and how many of those
    groups are still one object in the loaded graph. Identity is not claimed by the property: this is a count."""
    by_id = {}
    for steps, v in walk_paths(expected):
        if steps and isinstance(v, (AutoSerialize, list, dict, set, tuple, np.ndarray, torch.Tensor, PurePath)) and not (isinstance(v, tuple) and not v):
            by_id.setdefault(id(v), []).append(steps)
    groups = [p for p in by_id.values() if len(p) >= 2]
    preserved = 0
    for paths in groups:
        try:
            objs = [_resolve_steps(loaded, st) for st in paths]
        except Exception:
            continue
        preserved += int(all(o is objs[0] for o in objs))
    return len(groups), preserved


def _h(b):
    import hashlib

    return hashlib.blake2b(b, digest_size=6).hexdigest()


_SUMMARY_STACK = []


def summary(v):
    """JSON-able canonical description of a graph (types, shapes, digests of contents)."""
    if isinstance(v, (AutoSerialize, list, dict)):
        if any(v is x for x in _SUMMARY_STACK):
            return "<cycle>"
        _SUMMARY_STACK.append(v)
        try:
            return _summary(v)
        finally:
            _SUMMARY_STACK.pop()
    return _summary(v)


def _summary(v):
    if isinstance(v, AutoSerialize):
        return {"O": type(v).__name__, "attrs": {k: summary(x) for k, x in sorted(vars(v).items())}}
    if isinstance(v, torch.Tensor):
        return f"{type(v).__name__}:{v.dtype}:{tuple(v.shape)}:{v.requires_grad}:{_h(_tensor_np(v).tobytes())}"
    if isinstance(v, (torch.optim.Optimizer, torch.optim.lr_scheduler.LRScheduler)):
        return {type(v).__name__: summary(v.state_dict())}
    if isinstance(v, torch.nn.Module):
        return {type(v).__name__: {k: summary(x) for k, x in v.state_dict().items()}}
    if isinstance(v, logging.Logger):
        return "logger"
    if isinstance(v, (np.random.Generator, torch.Generator)):
        return "rng"
    if isinstance(v, np.ndarray):
        return f"nd:{v.dtype}:{v.shape}:{_h(np.ascontiguousarray(v).tobytes())}"
    if isinstance(v, (list, tuple)):
        return [type(v).__name__] + [summary(x) for x in v]
    if isinstance(v, (set, frozenset)):
        return [type(v).__name__] + sorted((summary(x) for x in v), key=repr)
    if isinstance(v, dict):
        return {"dict": {str(k): summary(x) for k, x in sorted(v.items(), key=lambda kv: repr(kv[0]))}}
    return f"{type(v).__name__}:{v!r}"


# ============================================================================= executing save / load
@contextlib.contextmanager
def quiet():
    with contextlib.redirect_stdout(io.StringIO()), warnings.catch_warnings():
        warnings.simplefilter("ignore")
        yield


def target(workdir, store, name="o", path_kind="str"):
    p = os.path.join(workdir, name + (".zip" if store == "zip" else ""))
    return Path(p) if path_kind == "Path" else p


def save_load(obj, workdir, store, name="o", path_kind="str", save_kw=None, load_kw=None):
    """('ok', loaded) | ('save_raises', exc) | ('load_raises', exc). Only `Exception`s are verdict material."""
    p = target(workdir, store, name, path_kind)
    try:
        with quiet():
            obj.save(p, store=store, **(save_kw or {}))
    except Exception as e:
        return "save_raises", e
    try:
        with quiet():
            y = q_load(p, **(load_kw or {}))
    except Exception as e:
        return "load_raises", e
    return "ok", y


# ============================================================================= global modes
GLOBAL_MODES = [
    "no_grad", "set_grad_enabled_false", "inference_mode", "default_dtype_float64", "warnings_as_errors", "np_errstate_raise",
    "cwd_relative_target", "private_tmpdir",
]


@contextlib.contextmanager
def global_mode(mode, workdir):
    """Process-wide state that a save / load may run under; restored on exit. `default` is a no-op."""
    import tempfile

    if mode == "default":
        yield
    elif mode == "no_grad":
        with torch.no_grad():
            yield
    elif mode == "set_grad_enabled_false":
        prev = torch.is_grad_enabled()
        torch.set_grad_enabled(False)
        try:
            yield
        finally:
            torch.set_grad_enabled(prev)
    elif mode == "inference_mode":
        with torch.inference_mode():
            yield
    elif mode == "default_dtype_float64":
        prev = torch.get_default_dtype()
        torch.set_default_dtype(torch.float64)
        try:
            yield
        finally:
            torch.set_default_dtype(prev)
    elif mode == "warnings_as_errors":
        with warnings.catch_warnings():
            warnings.simplefilter("error")
            yield
    elif mode == "np_errstate_raise":
        with np.errstate(all="raise"):
            yield
    elif mode == "cwd_relative_target":
        prev = os.getcwd()
        os.chdir(workdir)
        try:
            yield
        finally:
            os.chdir(prev)
    elif mode == "private_tmpdir":
        priv = os.path.join(workdir, "private-tmp")
        os.makedirs(priv, exist_ok=True)
        prev_env, prev_td = os.environ.get("TMPDIR"), tempfile.tempdir
        os.environ["TMPDIR"] = priv
        tempfile.tempdir = None
        try:
            yield
        finally:
            if prev_env is None:
                os.environ.pop("TMPDIR", None)
            else:
                os.environ["TMPDIR"] = prev_env
            tempfile.tempdir = prev_td
    else:
        raise ValueError(mode)


def save_load_under(obj, workdir, store, save_mode="default", load_mode="default", name="o"):
    """Like save_load, the save running under one global mode and the load under another. Warnings are left alone
    (only stdout is silenced) so that `warnings_as_errors` means what it says; other modes ignore warnings."""
    rel = "cwd_relative_target" in (save_mode, load_mode)
    p = (name + (".zip" if store == "zip" else "")) if rel else target(workdir, store, name)

    @contextlib.contextmanager
    def hush(mode):
        with contextlib.redirect_stdout(io.StringIO()), warnings.catch_warnings():
            if mode != "warnings_as_errors":
                warnings.simplefilter("ignore")
                yield
            else:  # a finalizer that warns cannot raise: the interpreter prints 'Exception ignored' to stderr instead
                with contextlib.redirect_stderr(io.StringIO()):
                    yield

    ps = p if save_mode == "cwd_relative_target" or not rel else os.path.join(workdir, p)
    pl = p if load_mode == "cwd_relative_target" or not rel else os.path.join(workdir, p)
    try:
        with hush(save_mode), global_mode(save_mode, workdir):
            obj.save(ps, store=store)
    except Exception as e:
        return "save_raises", e
    try:
        with hush(load_mode), global_mode(load_mode, workdir):
            y = q_load(pl)
    except Exception as e:
        return "load_raises", e
    return "ok", y


class Workdir:
    """Unique sub-directory of the scratch directory per case, removed afterwards (exact path)."""

    _n = 0

    def __init__(self, scratch, tag):
        Workdir._n += 1
        self.path = os.path.join(scratch, tag, f"p{os.getpid()}-{Workdir._n}")

    def __enter__(self):
        os.makedirs(self.path, exist_ok=False)
        return self.path

    def __exit__(self, *a):
        shutil.rmtree(self.path, ignore_errors=True)
        return False


def parse_shape(s):  # pragma: no cover - convenience for interactive use
    return ast.literal_eval(s)


# ============================================================================= 5. values of one graph that share memory
# (appended for C01's MEMORY-ALIASING family.) Two DISTINCT Python values of one graph that view the same memory: a
# trainable tensor and its .detach() / .data, an nn.Parameter and its .data, same-geometry views (view_as, [:]), views of
# another shape / stride / offset / dtype, an ndarray and torch.from_numpy of it, an ndarray and its views. Every member is
# an ordinary, separately supported value; what is enumerated is every ORDERED PAIR of members of one base, so that
# anything the serializer remembers about the first one (by memory address, by storage, by geometry) meets a second value
# that agrees with the first in exactly that respect and differs in another (requires_grad, Parameter-vs-Tensor, shape,
# stride, offset, dtype, ndarray-vs-tensor).
# Bases are 3x3 so that the transposed view differs from the base in stride ONLY; rows01 / rows12 differ in offset ONLY.
MEM_BASES = {
    "tensor_requires_grad": ["self", "detach", "data", "view_as", "slice_all", "flat", "transposed", "rows01", "rows12", "bitcast_i32", "numpy"],
    "parameter": ["self", "data", "detach", "view_as", "flat", "transposed"],
    "parameter_frozen": ["self", "data", "view_as", "flat"],
    "tensor_plain": ["self", "detach", "parameter_of", "requires_grad_alias", "flat", "numpy"],
    "ndarray": ["self", "view", "slice_all", "transposed", "flat", "rows01", "rows12", "view_i64", "from_numpy", "from_numpy_requires_grad"],
}
MEM_PLACEMENTS = ["two_attributes", "list", "tuple", "dict", "attribute_and_nested_object"]


def _mem_base(base, seed):
    s = int(seed)
    if base == "tensor_requires_grad":
        return torch.from_numpy(make_array("f32", (3, 3), s + 31).copy()).requires_grad_(True)
    if base == "parameter":
        return torch.nn.Parameter(torch.from_numpy(make_array("f32", (3, 3), s + 32).copy()))
    if base == "parameter_frozen":
        return torch.nn.Parameter(torch.from_numpy(make_array("f32", (3, 3), s + 33).copy()), requires_grad=False)
    if base == "tensor_plain":
        return torch.from_numpy(make_array("f64", (3, 3), s + 34).copy())
    if base == "ndarray":
        return make_array("f64", (3, 3), s + 35).copy()
    raise ValueError(base)


def _mem_derive(w, member):
    """A value that shares memory with the base value `w` (a new Python object on every call, except `self`)."""
    if member == "self":
        return w
    if isinstance(w, np.ndarray):
        if member == "view":
            return w.view()
        if member == "slice_all":
            return w[:]
        if member == "transposed":
            return w.T
        if member == "flat":
            return w.reshape(-1)
        if member == "rows01":
            return w[0:2]
        if member == "rows12":
            return w[1:3]
        if member == "view_i64":
            return w.view(np.int64)
        if member == "from_numpy":
            return torch.from_numpy(w)
        if member == "from_numpy_requires_grad":
            return torch.from_numpy(w).requires_grad_(True)
        raise ValueError(member)
    if member == "detach":
        return w.detach()
    if member == "data":
        return w.data
    if member == "view_as":
        return w.view_as(w)
    if member == "slice_all":
        return w[:]
    if member == "flat":
        return w.view(-1)
    if member == "transposed":
        return w.t()
    if member == "rows01":
        return w[0:2]
    if member == "rows12":
        return w[1:3]
    if member == "bitcast_i32":
        return w.detach().view(torch.int32)
    if member == "numpy":
        return w.detach().numpy()
    if member == "parameter_of":
        return torch.nn.Parameter(w)
    if member == "requires_grad_alias":
        return w.detach().requires_grad_(True)
    raise ValueError(member)


def mem_pairs():
    """[(base, first, second)]: every ordered pair (with the diagonal: two separately derived values of one kind)."""
    return [(b, x, y) for b, ms in MEM_BASES.items() for x in ms for y in ms]


def mem_build(base, first, second, placement, seed):
    """Root holding the two values `first`, `second` derived from ONE fresh base, `first` stored / inserted first."""
    w = _mem_base(base, seed)
    x, y = _mem_derive(w, first), _mem_derive(w, second)
    r = Root()
    if placement == "two_attributes":
        r.a = x
        r.b = y
    elif placement == "list":
        r.l = [x, y]
    elif placement == "tuple":
        r.tp = (x, y)
    elif placement == "dict":
        r.d = {"k0": x, "k1": y}
    elif placement == "attribute_and_nested_object":
        r.a = x
        c = NodeA()
        c.t = y
        c.v = -1
        r.c = c
    else:
        raise ValueError(placement)
    return r


def mem_pair_of(root, placement):
    """The two values of a graph built by mem_build (or of what load returned for it); None if the shape is gone."""
    try:
        if placement == "two_attributes":
            return root.a, root.b
        if placement == "list":
            return root.l[0], root.l[1]
        if placement == "tuple":
            return root.tp[0], root.tp[1]
        if placement == "dict":
            return root.d["k0"], root.d["k1"]
        return root.a, root.c.t
    except Exception:
        return None


def mem_shares(x, y):
    """Do two tensors / arrays overlap in memory? (A count for the evidence; never a verdict.)"""
    def as_np(v):
        if isinstance(v, torch.Tensor):
            return v.detach().cpu().numpy() if v.device.type == "cpu" else None
        return v if isinstance(v, np.ndarray) else None

    a, b = as_np(x), as_np(y)
    if a is None or b is None:
        return False
    try:
        return bool(np.shares_memory(a, b))
    except Exception:
        return bool(np.may_share_memory(a, b))


def mem_show(base, first, second, placement):
    w = {"tensor_requires_grad": "w = tensor(f32 3x3, requires_grad=True)", "parameter": "w = nn.Parameter(f32 3x3)", "parameter_frozen": "w = nn.Parameter(f32 3x3, requires_grad=False)",
         "tensor_plain": "w = tensor(f64 3x3)", "ndarray": "w = ndarray(f64 3x3)"}[base]
    expr = {"self": "w", "detach": "w.detach()", "data": "w.data", "view_as": "w.view_as(w)", "slice_all": "w[:]", "flat": "w.view(-1)" if base != "ndarray" else "w.reshape(-1)",
            "transposed": "w.t()" if base != "ndarray" else "w.T", "rows01": "w[0:2]", "rows12": "w[1:3]", "bitcast_i32": "w.detach().view(torch.int32)", "numpy": "w.detach().numpy()",
            "parameter_of": "nn.Parameter(w)", "requires_grad_alias": "w.detach().requires_grad_(True)", "view": "w.view()", "view_i64": "w.view(np.int64)",
            "from_numpy": "torch.from_numpy(w)", "from_numpy_requires_grad": "torch.from_numpy(w).requires_grad_(True)"}
    x, y = expr[first], expr[second]
    g = {"two_attributes": f"Root(a={x}, b={y})", "list": f"Root(l=[{x}, {y}])", "tuple": f"Root(tp=({x}, {y}))", "dict": f"Root(d={{'k0': {x}, 'k1': {y}}})",
         "attribute_and_nested_object": f"Root(a={x}, c=NodeA(t={y}, v=-1))"}[placement]
    return f"{w}; {g}"


# ============================================================================= round 7 (C14): instance relations that are not nominal inheritance
# Types for skip-by-type lists whose `isinstance` relation does not follow the MRO: an ABC with register()ed virtual
# subclasses, an ABC with __subclasshook__, a runtime-checkable Protocol, a metaclass with __instancecheck__. Module
# level, so that load() can import them by the qualified name recorded in the file.
import abc as _abc
import typing as _typing


class RegisteredKind(_abc.ABC):
    """Virtual subclasses through register(): a builtin, an extension type and an AutoSerialize test class."""


RegisteredKind.register(str)
RegisteredKind.register(np.ndarray)
RegisteredKind.register(Inner)


class RegisteredTensorKind(_abc.ABC):
    """register(torch.Tensor): nn.Parameter and registered buffers are instances through a virtual base."""


RegisteredTensorKind.register(torch.Tensor)


class HasShapeHook(_abc.ABC):
    """__subclasshook__: every class that defines `shape` somewhere in its MRO (ndarray, NumPy scalars, tensors)."""

    @classmethod
    def __subclasshook__(cls, C):
        if cls is HasShapeHook:
            return True if any("shape" in vars(B) for B in C.__mro__) else NotImplemented
        return NotImplemented


@_typing.runtime_checkable
class HasItemsProtocol(_typing.Protocol):
    """Structural: anything with items() and keys() (dict and its subclasses)."""

    def items(self): ...

    def keys(self): ...


class _InstanceCheckByClassName(type):
    def __instancecheck__(cls, v):
        return type(v).__name__ in ("float", "float32", "complex128", "Parameter", "PosixPath", "Mid")


class NamedInstanceCheck(metaclass=_InstanceCheckByClassName):
    """__instancecheck__ on the metaclass: no class is a subclass of it, yet values are instances."""


class PlainLeafNode(AutoSerialize):
    """Innermost node of C14's instance-relation graph (nothing set by __new__); a virtual subclass of RegisteredKind."""


RegisteredKind.register(PlainLeafNode)
CLASSES["PlainLeafNode"] = PlainLeafNode


# ============================================================================= round 7 (C01): class identity of same-named classes
# "yields an object of the same class": classes that share __name__ / __qualname__ but live in different modules (one of them
# a subclass of its namesake), a class nested inside another class (qualname 'Outer.Params') next to the module-level 'Params',
# names that are proper prefixes of one another, and a namesake of a class every other family loads (NodeA). The oracle
# compares class OBJECTS (`type(loaded) is type(original)`) at every AutoSerialize node, then the ordinary value equality.
from checks import _serial_twins_a as _twa  # noqa: E402
from checks import _serial_twins_b as _twb  # noqa: E402
from checks import _serial_twins_c as _twc  # noqa: E402

TWIN_CLASSES = {
    "a.Params": _twa.Params, "b.Params": _twb.Params, "c.Params(a.Params)": _twc.Params,
    "a.Params2": _twa.Params2, "b.Params2": _twb.Params2, "a.Param": _twa.Param,
    "a.Outer.Params": _twa.Outer.Params, "b.Outer.Params": _twb.Outer.Params,
    "a.NodeA": _twa.NodeA, "s.NodeA": NodeA,
}
TWIN_PLACEMENTS = ["two_attributes", "list", "tuple", "dict", "first_is_root_second_nested", "attribute_and_list_of_nested_object"]
TWIN_SESSIONS = ["root_then_root", "root_then_nested", "nested_then_root"]
TWIN_ORDERS = ["save_load_save_load", "save_save_load_load", "save_save_load_second_first"]


def twin_fullname(cls):
    return f"{cls.__module__}.{cls.__qualname__}"


def twin_is_inner(member):
    return "." in TWIN_CLASSES[member].__qualname__


def twin_obj(member, seed, k):
    """An instance of the member class with three attributes (ndarray, int, str) that depend on the position k."""
    o = TWIN_CLASSES[member]()
    o.v = make_array("i16", (3,), seed + 11 * k + 1)
    o.n = k
    o.s = "twin" + "λ" * k
    return o


def twin_graph(first, second, placement, seed):
    x, y = twin_obj(first, seed, 1), twin_obj(second, seed, 2)
    if placement == "first_is_root_second_nested":
        x.child = y
        return x
    r = Root()
    r.a = make_array("f64", (2, 3), seed)
    if placement == "two_attributes":
        r.first, r.second = x, y
    elif placement == "list":
        r.l = [x, "s", y]
    elif placement == "tuple":
        r.l = (x, y)
    elif placement == "dict":
        r.d = {"first": x, "second": y, "k": -1}
    elif placement == "attribute_and_list_of_nested_object":
        r.first = x
        r.c = NodeB()
        r.c.l = [y]
    else:
        raise ValueError(placement)
    return r


def twin_session_graph(member, role, seed, k):
    o = twin_obj(member, seed, k)
    if role == "root":
        return o
    r = Root()
    r.c = o
    r.n = k
    return r


def twin_show(first, second, placement):
    x, y = (f"<{m}>(v=i16[3], n, s)" for m in (first, second))
    return {"two_attributes": f"Root(a, first={x}, second={y})", "list": f"Root(a, l=[{x}, 's', {y}])", "tuple": f"Root(a, l=({x}, {y}))",
            "dict": f"Root(a, d={{'first': {x}, 'second': {y}, 'k': -1}})", "first_is_root_second_nested": f"<{first}>(v, n, s, child={y})",
            "attribute_and_list_of_nested_object": f"Root(a, first={x}, c=NodeB(l=[{y}]))"}[placement]


def class_identity_diff(expected, observed, path="x", out=None, seen=None):
    """[{path, expected, observed}] for every AutoSerialize node of `expected` whose counterpart is not of the very same
    class object (module and qualified name included in the record)."""
    if out is None:
        out, seen = [], set()
    if id(expected) in seen or len(out) >= 6:
        return out
    if isinstance(expected, AutoSerialize):
        seen.add(id(expected))
        if type(observed) is not type(expected):
            out.append({"path": path, "expected": twin_fullname(type(expected)), "observed": twin_fullname(type(observed))})
            return out
        for n in sorted(vars(expected)):
            if n in vars(observed):
                class_identity_diff(vars(expected)[n], vars(observed)[n], f"{path}.{n}", out, seen)
    elif isinstance(expected, (list, tuple)) and isinstance(observed, (list, tuple)):
        seen.add(id(expected))
        for i, (e, g) in enumerate(zip(expected, observed)):
            class_identity_diff(e, g, f"{path}[{i}]", out, seen)
    elif isinstance(expected, dict) and isinstance(observed, dict):
        seen.add(id(expected))
        for k in sorted(expected, key=repr):
            if k in observed:
                class_identity_diff(expected[k], observed[k], f"{path}[{k!r}]", out, seen)
    return out


def class_names(obj, out=None, seen=None):
    """Module-qualified class of every AutoSerialize node, in walk order (for outcome digests)."""
    if out is None:
        out, seen = [], set()
    if id(obj) in seen:
        return out
    if isinstance(obj, AutoSerialize):
        seen.add(id(obj))
        out.append(twin_fullname(type(obj)))
        for n in sorted(vars(obj)):
            class_names(vars(obj)[n], out, seen)
    elif isinstance(obj, (list, tuple)):
        seen.add(id(obj))
        for e in obj:
            class_names(e, out, seen)
    elif isinstance(obj, dict):
        seen.add(id(obj))
        for k in sorted(obj, key=repr):
            class_names(obj[k], out, seen)
    return out
