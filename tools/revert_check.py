#!/venv/bin/python
"""For every `fixed` entry of known_findings.json: reverse-apply the fix commit in a scratch worktree of /repo HEAD
and run the property's quick check against it (VERIF_REPO, --no-evidence). The check must exit 1: a fixed entry
suppresses nothing, the violation is reported again if the defect returns. Writes /verif/mutants/REVERTED_FIXES.md.

    revert_check.py [PROP ...]      (default: all)
"""
import json
import os
import subprocess
import sys

PY = "/venv/bin/python"
VERIF = os.path.dirname(os.path.dirname(os.path.abspath(__file__)))
# fixes that a LATER fix made redundant (reverting them alone changes nothing any more): (property, sha) -> later commits
SUBSUMED = {("C20", "7950822"): "9a278f0 96ce9e3"}
# fixes whose lines a later fix rewrote (a plain reverse patch conflicts): (property, sha) -> later commits to revert first
COMBINED = {("C19", "3ec13d7"): "0c87a7d", ("C20", "96ce9e3"): "9a278f0"}


def sh(cmd, env=None, timeout=7200):
    e = dict(os.environ)
    if env:
        e.update(env)
    p = subprocess.run(cmd, shell=True, env=e, capture_output=True, text=True, timeout=timeout)
    return p.returncode, p.stdout + p.stderr


def main():
    only = set(sys.argv[1:])
    entries = [f for f in json.load(open(os.path.join(VERIF, "known_findings.json")))["findings"] if f["status"] == "fixed"]
    rows = []
    for f in entries:
        prop, sha = f["property"], f["commit"]
        if only and prop not in only:
            continue
        wt = f"/tmp/rv-{prop}-{sha}-{os.getpid()}"
        rc, o = sh(f"git -C /repo worktree add --detach {wt} HEAD -q")
        assert rc == 0, o
        try:
            rc, o = sh(f"git -C {wt} revert --no-commit {sha}")
            if rc != 0:
                # later commits touched the same lines: fall back to a 3-way reverse patch
                sh(f"git -C {wt} revert --abort; git -C {wt} checkout -q -- .")
                rc, o = sh(f"git -C /repo show {sha} | git -C {wt} apply -R --3way")
            if rc != 0 and (prop, sha) in COMBINED:
                # a later fix rewrote the same lines: revert that one first, then this one
                later = COMBINED[(prop, sha)]
                sh(f"git -C {wt} revert --abort; git -C {wt} reset -q --hard")
                rc, o = sh(" && ".join(f"git -C {wt} revert --no-commit {c}" for c in later.split() + [sha]))
                f = dict(f, what=f"[reverted together with the later fix {later}, which rewrote the same lines] " + f["what"])
            if rc != 0:
                rows.append((prop, sha, "could not reverse-apply cleanly", "", f["what"][:90]))
                continue
            rcc, oc = sh(f"{PY} -u {VERIF}/run.py {prop} --tier quick --no-evidence --jobs 6", env={"VERIF_REPO": wt})
            first = next((l.strip() for l in oc.splitlines() if "violation class=" in l), "")
            res = f"exit {rcc}"
            if rcc == 0 and (prop, sha) in SUBSUMED:
                # a later fix makes this one redundant: the defect only returns when both are reverted
                later = SUBSUMED[(prop, sha)]
                sh(f"git -C {wt} revert --abort; git -C {wt} reset -q --hard")
                sh(" && ".join(f"git -C {wt} revert --no-commit {c}" for c in later.split() + [sha]))
                rc2, oc2 = sh(f"{PY} -u {VERIF}/run.py {prop} --tier quick --no-evidence --jobs 6", env={"VERIF_REPO": wt})
                first = next((l.strip() for l in oc2.splitlines() if "violation class=" in l), "")
                res = f"exit 1" if rc2 == 1 else f"exit {rcc}"
                f = dict(f, what=f"[alone: exit 0, made redundant by the later fixes {later}; reverted together with them: exit {rc2}] " + f["what"])
            rows.append((prop, sha, res, first[:160].replace("|", "/"), f["what"][:200].replace("|", "/")))
            rcc = 1 if res == "exit 1" else rcc
            print(prop, sha, "exit", rcc, first[:140], flush=True)
        finally:
            sh(f"git -C /repo worktree remove --force {wt}")
    out = os.path.join(VERIF, "mutants", "REVERTED_FIXES.md")
    # a partial run (some properties only) keeps the rows of the other fixes from the existing file
    done = {(r[0], r[1]) for r in rows}
    order = [(f["property"], f["commit"]) for f in entries]
    try:
        for line in open(out):
            c = [x.strip() for x in line.strip().strip("|").split(" | ")]
            if len(c) == 5 and c[0].startswith("C") and c[0][1:].isdigit() and (c[0], c[1]) not in done and (c[0], c[1]) in order:
                rows.append(tuple(c))
    except FileNotFoundError:
        pass
    rows.sort(key=lambda r: order.index((r[0], r[1])) if (r[0], r[1]) in order else 10**6)
    with open(out, "w") as fh:
        fh.write("# Every `fix:` commit reverse-applied in a scratch worktree, quick check of its property (must exit 1)\n\n")
        fh.write("| property | fix commit | quick check on the reverted tree | first failure class | defect |\n|---|---|---|---|---|\n")
        for r in rows:
            fh.write("| " + " | ".join(r) + " |\n")
        bad = [r for r in rows if r[2] != "exit 1"]
        fh.write(f"\n{len(rows)} reverted fixes, {len(rows) - len(bad)} detected (exit 1).\n")
    print(f"{len(rows)} rows written to {out}")


if __name__ == "__main__":
    main()
