"""C18 — centre-of-mass origin estimation is exact, path-independent and batch-invariant (shapes S + L, level EX).

Enumerated completely:
  * scan shapes x detector shapes x masks x data kinds (asymmetric positive patterns) x EVERY batch size 1..N and None
    x code paths {CenterOfMassOriginModel.calculate_origin, PtychographyDatasetRaster.preprocess(vectorized=True),
    preprocess(vectorized=False), both read back through com_measured / com_fit, and - when the private seam
    _set_intensities_com(dp_mask=...) exists - the mask argument of both dataset paths};
  * plane and constant fits: origins exactly on a plane/constant over a grid of integer/half-integer coefficients through
    ptycho_utils.fit_origin (explicit mask, the way the library drives it) and CenterOfMassOriginModel.fit_origin_background,
    and through the public pipelines on patterns whose centre of mass is exactly planar;
  * shift_origin_to for EVERY integer origin of the detector (uniform and per-pattern) x every batch size x both
    interpolation modes.
Oracle: float64 weighted means in (row, column) order; np.roll.
"""
from __future__ import annotations

import inspect
import itertools
import math
import warnings

import numpy as np
import torch

from mc.harness import Broken, Tally

LEVEL = "exploration"
TECHNIQUE = "exhaustive lattice (scan x detector x mask x data kind x code path) and every batch size = every schedule, float64 weighted-mean and np.roll oracles"
CLAIM = (
    "For every point of the lattice scan shape x detector shape x mask x data kind and EVERY batch size 1..num_patterns and None, "
    "CenterOfMassOriginModel.calculate_origin, PtychographyDatasetRaster.preprocess(vectorized=True) and preprocess(vectorized=False), "
    "read back through com_measured / com_fit, return the float64 intensity-weighted mean (row, then column) to 1e-4 px and agree "
    "with each other; origins lying exactly on a plane or constant (integer/half-integer coefficient grid, and data whose centre of "
    "mass is exactly planar) are returned by fit_origin and fit_origin_background to 1e-4; shift_origin_to equals np.roll of each "
    "pattern for every integer origin of the detector, uniform or per pattern, at every batch size. Exploration is the right level: "
    "the only schedule freedom is the batch size and it is enumerated completely; everything else is a configuration lattice."
)
NOTE = (
    "Trusted: NumPy float64 weighted means and np.roll as oracles; data alphabet = deterministic asymmetric ramps, seeded positive "
    "noise and blob patterns with exactly planar centre of mass; masks enter the public paths as pre-masked data and the dataset "
    "paths additionally through the private dp_mask seam when it exists. fit_origin is driven with an explicit all-true mask."
)
RULE = (
    "Full product scan {(2,3),(3,4),(1,5),(4,1)} x detector {(6,8),(8,6),(7,7)} (thorough: + scans (2,2),(3,3),(4,5), detectors "
    "(5,9),(9,5), two more seeded members) x mask {none, half-plane, disc} x data kind x code path x batch size {None, 1..N}; "
    "plane coefficients on {-1,-.5,0,.5,1}^2 x {0,2.5,3}, constants on {0,.5,2.5,3,7}^2; every integer origin x "
    "{uniform, per-pattern} x batch size x {bilinear, nearest}. A centre-of-mass point is non-trivial when the batch size "
    "actually splits the set or the row and column centres differ by > 0.05 px (a swap would show); a shift point when the roll is "
    "not the identity; distinct = distinct (configuration, batch size, path)."
)

# ----------------------------------------------------------------------------- tolerances
# centre of mass, float32 code vs float64 oracle: worst observed 6.7e-7 px against the oracle, 9.5e-7 px between the two
# classes (seeds {0,1,2,7,12345}); smallest mutant effect (row/column exchange on the least asymmetric configuration,
# disc-masked ramp) 7.6e-2 px, wrong batch offset > 1 px.
TOL_COM = 1e-4
# plane / constant fits (float32 eigh; curve_fit is exact to 3e-15): worst observed 9.5e-7; smallest mutant effect 0.25
# (constants 0 and 0.5 averaged together).
TOL_FIT = 1e-4
# bilinear shift at integer origins, relative to the pattern maximum: worst observed 1.6e-7; a one-pixel error is >= 1e-2.
# mode="nearest" is compared exactly.
TOL_SHIFT = 1e-5

SCANS = [(2, 3), (3, 4), (1, 5), (4, 1)]
DETS = [(6, 8), (8, 6), (7, 7)]
MASKS = ["none", "half_plane", "disc"]
BLOB_SLOPES = [  # ((a_r, b_r), (a_c, b_c)): blob position = offset + a * scan_row + b * scan_col
    ((0.0, 0.0), (0.0, 0.0)),
    ((0.5, 0.0), (0.0, 0.5)),
    ((0.0, 0.5), (0.5, 0.0)),
    ((0.5, 0.5), (-0.5, 0.5)),
    ((-0.5, 0.5), (0.5, -0.5)),
    ((0.5, -0.5), (-0.5, -0.5)),
]
KINDS = ["ramp", "seeded"] + [f"blob{i}" for i in range(len(BLOB_SLOPES))]
# thorough tier: more shapes (incl. a 20-pattern scan = 21 batch sizes) and more seeded members
SCANS_T = SCANS + [(2, 2), (3, 3), (4, 5)]
DETS_T = DETS + [(5, 9), (9, 5)]
KINDS_T = ["ramp", "seeded", "seeded1", "seeded2"] + [f"blob{i}" for i in range(len(BLOB_SLOPES))]


def blob_fits(scan, idx):
    """the blob (bilinear deposit) must stay on pixels 0..4 in both directions, inside every detector and mask of the alphabet."""
    pr, pc = blob_positions(scan, idx)
    return math.ceil(pr.max()) <= 4 and math.ceil(pc.max()) <= 4
PLANE_SLOPES = [-1.0, -0.5, 0.0, 0.5, 1.0]
PLANE_OFFSETS = [0.0, 2.5, 3.0]
CONSTANTS = [0.0, 0.5, 2.5, 3.0, 7.0]


# ----------------------------------------------------------------------------- data alphabet
def make_mask(det, name):
    H, W = det
    kr, kc = np.mgrid[:H, :W]
    if name == "none":
        return None
    if name == "half_plane":
        return (2 * kr + kc <= 12).astype(np.float32)
    if name == "disc":
        return ((kr - 2.5) ** 2 + (kc - 2.5) ** 2 <= 2.6**2 + 1e-9).astype(np.float32)
    raise ValueError(name)


def blob_positions(scan, idx):
    (ar, br), (ac, bc) = BLOB_SLOPES[idx]
    x, y = np.meshgrid(np.arange(scan[0]), np.arange(scan[1]), indexing="ij")
    pr = ar * x + br * y
    pc = ac * x + bc * y
    return pr - pr.min() + 1.0, pc - pc.min() + 1.5


def make_data(scan, det, kind, seed):
    """float32 4-D array of positive patterns, asymmetric in (row, column)."""
    H, W = det
    N = scan[0] * scan[1]
    kr, kc = np.mgrid[:H, :W]
    k = np.arange(N).reshape(scan)[..., None, None]
    if kind == "ramp":
        arr = 1.0 + 0.5 * kr + 0.125 * kc * kc + 0.25 * ((kr + 2 * kc + k) % 5) + 0.0625 * k * kr
    elif kind.startswith("seeded"):
        rng = np.random.default_rng([seed, 18, scan[0], scan[1], H, W, int(kind[6:] or 0)])
        arr = (rng.random((*scan, H, W)) + 0.1) * (1.0 + 0.5 * kr / H)
    elif kind.startswith("blob"):
        pr, pc = blob_positions(scan, int(kind[4:]))
        arr = np.full((*scan, H, W), 0.25)
        for ix in np.ndindex(*scan):
            r0, c0 = int(math.floor(pr[ix])), int(math.floor(pc[ix]))
            fr, fc = pr[ix] - r0, pc[ix] - c0
            for dr, dc, w in ((0, 0, (1 - fr) * (1 - fc)), (1, 0, fr * (1 - fc)), (0, 1, (1 - fr) * fc), (1, 1, fr * fc)):
                if w > 0:
                    arr[ix][r0 + dr, c0 + dc] += 16.0 * w
    else:
        raise ValueError(kind)
    return np.ascontiguousarray(arr.astype(np.float32))


def oracle_com(arr32, mask):
    a = arr32.astype(np.float64)
    if mask is not None:
        a = a * mask.astype(np.float64)
    H, W = a.shape[-2:]
    kr, kc = np.mgrid[:H, :W]
    s = a.sum((-2, -1))
    return (a * kr).sum((-2, -1)) / s, (a * kc).sum((-2, -1)) / s


def make_ds(arr):
    from quantem.core.datastructures import Dataset4dstem

    return Dataset4dstem.from_array(arr.copy(), sampling=[1, 1, 0.1, 0.1], units=["A", "A", "A^-1", "A^-1"])


def batch_sizes(n):
    return [None] + list(range(1, n + 1))


def _tag(fails):
    """every recorded sub-case names the relation and path it failed, so that replay() re-reports only that class."""
    out = []
    for cls, sub, msg in fails:
        sub = dict(sub)
        sub["relation"] = cls["relation"]
        sub["cls_path"] = cls.get("path", cls.get("mode"))
        out.append((cls, sub, msg))
    return out


# ----------------------------------------------------------------------------- seams
def seams():
    from quantem.diffractive_imaging.dataset_models import PtychographyDatasetRaster as P

    s = {}
    try:
        s["preprocess_vectorized"] = "vectorized" in inspect.signature(P.preprocess).parameters
    except Exception:
        s["preprocess_vectorized"] = False
    f = getattr(P, "_set_intensities_com", None)
    try:
        pars = inspect.signature(f).parameters if f is not None else {}
        s["dp_mask"] = all(p in pars for p in ("dp_mask", "fit_function", "vectorized_calculation"))
    except Exception:
        s["dp_mask"] = False
    return s


def run_preprocess(arr, vectorized, fit_function, have_vec=True):
    from quantem.diffractive_imaging.dataset_models import PtychographyDatasetRaster

    p = PtychographyDatasetRaster.from_dataset4dstem(make_ds(arr), verbose=0)
    kw = dict(com_fit_function=fit_function, force_com_rotation=0.0, force_com_transpose=False, plot_rotation=False, plot_com=False, obj_padding_px=(8, 8))
    if have_vec:
        kw["vectorized"] = vectorized
    with warnings.catch_warnings():
        warnings.simplefilter("ignore")
        p.preprocess(**kw)
    return np.asarray(p.com_measured, dtype=np.float64), np.asarray(p.com_fit, dtype=np.float64)


# ----------------------------------------------------------------------------- part 1: centre of mass, all paths, all batch sizes
def com_case(case, verbose=False):
    """case = {scan, det, mask, kind, seed}. Returns (list of (cls, subcase, msg), per-point records)."""
    from quantem.diffractive_imaging.dataset_models import PtychographyDatasetRaster
    from quantem.diffractive_imaging.origin_models import CenterOfMassOriginModel

    scan, det, mname, kind, seed = tuple(case["scan"]), tuple(case["det"]), case["mask"], case["kind"], case["seed"]
    sm = seams()
    N = scan[0] * scan[1]
    raw = make_data(scan, det, kind, seed)
    mask = make_mask(det, mname)
    arr = raw if mask is None else np.ascontiguousarray((raw * mask).astype(np.float32))  # public paths see pre-masked data
    er, ec = oracle_com(arr, None)
    swap_visible = bool(np.max(np.abs(er - ec)) > 0.05)
    fails = []
    points = []  # (key, nontrivial, outcome)
    base = {"part": "com", "scan": list(scan), "det": list(det), "mask": mname, "kind": kind, "seed": seed}

    def judge(path, got_r, got_c, extra, rel="com_equals_weighted_mean"):
        got_r = np.asarray(got_r, dtype=np.float64).reshape(scan)
        got_c = np.asarray(got_c, dtype=np.float64).reshape(scan)
        d = max(float(np.max(np.abs(got_r - er))), float(np.max(np.abs(got_c - ec))))
        if not (d <= TOL_COM):
            dsw = max(float(np.max(np.abs(got_r - ec))), float(np.max(np.abs(got_c - er))))
            hint = " (equals the oracle with row and column exchanged)" if dsw <= TOL_COM else ""
            ix = np.unravel_index(int(np.argmax(np.abs(got_r - er) + np.abs(got_c - ec))), scan)
            fails.append(
                (
                    {"relation": rel, "path": path},
                    dict(base, path=path, **extra),
                    f"{path} {extra} scan {scan} det {det} mask {mname} data {kind}: centre of mass differs from the float64 weighted mean by {d:.3e} px{hint}; "
                    f"pattern {tuple(int(i) for i in ix)}: got (row {got_r[ix]:.5f}, col {got_c[ix]:.5f}), expected (row {er[ix]:.5f}, col {ec[ix]:.5f})",
                )
            )
        if verbose:
            print(f"    {path:38s} {str(extra):24s} max deviation {d:.3e} px")
        return d

    def attempt(path, fn, extra=None):
        """A code path that raises on a valid input is a verdict (recorded), not a harness error."""
        try:
            return fn()
        except Broken:
            raise
        except Exception as e:
            fails.append(({"relation": "path_runs", "path": path}, dict(base, path=path, **(extra or {})), f"{path} {extra or ''} raised {type(e).__name__}: {str(e)[:200]} on scan {scan} det {det} mask {mname} data {kind}"))
            if verbose:
                print(f"    {path:38s} raised {type(e).__name__}: {e}")
            return None

    # (a) origin model, every batch size
    om = CenterOfMassOriginModel.from_dataset(make_ds(arr))
    om_ref = None
    for bs in batch_sizes(N):
        if attempt("CenterOfMassOriginModel.calculate_origin", lambda: (om.calculate_origin(bs), 1), {"batch_size": bs}) is None:
            continue
        o = om.origin_measured.detach().cpu().numpy().astype(np.float64).reshape(*scan, 2)
        judge("CenterOfMassOriginModel.calculate_origin", o[..., 0], o[..., 1], {"batch_size": bs})
        if bs is None:
            om_ref = o.copy()
        elif om_ref is not None and (not np.array_equal(np.isfinite(o), np.isfinite(om_ref)) or float(np.max(np.abs(o - om_ref))) > TOL_COM):
            fails.append(({"relation": "batch_invariant", "path": "CenterOfMassOriginModel.calculate_origin"}, dict(base, path="origin_model", batch_size=bs), f"calculate_origin({bs}) differs from calculate_origin(None) by {float(np.max(np.abs(o - om_ref))):.3e} px on scan {scan} det {det}"))
        points.append((["om", bs], (bs is not None and bs < N) or swap_visible, [round(float(x), 4) for x in o.ravel()[:4]]))
    # (b, c) dataset model, vectorised and looped, read back through the public properties
    got = {}
    for vec in (True, False):
        if not sm["preprocess_vectorized"] and vec is False:
            continue
        path = f"preprocess(vectorized={vec}).com_measured"
        r = attempt(path, lambda: run_preprocess(arr, vec, "none", sm["preprocess_vectorized"]))
        if r is None:
            continue
        cm, cf = r
        judge(path, cm[0], cm[1], {})
        judge(f"preprocess(vectorized={vec}).com_fit[none]", cf[0], cf[1], {}, rel="com_fit_none_equals_measured")
        got[vec] = cm
        points.append((["ds", vec], swap_visible, [round(float(x), 4) for x in cm.ravel()[:4]]))
    # both classes and both paths agree
    for vec, cm in got.items():
        if om_ref is None:
            break
        d = max(float(np.max(np.abs(cm[0] - om_ref[..., 0]))), float(np.max(np.abs(cm[1] - om_ref[..., 1]))))
        if not (d <= TOL_COM):
            fails.append(({"relation": "classes_agree", "path": f"preprocess(vectorized={vec}) vs calculate_origin"}, dict(base, path="agree", vectorized=vec), f"PtychographyDatasetRaster (vectorized={vec}) and CenterOfMassOriginModel disagree by {d:.3e} px on scan {scan} det {det} mask {mname} data {kind}"))
    if True in got and False in got:
        d = float(np.max(np.abs(got[True] - got[False])))
        if not (d <= TOL_COM):
            fails.append(({"relation": "paths_agree", "path": "preprocess vectorized vs looped"}, dict(base, path="agree"), f"vectorised and looped centre of mass disagree by {d:.3e} px on scan {scan} det {det} mask {mname} data {kind}"))
    # (d) private seam: the mask argument of the dataset model (raw data + dp_mask), both paths
    if mask is not None and sm["dp_mask"]:
        mr, mc = oracle_com(raw, mask)
        for vec in (True, False):
            p = PtychographyDatasetRaster.from_dataset4dstem(make_ds(raw), verbose=0)
            if attempt(f"_set_intensities_com(dp_mask, vectorized={vec})", lambda: (p._set_intensities_com(raw.copy(), dp_mask=mask.copy(), fit_function="none", vectorized_calculation=vec), 1)) is None:
                continue
            cm = np.asarray(p.com_measured, dtype=np.float64)
            d = max(float(np.max(np.abs(cm[0] - mr))), float(np.max(np.abs(cm[1] - mc))))
            if not (d <= TOL_COM):
                fails.append(({"relation": "com_equals_weighted_mean", "path": f"_set_intensities_com(dp_mask, vectorized={vec})"}, dict(base, path="dp_mask", vectorized=vec), f"_set_intensities_com(dp_mask={mname}, vectorized_calculation={vec}) differs from the masked float64 weighted mean by {d:.3e} px on scan {scan} det {det} data {kind}"))
            if verbose:
                print(f"    _set_intensities_com(dp_mask, vec={vec})                              max deviation {d:.3e} px")
            points.append((["dp_mask", vec], True, [round(float(x), 4) for x in cm.ravel()[:4]]))
    # (e) data with exactly planar centre of mass: the public pipelines return the plane
    if kind.startswith("blob"):
        slopes = BLOB_SLOPES[int(kind[4:])]
        constant = slopes == ((0.0, 0.0), (0.0, 0.0))
        xs, ys = np.meshgrid(np.arange(scan[0]), np.arange(scan[1]), indexing="ij")
        G = np.stack([xs.ravel(), ys.ravel(), np.ones(N)], 1).astype(np.float64)
        for e in (er, ec):
            res = e.ravel() - G @ np.linalg.lstsq(G, e.ravel(), rcond=None)[0]
            if float(np.max(np.abs(res))) > 1e-9:
                raise Broken(f"blob data for {case} does not have an exactly planar centre of mass (residual {float(np.max(np.abs(res))):.2e}): data builder and mask disagree")
        degenerate = 1 in scan
        for fit in ["plane"] + (["constant"] if constant else []):
            rel = "plane_fit_returns_plane" if fit == "plane" else "constant_fit_returns_constant"
            for vec in got:
                r = attempt(f"preprocess(com_fit_function={fit})", lambda: run_preprocess(arr, vec, fit, sm["preprocess_vectorized"]))
                if r is None:
                    continue
                cm, cf = r
                d = float(np.max(np.abs(cf - np.stack([er, ec])))) if np.all(np.isfinite(cf)) else float("inf")
                if not (d <= TOL_FIT):
                    fails.append(({"relation": rel, "path": "preprocess.com_fit", "scan_has_axis_of_length_1": degenerate}, dict(base, path="com_fit", fit=fit, vectorized=vec), f"preprocess(com_fit_function={fit!r}, vectorized={vec}).com_fit differs from the exactly {fit} centre of mass by {d:.3e} px on scan {scan} det {det} mask {mname} ({kind}, slopes {slopes})"))
                if verbose:
                    print(f"    preprocess(com_fit_function={fit}, vec={vec}).com_fit                  max deviation {d:.3e} px")
                points.append((["com_fit", fit, vec], True, [round(float(x), 4) for x in cf.ravel()[:4]]))
            if attempt(f"calculate_origin + fit_origin_background({fit})", lambda: (om.calculate_origin(None), om.fit_origin_background(fit_method=fit))) is None:
                continue
            of = om.origin_fitted.detach().cpu().numpy().astype(np.float64).reshape(*scan, 2)
            with np.errstate(invalid="ignore"):
                d = float(np.max(np.abs(of - np.stack([er, ec], -1)))) if np.all(np.isfinite(of)) else float("inf")
            if not (d <= TOL_FIT):
                fails.append(({"relation": rel, "path": "fit_origin_background", "scan_has_axis_of_length_1": degenerate, "via": "calculate_origin"}, dict(base, path="fit_origin_background", fit=fit), f"calculate_origin + fit_origin_background({fit!r}).origin_fitted differs from the exactly {fit} centre of mass by {d:.3e} px on scan {scan} det {det} mask {mname} ({kind}, slopes {slopes})"))
            if verbose:
                print(f"    calculate_origin + fit_origin_background({fit})                       max deviation {d:.3e} px")
            points.append((["om_fit", fit], True, [round(float(x), 4) if np.isfinite(x) else "nan" for x in of.ravel()[:4]]))
    return _tag(fails), points, swap_visible


def eval_com(case):
    t = Tally()
    fails, points, swap_visible = com_case(case)
    key0 = [case["scan"], case["det"], case["mask"], case["kind"]]
    for key, nontriv, outcome in points:
        t.case(key=key0 + key, nontrivial=nontriv, outcome=[key0, outcome])
    for cls, sub, msg in fails:
        t.fail(cls, sub, msg)
    t.extra["com_configurations"] += 1
    t.extra["com_configurations_swap_visible"] += int(swap_visible)
    t.extra["com_points_batch_splits"] += sum(1 for k, _, _ in points if k[0] == "om" and k[1] is not None and k[1] < case["scan"][0] * case["scan"][1])
    if case["kind"] == "ramp" and case["mask"] == "half_plane":
        t.sample({"com_configuration": key0, "paths": len(points), "first_values": points[0][2]}, cap=1)
    return t


# ----------------------------------------------------------------------------- part 2: fits on the coefficient grid
def plane_values(scan, coef):
    mx, my, b = coef
    x, y = np.meshgrid(np.arange(scan[0]), np.arange(scan[1]), indexing="ij")
    return mx * x + my * y + b


def coefficient_grid():
    return [(mx, my, b) for mx in PLANE_SLOPES for my in PLANE_SLOPES for b in PLANE_OFFSETS]


def fit_case(case, verbose=False):
    """case = {scan, coef_r, coef_c}: origins exactly on planes (constants when both slopes are zero)."""
    from quantem.diffractive_imaging.origin_models import CenterOfMassOriginModel
    from quantem.diffractive_imaging.ptycho_utils import fit_origin

    scan = tuple(case["scan"])
    cr, cc = tuple(case["coef_r"]), tuple(case["coef_c"])
    pr, pc = plane_values(scan, cr), plane_values(scan, cc)
    degenerate = 1 in scan
    constant = cr[:2] == (0.0, 0.0) and cc[:2] == (0.0, 0.0)
    fails = []
    outs = []
    base = {"part": "fit", "scan": list(scan), "coef_r": list(cr), "coef_c": list(cc)}
    fits = ["plane"] + (["constant"] if constant else [])
    for fit in fits:
        rel = "plane_fit_returns_plane" if fit == "plane" else "constant_fit_returns_constant"
        # ptycho_utils.fit_origin, driven with an explicit all-true mask as _set_intensities_com does
        try:
            with warnings.catch_warnings():
                warnings.simplefilter("ignore")
                qr, qc, rr, rc = fit_origin(data=(pr.copy(), pc.copy()), fit_function=fit, mask=np.ones(scan, dtype=bool))
            d = max(float(np.max(np.abs(qr - pr))), float(np.max(np.abs(qc - pc))), float(np.max(np.abs(rr))), float(np.max(np.abs(rc))))
            if not np.isfinite(d):
                d = float("inf")
        except Exception as e:
            d = float("inf")
            qr = repr(e)
        if not (d <= TOL_FIT):
            fails.append(({"relation": rel, "path": "fit_origin", "scan_has_axis_of_length_1": degenerate}, dict(base, fit=fit, path="fit_origin"), f"fit_origin({fit!r}) on scan {scan}: origins exactly on row-plane {cr}, column-plane {cc} come back off by {d:.3e} ({qr if isinstance(qr, str) else ''})"))
        if verbose:
            print(f"    fit_origin({fit})              max deviation {d:.3e}")
        # CenterOfMassOriginModel.fit_origin_background
        om = CenterOfMassOriginModel.from_dataset(make_ds(np.ones((*scan, 2, 3), dtype=np.float32)))
        want = np.stack([pr, pc], -1).reshape(-1, 2)
        try:
            om.origin_measured = torch.tensor(want, dtype=torch.float32)
            om.fit_origin_background(fit_method=fit)
            of = om.origin_fitted.detach().cpu().numpy().astype(np.float64)
            d2 = float(np.max(np.abs(of - want))) if np.all(np.isfinite(of)) else float("inf")
        except Exception as e:
            of = np.full_like(want, np.nan)
            d2 = float("inf")
        if not (d2 <= TOL_FIT):
            fails.append(({"relation": rel, "path": "fit_origin_background", "scan_has_axis_of_length_1": degenerate, "via": "direct"}, dict(base, fit=fit, path="fit_origin_background"), f"fit_origin_background({fit!r}) on scan {scan}: origins exactly on row-plane {cr}, column-plane {cc} come back off by {d2:.3e}; first fitted origin {of[0].tolist()}, expected {want[0].tolist()}"))
        if verbose:
            print(f"    fit_origin_background({fit})   max deviation {d2:.3e}")
        outs.append([fit, round(min(d, 9.0), 3), round(min(d2, 9.0), 3), [round(float(x), 3) for x in want.ravel()[:3]]])
    return _tag(fails), outs


def eval_fit(item):
    scan, mx = item
    t = Tally()
    grid = coefficient_grid()
    for i, cr in enumerate(grid):
        if cr[0] != mx:
            continue
        cc = grid[(i * 7 + 3) % len(grid)]  # a different plane for the column origin (7 is coprime to 75: a permutation)
        case = {"part": "fit", "scan": list(scan), "coef_r": list(cr), "coef_c": list(cc)}
        fails, outs = fit_case(case)
        t.case(key=case, nontrivial=True, outcome=[list(scan), outs])
        for cls, sub, msg in fails:
            t.fail(cls, sub, msg)
        t.extra["fit_cases"] += 1
        t.extra["fit_calls"] += 2 * len(outs)
        if cr == (0.5, -0.5, 2.5):
            t.sample({"fit": case, "deviations": outs}, cap=1)
    if mx == 0.0:  # constants: every pair of row/column constants on the integer/half-integer grid
        for b1, b2 in itertools.product(CONSTANTS, CONSTANTS):
            case = {"part": "fit", "scan": list(scan), "coef_r": [0.0, 0.0, b1], "coef_c": [0.0, 0.0, b2]}
            fails, outs = fit_case(case)
            t.case(key=case, nontrivial=True, outcome=[list(scan), outs])
            for cls, sub, msg in fails:
                t.fail(cls, sub, msg)
            t.extra["fit_cases"] += 1
            t.extra["fit_cases_constant"] += 1
            t.extra["fit_calls"] += 2 * len(outs)
    return t


# ----------------------------------------------------------------------------- part 3: integer-origin shift = roll
def shift_case(case, verbose=False):
    """case = {scan, det, variant, origin_row, seed}: all origin columns x batch sizes x modes."""
    from quantem.diffractive_imaging.origin_models import CenterOfMassOriginModel

    scan, det, variant, o_r, seed = tuple(case["scan"]), tuple(case["det"]), case["variant"], case["origin_row"], case["seed"]
    H, W = det
    N = scan[0] * scan[1]
    arr = make_data(scan, det, "ramp" if variant == "uniform" else "seeded", seed)
    flat = arr.reshape(N, H, W)
    om = CenterOfMassOriginModel.from_dataset(make_ds(arr))
    fails = []
    points = []
    only_col = case.get("origin_col")
    for o_c in range(W):
        if only_col is not None and o_c != only_col:
            continue
        if variant == "uniform":
            org = np.tile(np.array([[o_r, o_c]]), (N, 1))
            om.origin_fitted = torch.tensor([[float(o_r), float(o_c)]])
        else:
            kk = np.arange(N)
            org = np.stack([(o_r + kk) % H, (o_c + 2 * kk) % W], -1)
            om.origin_fitted = torch.tensor(org, dtype=torch.float32)
        ref = np.stack([np.roll(flat[k], (-int(org[k, 0]), -int(org[k, 1])), axis=(0, 1)) for k in range(N)]).reshape(arr.shape)
        identity = bool(np.all(org == 0))
        for bs in batch_sizes(N):
            if case.get("batch_size", "all") != "all" and bs != case["batch_size"]:
                continue
            for mode in ("bilinear", "nearest"):
                try:
                    om.shift_origin_to((0, 0), max_batch_size=bs, mode=mode)
                    s = om.shifted_tensor.detach().cpu().numpy()
                except Exception as e:
                    fails.append(({"relation": "path_runs", "path": "shift_origin_to", "mode": mode}, {"part": "shift", "scan": list(scan), "det": list(det), "variant": variant, "origin_row": o_r, "origin_col": o_c, "batch_size": bs, "seed": seed}, f"shift_origin_to((0,0), max_batch_size={bs}, mode={mode!r}) raised {type(e).__name__}: {str(e)[:200]}"))
                    continue
                if mode == "nearest":
                    bad = not np.array_equal(s, ref)
                    d = float(np.max(np.abs(s - ref)))
                else:
                    d = float(np.max(np.abs(s.astype(np.float64) - ref))) / float(ref.max())
                    bad = not (d <= TOL_SHIFT)
                if bad:
                    k = int(np.argmax(np.abs(s - ref).reshape(N, -1).max(1)))
                    fails.append(
                        (
                            {"relation": "integer_origin_shift_equals_roll", "mode": mode},
                            {"part": "shift", "scan": list(scan), "det": list(det), "variant": variant, "origin_row": o_r, "origin_col": o_c, "batch_size": bs, "seed": seed},
                            f"shift_origin_to((0,0), max_batch_size={bs}, mode={mode!r}) scan {scan} det {det} {variant} origin ({o_r},{o_c}): differs from np.roll by {d:.3e}; pattern {k} origin {org[k].tolist()}: first row got {s.reshape(N, H, W)[k, 0].round(4).tolist()}, expected {ref.reshape(N, H, W)[k, 0].round(4).tolist()}",
                        )
                    )
                if verbose:
                    print(f"    origin ({o_r},{o_c}) batch {bs} {mode:8s} max deviation {d:.3e}")
                points.append(([o_c, bs, mode], not identity, [round(float(x), 4) for x in s.ravel()[:3]]))
    return _tag(fails), points


def eval_shift(case):
    t = Tally()
    fails, points = shift_case(case)
    key0 = [case["scan"], case["det"], case["variant"], case["origin_row"]]
    for key, nontriv, outcome in points:
        t.case(key=key0 + key, nontrivial=nontriv, outcome=[key0[:3], outcome])
    for cls, sub, msg in fails:
        t.fail(cls, sub, msg)
    t.extra["shift_calls"] += len(points)
    if case["origin_row"] == 2 and case["variant"] == "per_pattern" and tuple(case["det"]) == (6, 8):
        t.sample({"shift": key0, "calls": len(points)}, cap=1)
    return t


# ----------------------------------------------------------------------------- run / replay
def run(ctx):
    warnings.simplefilter("ignore")
    sm = seams()
    if not sm["preprocess_vectorized"]:
        ctx.seam_missing.append("PtychographyDatasetRaster.preprocess(vectorized=...) (only the default path is exercised)")
    if not sm["dp_mask"]:
        ctx.seam_missing.append("PtychographyDatasetRaster._set_intensities_com(dp_mask=...) (masks enter as pre-masked data only)")
    ctx.assume(
        "masks reach the public paths as pre-masked data (CenterOfMassOriginModel and preprocess take no mask); the dataset model's dp_mask argument is exercised through the private _set_intensities_com when it exists",
        "fit_origin is driven with an explicit all-true mask, as _set_intensities_com drives it (mask=None on 2-D input is an unused, broken path and not part of the property)",
        "data alphabet: deterministic asymmetric ramps, seeded positive noise with a row tilt, blobs on a flat background whose centre of mass is exactly planar in the scan position; VERIF_SEED fills the seeded members",
        "preprocess is run with force_com_rotation=0, force_com_transpose=False, no plots, obj_padding_px=(8,8) (tiny problems need padding); these do not enter the centre of mass",
        "a plane through a scan with an axis of length 1 is not unique, but its values at the scan positions are; such scans stay in the lattice",
    )

    def once():
        a = com_case({"scan": [3, 4], "det": [6, 8], "mask": "disc", "kind": "blob3", "seed": ctx.seed})
        b = fit_case({"scan": [2, 3], "coef_r": [0.5, -0.5, 2.5], "coef_c": [-1.0, 0.5, 3.0]})
        c = shift_case({"scan": [2, 3], "det": [8, 6], "variant": "per_pattern", "origin_row": 3, "seed": ctx.seed})
        # a failing part is compared by its failure classes only: a defective library may return uninitialised memory, and
        # that must end as a VIOLATION (exit 1), not as a non-determinism of the check (exit 2)
        def part(fails, obs):
            return sorted({repr(sorted(cls.items())) for cls, _, _ in fails}) if fails else obs

        return (part(a[0], a[1]), part(b[0], b[1]), part(c[0], c[1]))

    ctx.selftest(once)

    scans, dets, kinds = (SCANS, DETS, KINDS) if ctx.quick else (SCANS_T, DETS_T, KINDS_T)
    com_items = [
        {"part": "com", "scan": list(s), "det": list(d), "mask": m, "kind": k, "seed": ctx.seed}
        for s, d, m, k in itertools.product(scans, dets, MASKS, kinds)
        if not k.startswith("blob") or blob_fits(s, int(k[4:]))
    ]
    ctx.say(f"centre of mass: {len(com_items)} configurations x every batch size x every code path")
    mA = ctx.pmap(eval_com, com_items, chunk=2, label="com")
    fit_items = [(s, mx) for s in scans for mx in PLANE_SLOPES]
    mB = ctx.pmap(eval_fit, fit_items, chunk=1, label="fits")
    shift_items = [
        {"part": "shift", "scan": list(s), "det": list(d), "variant": v, "origin_row": r, "seed": ctx.seed}
        for s, d, v in itertools.product(scans, dets, ["uniform", "per_pattern"])
        for r in range(d[0])
    ]
    mC = ctx.pmap(eval_shift, shift_items, chunk=1, label="shift")
    ctx.coverage.update(
        exhaustive=True,
        alphabet={
            "scan_shapes": [list(s) for s in scans],
            "detector_shapes": [list(d) for d in dets],
            "masks": MASKS,
            "data_kinds": kinds,
            "blob_slopes": [[list(a), list(b)] for a, b in BLOB_SLOPES],
            "batch_sizes": "None and every 1..num_patterns",
            "code_paths": ["CenterOfMassOriginModel.calculate_origin", "preprocess(vectorized=True).com_measured/com_fit", "preprocess(vectorized=False).com_measured/com_fit"] + (["_set_intensities_com(dp_mask) vectorised/looped"] if sm["dp_mask"] else []),
            "plane_coefficients": {"slopes": PLANE_SLOPES, "offsets": PLANE_OFFSETS, "constants_row_x_column": CONSTANTS},
            "fit_paths": ["ptycho_utils.fit_origin(mask=all true)", "CenterOfMassOriginModel.fit_origin_background", "preprocess(com_fit_function).com_fit", "calculate_origin + fit_origin_background"],
            "shift": "every integer origin of the detector x {uniform, per-pattern} x every batch size x {bilinear, nearest}",
        },
        bounds={"tolerance_com_px": TOL_COM, "tolerance_fit": TOL_FIT, "tolerance_shift_relative": TOL_SHIFT, "nearest_mode": "exact"},
        com_points=int(mA.n),
        fit_cases=int(mB.n),
        shift_calls=int(mC.n),
    )
    if mA.extra["com_configurations_swap_visible"] < 0.9 * mA.extra["com_configurations"]:
        raise Broken(f"data alphabet too symmetric: a row/column swap would be visible in only {mA.extra['com_configurations_swap_visible']} of {mA.extra['com_configurations']} configurations")
    if mA.extra["com_points_batch_splits"] < 100 or len(mA.outcomes) < 200:
        raise Broken(f"centre-of-mass lattice degenerate: {mA.extra['com_points_batch_splits']} splitting batch sizes, {len(mA.outcomes)} outcomes")
    if len(mC.nontrivial) < 0.9 * mC.n or len(mC.outcomes) < 100:
        raise Broken(f"shift lattice degenerate: {len(mC.nontrivial)} non-identity rolls of {mC.n}, {len(mC.outcomes)} outcomes")
    if mB.n < len(scans) * 75:
        raise Broken(f"fit grid incomplete: {mB.n} cases")


def replay(ctx, case):
    warnings.simplefilter("ignore")
    part = case.get("part")
    if part == "fit":
        fails, outs = fit_case(case, verbose=True)
    elif part == "shift":
        fails, _ = shift_case(case, verbose=True)
    else:
        print(f"  configuration: scan {case['scan']} det {case['det']} mask {case['mask']} data {case['kind']} (all paths and batch sizes re-run)")
        fails, _, _ = com_case(case, verbose=True)
    for cls, sub, msg in fails:
        # a configuration is re-run as a whole; only the class that was recorded is re-reported
        if "relation" in case and (cls["relation"] != case["relation"] or cls.get("path", cls.get("mode")) != case.get("cls_path")):
            continue
        ctx.fail(cls, sub, msg)
