import numpy as np, warnings, torch
warnings.simplefilter("ignore")
print("== custom normalization int overflow")
from quantem.core.visualization.custom_normalizations import CustomNormalization
for dt in [np.uint8, np.int8, np.int16, np.float32]:
    data = np.array([0, 5, 10, 100, 120], dtype=dt) if dt!=np.int8 else np.array([-100,-5,0,50,100],dtype=dt)
    for kw in [dict(interval_type="manual"), dict(interval_type="manual", vmin=5, vmax=100), dict(interval_type="centered"), dict(interval_type="quantile")]:
        try:
            n = CustomNormalization(data=data, **kw)
            out = np.asarray(n(data))
            mono = np.all(np.diff(out) >= 0)
            print(dt.__name__, kw, "->", np.round(out,3), "monotone" if mono else "NON-MONOTONE")
        except Exception as e:
            print(dt.__name__, kw, "EXC", type(e).__name__, e)
d = np.array([1.0, np.nan, 2.0, np.inf, -np.inf, 3.0])
n = CustomNormalization(interval_type="manual", data=d); print("nan/inf:", n(d))
print("== drift 1-knot vs 2-knot non-square")
from quantem.imaging.drift import DriftCorrection
rng = np.random.default_rng(0)
for shape in [(8,8),(6,10)]:
    for ang in [0, 30, 90]:
        res = {}
        for nk in (1,2,3,4):
            im = rng.random(shape)
            dc = DriftCorrection.from_data([im, im.copy()], [ang, ang]).preprocess(pad_fraction=0.5, number_knots=nk, pad_value="mean")
            xa, ya = dc.interpolator[0].transform_coordinates(dc.knots[0])
            res[nk] = (xa, ya)
        # oracle
        H,W = shape; c = ((dc.shape[1]-1)/2, (dc.shape[2]-1)/2)
        th = np.deg2rad(ang); sf = np.array([np.sin(-th), np.cos(-th)]); ss = np.array([np.cos(-th), -np.sin(-th)])
        r = np.arange(H)[:,None]-(H-1)/2; cc = np.arange(W)[None,:]-(W-1)/2
        ox = c[0] + cc*sf[0] + r*ss[0]; oy = c[1] + cc*sf[1] + r*ss[1]
        print(shape, ang, {nk: (float(np.abs(res[nk][0]-ox).max().round(6)), float(np.abs(res[nk][1]-oy).max().round(6))) for nk in res}, "wsum", float(dc.weights_warped.array[0].sum()), H*W)
        dc.align_translation(show_merged=False)
