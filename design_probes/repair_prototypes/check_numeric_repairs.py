import sys; sys.path.insert(0,"/tmp/qscratch/src")
import numpy as np, torch, warnings, math
warnings.simplefilter("ignore"); torch.set_num_threads(1)
import quantem; assert quantem.__file__.startswith("/tmp/qscratch")
from skimage.transform import radon, iradon
from skimage.transform.radon_transform import _get_fourier_filter
from quantem.tomography.radon.radon import radon_torch, iradon_torch, get_fourier_filter_torch
wr=wi=0
for N in list(range(3,33))+[40,64,65]:
    rng=np.random.default_rng(N); yy,xx=np.mgrid[:N,:N]; img=rng.random((N,N))*(((yy-N//2)**2+(xx-N//2)**2)<=(N//2)**2)
    theta=np.array([0.,17.,45.,90.,133.,170.,180.])
    s_ref=radon(img,theta=theta,circle=True); s_t=radon_torch(torch.tensor(img,dtype=torch.float32),theta=torch.tensor(theta,dtype=torch.float32)).numpy()
    wr=max(wr,np.abs(s_t.T-s_ref).max()/np.abs(s_ref).max())
    for f in ["ramp","shepp-logan","cosine","hamming","hann",None]:
        r_ref=iradon(s_ref,theta=theta,filter_name=f,circle=True); r_t=iradon_torch(torch.tensor(s_ref.T.copy(),dtype=torch.float32),theta=torch.tensor(theta,dtype=torch.float32),filter_name=f).numpy()
        wi=max(wi,float(np.abs(r_t-r_ref).max()/np.abs(r_ref).max()))
print("radon worst",wr,"iradon worst",wi,"cosine",float(np.abs(_get_fourier_filter(128,"cosine")[:,0]-get_fourier_filter_torch(128,"cosine")[0].numpy()).max()))
b=torch.rand(3,12,12); th=torch.tensor([0.,30.,75.]); sb=radon_torch(b,theta=th); print("batched radon == per image",float(max((sb[i]-radon_torch(b[i],theta=th)).abs().max() for i in range(3))), "iradon batched",float(max((iradon_torch(sb,theta=th)[i]-iradon_torch(sb[i],theta=th)).abs().max() for i in range(3))), "non-circle runs", tuple(iradon_torch(sb,theta=th,circle=False).shape))
from quantem.core.utils.imaging_utils import cross_correlation_shift
exec(open("/verif/design_probes/p4.py").read().split('print("== cross correlation")')[0])
worst={}
for shape in [(16,16),(15,18),(9,12),(8,11)]:
    ref=bandlimited(shape)
    for up in [1,2,3,4,8,16,64]:
        for s in [(0,0),(1,0),(0,-2),(3,4),(7,-5),(0.5,0.25),(1.3,-2.7),(-0.125,3.375),(shape[0]//2+1,1),(0.49,-0.51)]:
            im=fshift(ref,(-s[0],-s[1])); est=np.array(cross_correlation_shift(ref,im,upsample_factor=up))
            d=(est-np.array(s)+np.array(shape)/2)%np.array(shape)-np.array(shape)/2; worst[up]=max(worst.get(up,0),np.abs(d).max())
print("xcorr worst per factor",{k:round(v,4) for k,v in worst.items()})
import quantem.diffractive_imaging.direct_ptychography as D
D.gc.collect=lambda *a,**k:0
exec(open("/verif/design_probes/p12.py").read().split("dp,vbf,mask=make(abers")[0])
f1=make()[0].fit_hyperparameters_cross_correlation(aberration_coefs={"defocus":123.},rotation_angle=0.0,bin_factors=(1,),verbose=0).hyperparameter_state.optimized_aberrations
f2=make()[0].fit_hyperparameters_cross_correlation(aberration_coefs={"C10":-123.},rotation_angle=0.0,bin_factors=(1,),verbose=0).hyperparameter_state.optimized_aberrations
print("alias fit",f1==f2,f1)
